#!/usr/bin/env python3
"""lib/seedtest.py [--tier quick|thorough] [ids...] — apply each seeded change in /verif/seeded/<id>/patch.diff to
/repo, run the check(s) of the property it breaks (and optionally others named in meta.json 'also'),
undo it straight afterwards, and print which signatures fired. Never leaves /repo modified."""
import json, os, subprocess, sys
ROOT = os.path.dirname(os.path.dirname(os.path.abspath(__file__)))
REPO = "/repo"


def sh(cmd, **kw):
    return subprocess.run(cmd, shell=True, capture_output=True, text=True, **kw)


def main():
    args = sys.argv[1:]
    tier = "quick"
    if args[:1] == ["--tier"]:
        tier = args[1]
        args = args[2:]
    ids = args or sorted(os.listdir(os.path.join(ROOT, "seeded")))
    if sh(f"git -C {REPO} status --porcelain -- src Cargo.toml").stdout.strip():
        print("refusing: /repo has uncommitted changes")
        return 2
    results = {}
    for sid in ids:
        d = os.path.join(ROOT, "seeded", sid)
        if not os.path.isfile(os.path.join(d, "patch.diff")):
            continue
        meta = json.load(open(os.path.join(d, "meta.json")))
        props = [meta["property"]] + meta.get("also", [])
        r = sh(f"git -C {REPO} apply {d}/patch.diff")
        if r.returncode != 0:
            print(f"{sid}: patch does not apply: {r.stderr.strip()[:200]}")
            results[sid] = "patch-does-not-apply"
            continue
        try:
            for p in props:
                out = sh(f"cd {ROOT} && timeout 7200 ./check {p} --tier {tier}").stdout
                sigs = [l.split("signature=")[1].split()[0] for l in out.splitlines() if "signature=" in l]
                verdict = "VIOLATION" if "VIOLATION property=" in out else ("INCONCLUSIVE" if "INCONCLUSIVE" in out else "missed")
                print(f"{sid}: {p} {tier}: {verdict} {sigs[:6]}")
                results[f"{sid}/{p}"] = {"verdict": verdict, "signatures": sigs[:12]}
        finally:
            sh(f"git -C {REPO} checkout -- .")
    print(json.dumps(results, indent=1))
    return 0


if __name__ == "__main__":
    sys.exit(main())
