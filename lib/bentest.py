#!/usr/bin/env python3
"""lib/bentest.py [ids...] — false-alarm test. For each property-preserving refactor in /verif/seeded/benign/<id>/patch.diff:
apply it to /repo, run the quick check of the property it was written against plus every other fast native check
(a refactor of shared code must not trip a neighbouring property either), undo it, and report any check that did not
say OK. `--import C01 ...` first copies /tmp/ben-<ID>-out/{A..D}.patch (+notes.md) into seeded/benign/ after confirming in
a scratch worktree that both unedited suites are green with the patch."""
import json, os, re, shutil, subprocess, sys
ROOT = os.path.dirname(os.path.dirname(os.path.abspath(__file__)))
REPO = os.environ.get("VERIF_REPO", "/repo")
WT = os.environ.get("BENVERIFY_WT", "/tmp/benverify")
FAST = ["C%02d" % i for i in range(1, 21) if i not in (16, 17, 19)]


def sh(cmd, cwd=None, timeout=3600):
    p = subprocess.run(cmd, shell=True, cwd=cwd, capture_output=True, text=True, timeout=timeout)
    return p.returncode, p.stdout + p.stderr


def do_import(ids):
    sh(f"git -C {REPO} worktree remove --force {WT}")
    rc, out = sh(f"git -C {REPO} worktree add --detach {WT} HEAD")
    try:
        for pid in ids:
            src = f"/tmp/{os.environ.get('BEN_PREFIX', 'ben')}-{pid}-out"
            if not os.path.isdir(src):
                print(pid, "no output dir")
                continue
            notes = open(os.path.join(src, "notes.md")).read() if os.path.exists(os.path.join(src, "notes.md")) else ""
            for which in "ABCDEFGHIJ":
                patch = os.path.join(src, f"{which}.patch")
                if not os.path.exists(patch):
                    continue
                sh("git checkout -- . && git clean -fdq tests examples", cwd=WT)
                rc, out = sh(f"git apply {patch}", cwd=WT)
                if rc != 0:
                    print(f"{pid}-{which}: patch does not apply")
                    continue
                _, o1 = sh("CARGO_NET_OFFLINE=true cargo test --offline 2>&1 | tail -40", cwd=WT)
                _, o2 = sh("CARGO_NET_OFFLINE=true cargo test --offline --features devices 2>&1 | tail -40", cwd=WT)
                ok = all("test result: FAILED" not in o and "test result: ok" in o for o in (o1, o2))
                print(f"{pid}-{which}: suites {'green' if ok else 'NOT GREEN'}")
                if not ok:
                    continue
                dst = os.path.join(ROOT, "seeded", "benign", f"{pid}-{which}")
                os.makedirs(dst, exist_ok=True)
                shutil.copy(patch, os.path.join(dst, "patch.diff"))
                m = re.split(r"(?im)^#+\s*(?:change\s*)?([A-J])\b.*$", notes)
                sect = next((m[i + 1].strip() for i in range(1, len(m) - 1, 2) if m[i].upper() == which), notes)[:3000]
                json.dump({"id": f"{pid}-{which}", "property": pid, "kind": "property-preserving refactor (false-alarm test)",
                           "author_argument": sect, "suites_green_with_change": True}, open(os.path.join(dst, "meta.json"), "w"), indent=1)
    finally:
        sh(f"git -C {REPO} worktree remove --force {WT}")
        sh(f"git -C {REPO} worktree prune")


def main():
    args = sys.argv[1:]
    if args[:1] == ["--import"]:
        do_import(args[1:])
        return 0
    base = os.path.join(ROOT, "seeded", "benign")
    ids = args or sorted(os.listdir(base))
    if sh(f"git -C {REPO} status --porcelain -- src Cargo.toml")[1].strip():
        print("refusing: /repo has uncommitted changes")
        return 2
    results = json.load(open(os.path.join(base, "RESULTS.json"))) if os.path.exists(os.path.join(base, "RESULTS.json")) else {}
    for bid in ids:
        d = os.path.join(base, bid)
        if not os.path.isfile(os.path.join(d, "patch.diff")):
            continue
        prop = json.load(open(os.path.join(d, "meta.json")))["property"]
        rc, out = sh(f"git -C {REPO} apply {d}/patch.diff")
        if rc != 0:
            print(bid, "patch does not apply")
            continue
        alarms = {}
        try:
            for p in sorted(set([prop] + FAST)):
                rc, out = sh(f"cd {ROOT} && timeout 3000 ./check {p} --tier quick")
                last = [l for l in out.splitlines() if l.startswith(("OK ", "VIOLATION", "INCONCLUSIVE"))]
                if not last or not last[-1].startswith("OK "):
                    sigs = [l.split("signature=")[1].split()[0] for l in out.splitlines() if "signature=" in l]
                    alarms[p] = {"verdict": (last[0].split()[0] if last else "no-verdict"), "signatures": sigs[:8], "detail": [l for l in out.splitlines() if "example:" in l][:2]}
        finally:
            sh(f"git -C {REPO} checkout -- .")
        results[bid] = alarms
        print(bid, "silent" if not alarms else "ALARM " + json.dumps(alarms)[:600])
    json.dump(results, open(os.path.join(base, "RESULTS.json"), "w"), indent=1, sort_keys=True)
    return 0


if __name__ == "__main__":
    sys.exit(main())
