"""C19 lane "cfgmatrix": build /verif/cfgmatrix under seven feature configurations of rrtk, run the
same seeded workload in each, and diff the canonical traces offline.

Trace lines are `<program> <tag> <class> <payload>`:
  E  must be identical (same sequence, same payload) in all seven configurations;
  P  (downstream of powf) must agree within 8 ulp-of-magnitude among the std and libm
     configurations; never compared for micromath (its powf is a coarse approximation);
  S  in-build EWMA law self-check, must be `ok` everywhere (this is how micromath is checked);
  C  items that exist only with dimension checking: identical among the four checked builds;
  U  ill-dimensioned operations, only in the three unchecked builds: outcome `ok`, value == expect.

Environment: C19_CFGMATRIX_DIR overrides the crate directory (self-test against a scratch clone whose
path dependency points at a mutated rrtk); C19_PROGRAMS overrides the number of programs."""
import hashlib, math, os, struct, time
from concurrent.futures import ThreadPoolExecutor, ProcessPoolExecutor
import common as C

LANE = "cfgmatrix"
# name -> (profile, features, expected checked, float back-end)
CONFIGS = {
    "std-check":         ("release", "std,dim_check_release",             True,  "std"),
    "std-nocheck":       ("release", "std",                               False, "std"),
    "libm-check":        ("release", "alloc,libm,dim_check_release",      True,  "libm"),
    "libm-nocheck":      ("release", "alloc,libm",                        False, "libm"),
    "micromath-check":   ("release", "alloc,micromath,dim_check_release", True,  "micromath"),
    "micromath-nocheck": ("release", "alloc,micromath",                   False, "micromath"),
    "debug-default":     ("debug",   "std,dim_check_debug",               True,  "std"),
}
REF = "std-check"
ORDER = list(CONFIGS)
P_TOL_ULP = 8.0
RUN_TIMEOUT = 900          # seconds per trace process (expected: about a second)
MAX_DETAILS = 40           # violation details kept per chunk (signature counts are always complete)


def crate_dir():
    return os.environ.get("C19_CFGMATRIX_DIR") or os.path.join(C.ROOT, "cfgmatrix")


def target_base():
    d = os.path.abspath(crate_dir())
    if d == os.path.join(C.ROOT, "cfgmatrix"):
        return os.path.join(C.BUILD, "cfgmatrix")
    return os.path.join(C.BUILD, "cfgmatrix-alt", hashlib.sha1(d.encode()).hexdigest()[:12])


def _rrtk_path(pkg):
    import re
    m = re.search(r'rrtk\s*=\s*\{[^}]*path\s*=\s*"([^"]+)"', open(os.path.join(pkg, "Cargo.toml")).read())
    return m.group(1) if m else C.REPO


def _tree_stamp(root):
    """(path, mtime, size) of every source the seven builds read; the matrix only means something if
    all seven were compiled from the same tree."""
    h = hashlib.sha1()
    for sub in ("Cargo.toml", "src"):
        p = os.path.join(root, sub)
        if os.path.isfile(p):
            st = os.stat(p)
            h.update(f"{p}:{st.st_mtime_ns}:{st.st_size};".encode())
        for d, _, fs in sorted(os.walk(p)):
            for f in sorted(fs):
                try:
                    st = os.stat(os.path.join(d, f))
                except OSError:
                    h.update(f"{d}/{f}:gone;".encode())
                    continue
                h.update(f"{d}/{f}:{st.st_mtime_ns}:{st.st_size};".encode())
    return h.hexdigest()


def build_all():
    """Seven builds in parallel; any failure => Inconclusive."""
    pkg, base = crate_dir(), target_base()
    if not os.path.exists(os.path.join(pkg, "Cargo.toml")):
        raise C.Inconclusive(f"cfgmatrix crate not found at {pkg}")
    repo = _rrtk_path(pkg)
    before = _tree_stamp(repo)
    bins, secs = _build_all(pkg, base)
    if _tree_stamp(repo) != before:
        raise C.Inconclusive(f"the rrtk sources under {repo} changed while the seven configurations were being built; the traces would not be comparable")
    return bins, secs


def _build_all(pkg, base):

    def one(name):
        profile, feats, _, _ = CONFIGS[name]
        tdir = os.path.join(base, name)
        args = ["--features", feats] + (["--release"] if profile == "release" else [])
        t0 = time.time()
        rc, out, err = C.cargo_build(pkg, tdir, args, timeout=1800)
        return name, rc, err, os.path.join(tdir, profile, "cfgmatrix"), time.time() - t0

    with ThreadPoolExecutor(max_workers=len(CONFIGS)) as ex:
        res = list(ex.map(one, ORDER))
    bins, secs = {}, {}
    for name, rc, err, path, dt in res:
        if rc != 0 or not os.path.exists(path):
            raise C.Inconclusive(f"cfgmatrix configuration {name} ({CONFIGS[name][1]}) does not build against the current tree:\n{err[-2500:]}")
        bins[name], secs[name] = path, round(dt, 1)
    return bins, secs


# ---------------------------------------------------------------------------------------------
# trace handling
# ---------------------------------------------------------------------------------------------
def _f32(bits_hex):
    return struct.unpack("<f", struct.pack("<I", int(bits_hex, 16)))[0]


def _ulp(m):
    """Spacing of f32 at magnitude m."""
    m = abs(m)
    if m != m or m == float("inf"):
        return float("inf")
    if m < 1.1754943508222875e-38:
        return 2.0 ** -149
    return 2.0 ** (math.floor(math.log2(m)) - 23)


def _sigtag(tag):
    # tags are static strings of the workload (no case numbers in them), so they go into signatures as is
    return tag


def _split(line):
    p = line.split(" ", 3)
    if len(p) < 4:
        raise C.Inconclusive(f"malformed trace line: {line[:200]!r}")
    return p  # prog, tag, cls, payload


def _by_prog(lines):
    d = {}
    for l in lines:
        d.setdefault(l[: l.index(" ")], []).append(l)
    return d


def _first_diff(a, b):
    n = min(len(a), len(b))
    for i in range(n):
        if a[i] != b[i]:
            return i
    return n if len(a) != len(b) else -1


def _run_trace(binpath, seed, first, count):
    cmd = [binpath, "--seed", str(seed), "--programs", str(count), "--first", str(first)]
    rc, out, err, to = C.run(cmd, env=C.base_env(), timeout=RUN_TIMEOUT)
    if to:
        return None, f"watchdog fired: {' '.join(cmd)}"
    if rc != 0:
        return None, f"trace process exited rc={rc}: {' '.join(cmd)}: {(err or out)[-800:]}"
    return out, None


def chunk_job(job):
    """Run the seven binaries on one range of programs and compare. Returns a plain dict."""
    bins, seed, first, count = job
    res = {"inconclusive": [], "viol": [], "sig_counts": {}, "lines": {"E": 0, "P": 0, "S": 0, "C": 0, "U": 0},
           "distinct": set(), "pdev": {}, "samples": [], "ill_ops": 0, "ill_by_cfg": {}, "programs": count, "trace_lines": 0}

    def viol(sig, detail, prog):
        res["sig_counts"][sig] = res["sig_counts"].get(sig, 0) + 1
        if len(res["viol"]) < MAX_DETAILS:
            try:
                case = int(prog)
            except (TypeError, ValueError):
                case = 0
            res["viol"].append((sig, detail[:900], case))

    with ThreadPoolExecutor(max_workers=len(bins)) as ex:
        outs = dict(zip(ORDER, ex.map(lambda n: _run_trace(bins[n], seed, first, count), ORDER)))
    tr = {}
    for name in ORDER:
        out, why = outs[name]
        if out is None:
            res["inconclusive"].append(f"{name}: {why}")
            return res
        lines = out.split("\n")
        if lines and lines[-1] == "":
            lines.pop()
        if not lines or not lines[0].startswith("#config "):
            res["inconclusive"].append(f"{name}: trace has no #config header")
            return res
        hdr = dict(kv.split("=", 1) for kv in lines[0].split()[1:] if "=" in kv)
        want_checked, want_float = CONFIGS[name][2], CONFIGS[name][3]
        w = "true" if want_checked else "false"
        if hdr.get("checked") != w or hdr.get("cfg") != w or hdr.get("float") != want_float:
            res["inconclusive"].append(f"{name}: the matrix did not build what it meant to: header {lines[0]!r}, wanted checked={w} float={want_float}")
            return res
        body = lines[1:]
        res["trace_lines"] += len(body)
        e = [l for l in body if " E " in l]
        rest = [l for l in body if " E " not in l]
        cls = {"P": [], "S": [], "C": [], "U": []}
        for l in rest:
            p = _split(l)
            if p[2] not in cls:
                res["inconclusive"].append(f"{name}: unknown trace class in {l[:120]!r}")
                return res
            cls[p[2]].append(p)
        tr[name] = {"E": e, **cls}
        # distinct = tags x configuration (E tags taken from the reference scan below)
        for k in ("P", "S", "C", "U"):
            for p in cls[k]:
                res["distinct"].add(p[1] + "|" + name)

    ref = tr[REF]
    # ---- harness determinism guard + tags of E lines
    e_tags = set()
    for l in ref["E"]:
        e_tags.add(l.split(" ", 2)[1])
    # ---- class E: identical in all seven
    for name in ORDER:
        if name == REF:
            res["lines"]["E"] += len(ref["E"])
            for t in e_tags:
                res["distinct"].add(t + "|" + name)
            continue
        other = tr[name]["E"]
        res["lines"]["E"] += len(other)
        if other == ref["E"]:
            for t in e_tags:
                res["distinct"].add(t + "|" + name)
            continue
        pa, pb = _by_prog(ref["E"]), _by_prog(other)
        for l in other:
            res["distinct"].add(l.split(" ", 2)[1] + "|" + name)
        for prog in sorted(set(pa) | set(pb), key=lambda s: int(s)):
            a, b = pa.get(prog, []), pb.get(prog, [])
            i = _first_diff(a, b)
            if i < 0:
                continue
            if len(a) == len(b):
                # aligned traces (same tag sequence): every differing tag is meaningful, report each
                # once per program; otherwise (a panic or another category shifted the sequence) only
                # the first difference is
                ta = [l.split(" ", 2)[1] for l in a]
                if ta == [l.split(" ", 2)[1] for l in b]:
                    seen = set()
                    for j in range(i, len(a)):
                        if a[j] != b[j] and ta[j] not in seen:
                            seen.add(ta[j])
                            if ta[j] == "zz.inputs":
                                res["inconclusive"].append(f"harness inputs differ between {REF} and {name} in program {prog}: {a[j]!r} vs {b[j]!r}")
                                return res
                            viol(f"C19/E-line-differs/{_sigtag(ta[j])}/{REF}-vs-{name}",
                                 f"seed={seed} program={prog} line {j} of the program's E trace: {REF}: {a[j]!r}  {name}: {b[j]!r}  (preceding: {' | '.join(a[max(0, j - 2):j])})", prog)
                    continue
            la = a[i] if i < len(a) else "<end of program trace>"
            lb = b[i] if i < len(b) else "<end of program trace>"
            tag = (la if i < len(a) else lb).split(" ", 2)[1]
            if tag == "zz.inputs" or (i < len(a) and i < len(b) and la.split(" ", 2)[1] == "zz.inputs"):
                res["inconclusive"].append(f"harness inputs differ between {REF} and {name} in program {prog}: {la!r} vs {lb!r}")
                return res
            ctx = " | ".join(a[max(0, i - 2):i])
            viol(f"C19/E-line-differs/{_sigtag(tag)}/{REF}-vs-{name}",
                 f"seed={seed} program={prog} line {i} of the program's E trace: {REF}: {la!r}  {name}: {lb!r}  (preceding: {ctx})", prog)
    # ---- class C: identical among the checked builds
    for name in ORDER:
        c = tr[name]["C"]
        if not CONFIGS[name][2]:
            if c:
                res["inconclusive"].append(f"{name}: class C lines in an unchecked build")
                return res
            continue
        res["lines"]["C"] += len(c)
        if name == REF or c == ref["C"]:
            continue
        i = _first_diff(ref["C"], c)
        la = ref["C"][i] if i < len(ref["C"]) else ["?", "<end>", "C", ""]
        lb = c[i] if i < len(c) else ["?", "<end>", "C", ""]
        viol(f"C19/C-line-differs/{_sigtag(la[1])}/{REF}-vs-{name}",
             f"seed={seed} first differing checked-only line: {REF}: {' '.join(la)!r}  {name}: {' '.join(lb)!r}", la[0])
    if not ref["C"]:
        res["inconclusive"].append("no checked-only (class C) observations in the checked reference build")
    # ---- class P: std and libm configurations within 8 ulp-of-magnitude of the reference
    for name in ORDER:
        p = tr[name]["P"]
        res["lines"]["P"] += len(p)
        if name == REF:
            continue
        seq_ok = len(p) == len(ref["P"]) and all(x[0] == y[0] and x[1] == y[1] for x, y in zip(p, ref["P"]))
        if not seq_ok:
            # an E-line difference (panic, other category) explains this; report it only on its own
            if tr[name]["E"] == ref["E"]:
                viol(f"C19/P-line-sequence/{REF}-vs-{name}", f"seed={seed} programs {first}..{first+count}: the sequence of powf-derived observations differs ({len(ref['P'])} vs {len(p)})", first)
            continue
        if CONFIGS[name][3] == "micromath":
            continue
        key = f"{REF}-vs-{name}"
        worst = res["pdev"].get(key, 0.0)
        for x, y in zip(ref["P"], p):
            if x[3] == y[3]:
                continue
            xa, ya = x[3].split(), y[3].split()
            a, b = _f32(xa[0]), _f32(ya[0])
            mag = max(abs(a), abs(b))
            for tok in xa[1:] + ya[1:]:
                if tok.startswith("m="):
                    mag = max(mag, _f32(tok[2:]))
            if a != a or b != b:
                dev = 0.0 if (a != a and b != b) else float("inf")
            else:
                dev = abs(a - b) / _ulp(mag)
            if dev > worst:
                worst = dev
                res.setdefault("pdev_tag", {})[key] = (dev, x[1])
            if dev > P_TOL_ULP:
                viol(f"C19/P-line-deviates/{_sigtag(x[1])}",
                     f"seed={seed} program={x[0]} {x[1]}: {REF}={a!r} [{xa[0]}] {name}={b!r} [{ya[0]}] deviate by {dev:.1f} ulp of magnitude {mag!r} (tolerance {P_TOL_ULP})", x[0])
        res["pdev"][key] = worst
    # ---- class S: in-build checks (EWMA law with the build's own powf; purity of powf; EWMA twins)
    for name in ORDER:
        s = tr[name]["S"]
        res["lines"]["S"] += len(s)
        for p in s:
            if not p[3].startswith("ok"):
                if p[1].endswith(".law"):
                    viol(f"C19/ewma-law/{name}", f"seed={seed} program={p[0]} {p[1]}: EWMA output is not prev*(1-L)+new*L with L from the build's own powf: {p[3]}", p[0])
                else:
                    # .pure: a value read in a sequence differs from what a fresh stream returns for the same
                    # operands in isolation; .twin: an EWMA updated alternately with another differs from its twin
                    viol(f"C19/self-consistency/{p[1]}/{name}", f"seed={seed} program={p[0]} {p[1]}: the build disagrees with itself (value in the sequence vs same operands in isolation / twin updated alone): {p[3]}", p[0])
        if len(s) != len(ref["S"]) and tr[name]["E"] == ref["E"]:
            viol(f"C19/S-line-sequence/{REF}-vs-{name}", f"seed={seed} programs {first}..{first+count}: {len(ref['S'])} vs {len(s)} EWMA law checks", first)
    # ---- class U: ill-dimensioned operations in the unchecked builds
    for name in ORDER:
        u = tr[name]["U"]
        if CONFIGS[name][2]:
            if u:
                res["inconclusive"].append(f"{name}: ill-dimensioned section ran in a checked build")
                return res
            continue
        if not u:
            res["inconclusive"].append(f"{name}: no ill-dimensioned operations were executed")
            return res
        res["lines"]["U"] += len(u)
        res["ill_ops"] += len(u)
        res["ill_by_cfg"][name] = res["ill_by_cfg"].get(name, 0) + len(u)
        for p in u:
            pay = p[3].split()
            st = _sigtag(p[1])
            if pay[0] == "panic":
                viol(f"C19/unchecked-panic/{st}", f"seed={seed} program={p[0]} {name}: {p[1]} panicked on a unit mismatch with dimension checking compiled out", p[0])
            elif pay[0] == "rejected":
                viol(f"C19/unchecked-rejected/{st}", f"seed={seed} program={p[0]} {name}: {p[1]} was rejected on a unit mismatch with dimension checking compiled out", p[0])
            elif pay[0] == "ok" and len(pay) == 3 and pay[2].startswith("expect="):
                if pay[1] != pay[2][7:]:
                    viol(f"C19/unchecked-value/{st}", f"seed={seed} program={p[0]} {name}: {p[1]} gave {pay[1]} but plain f32 arithmetic gives {pay[2][7:]}", p[0])
            else:
                res["inconclusive"].append(f"{name}: malformed U line {' '.join(p)!r}")
                return res
    # ---- literal samples
    if first == 0:
        def pick(lines, pred):
            for l in lines:
                if pred(l):
                    return l
            return None
        s1 = pick(ref["E"], lambda l: " q.abs.neg " in l)
        s2 = pick((" ".join(p) for p in tr["libm-check"]["P"]), lambda l: "ewma" in l)
        s3 = pick((" ".join(p) for p in tr["micromath-nocheck"]["U"]), lambda l: "ill.q.add " in l)
        s4 = pick((" ".join(p) for p in tr["micromath-check"]["S"]), lambda l: True)
        for sub, cfg, s in (("E", "all seven", s1), ("P", "libm-check", s2), ("U", "micromath-nocheck", s3), ("S", "micromath-check", s4)):
            if s:
                res["samples"].append({"lane": LANE, "sub": f"{sub} ({cfg})", "case": s})
    return res


# ---------------------------------------------------------------------------------------------
def run(prop, spec, tier, seed, v):
    t0 = time.time()
    bins, build_secs = build_all()
    t_build = time.time() - t0
    try:
        total = int(os.environ.get("C19_PROGRAMS", ""))
    except ValueError:
        total = 200 if tier == "quick" else 20000
    per = 25 if total <= 400 else 250
    jobs = [(bins, seed, k, min(per, total - k)) for k in range(0, total, per)]
    t1 = time.time()
    workers = max(1, min(len(jobs), max(1, C.NCPU // 2)))
    with ProcessPoolExecutor(max_workers=workers) as ex:
        results = list(ex.map(chunk_job, jobs))
    t_run = time.time() - t1

    lines = {"E": 0, "P": 0, "S": 0, "C": 0, "U": 0}
    pdev, ill, ill_by_cfg, trace_lines, distinct = {}, 0, {}, 0, set()
    pdev_tag = {}
    reasons = []
    for r in results:
        reasons.extend(r["inconclusive"])
    if reasons:
        raise C.Inconclusive("cfgmatrix: " + " | ".join(reasons[:4]))
    for r in results:
        for k in lines:
            lines[k] += r["lines"][k]
        for k, d in r["pdev"].items():
            pdev[k] = max(pdev.get(k, 0.0), d)
        for k, (d, tag) in r.get("pdev_tag", {}).items():
            if d >= pdev_tag.get(k, (-1.0, ""))[0]:
                pdev_tag[k] = (d, tag)
        ill += r["ill_ops"]
        for k, n in r["ill_by_cfg"].items():
            ill_by_cfg[k] = ill_by_cfg.get(k, 0) + n
        trace_lines += r["trace_lines"]
        distinct |= r["distinct"]
        for sig, n in r["sig_counts"].items():
            v.sig_counts[sig] = v.sig_counts.get(sig, 0) + n
        for sig, detail, case in r["viol"]:
            # add_violation also counts: undo the double count
            v.add_violation(sig, detail, lane=LANE, sub="trace", case=case)
            v.sig_counts[sig] -= 1
        for s in r["samples"]:
            if len([x for x in v.samples if x.get("lane") == LANE]) < 4:
                v.samples.append(s)
    compared = sum(lines.values())
    v.evaluations += compared
    v.distinct.update(distinct)
    v.lanes[LANE] = {
        "configurations_built": {n: {"profile": CONFIGS[n][0], "features": CONFIGS[n][1], "checked": CONFIGS[n][2],
                                     "float": CONFIGS[n][3], "build_s": build_secs[n]} for n in ORDER},
        "reference_configuration": REF,
        "programs_per_configuration": total,
        "trace_lines_read": trace_lines,
        "lines_compared_by_class": lines,
        "max_P_deviation_ulp_of_magnitude": {k: (round(d, 3) if d != float("inf") else "inf") for k, d in sorted(pdev.items())},
        "max_P_deviation_tag": {k: t for k, (d, t) in sorted(pdev_tag.items()) if d > 0},
        "P_tolerance_ulp": P_TOL_ULP,
        "ill_dimensioned_operations_executed": ill,
        "ill_dimensioned_by_configuration": ill_by_cfg,
        "distinct_tags": len({d.split("|")[0] for d in distinct}),
        "build_wall_s": round(t_build, 1), "run_compare_wall_s": round(t_run, 1),
    }
    if lines["U"] == 0 or lines["S"] == 0 or lines["P"] == 0:
        raise C.Inconclusive(f"cfgmatrix: coverage floor not met (lines by class {lines})")
