"""Shared driver machinery: building, sharded runs with watchdog, merging reports, known findings,
evidence writer, verdict printing.  Verdicts are three-valued (see DESIGN.md section 1):
exit 0 = held on everything explored, exit 1 = VIOLATION, exit 2 = INCONCLUSIVE."""
import json, os, subprocess, sys, time, hashlib, re, shutil
from concurrent.futures import ThreadPoolExecutor

ROOT = os.path.dirname(os.path.dirname(os.path.abspath(__file__)))
REPO = os.environ.get("VERIF_REPO", "/repo")
BUILD = os.path.join(ROOT, ".build")
HARNESS = os.path.join(ROOT, "harness")
NCPU = os.cpu_count() or 4


class Inconclusive(Exception):
    pass


def base_env():
    env = dict(os.environ)
    env["CARGO_NET_OFFLINE"] = "true"
    env.setdefault("CARGO_TERM_COLOR", "never")
    # never inherit a caller's flags: each lane sets exactly what it needs
    for k in ("RUSTFLAGS", "CARGO_ENCODED_RUSTFLAGS", "MIRIFLAGS", "CARGO_TARGET_DIR", "CARGO_BUILD_TARGET"):
        env.pop(k, None)
    return env


def run(cmd, cwd=None, env=None, timeout=None, capture=True):
    """Run a command; returns (rc, stdout, stderr, timed_out)."""
    try:
        p = subprocess.run(cmd, cwd=cwd, env=env, timeout=timeout,
                           stdout=subprocess.PIPE if capture else None,
                           stderr=subprocess.PIPE if capture else None, text=True, errors="replace")
        return p.returncode, p.stdout or "", p.stderr or "", False
    except subprocess.TimeoutExpired as e:
        out = e.stdout.decode(errors="replace") if isinstance(e.stdout, bytes) else (e.stdout or "")
        err = e.stderr.decode(errors="replace") if isinstance(e.stderr, bytes) else (e.stderr or "")
        return -999, out, err, True


def cargo_build(pkg_dir, target_dir, args, rustflags="", toolchain=None, extra_env=None, timeout=1800):
    env = base_env()
    env["CARGO_TARGET_DIR"] = target_dir
    if rustflags:
        env["RUSTFLAGS"] = rustflags
    if extra_env:
        env.update(extra_env)
    cmd = ["cargo"] + ([f"+{toolchain}"] if toolchain else []) + ["build", "--offline"] + args
    rc, out, err, to = run(cmd, cwd=pkg_dir, env=env, timeout=timeout)
    if to:
        raise Inconclusive(f"build watchdog fired: {' '.join(cmd)}")
    return rc, out, err


def build_monitor(binname, hooks=True, release_checked=False, release_unchecked=False):
    """Build one monitor binary of the harness against /repo's current working tree.
    release_checked: release profile (debug_assertions off) + rrtk/dim_check_release (checking still on).
    release_unchecked: release profile without dim_check_release: dimension checking compiled OUT (Unit is zero-sized)."""
    tdir = os.path.join(BUILD, ("harness" if hooks else "harness-nohooks") + ("-relchk" if release_checked else "-unchk" if release_unchecked else ""))
    flags = "--cfg rrtk_verif" if hooks else ""
    args = ["--bin", binname] + (["--release", "--features", "dim_release"] if release_checked else ["--release"] if release_unchecked else [])
    release_checked = release_checked or release_unchecked
    rc, out, err = cargo_build(HARNESS, tdir, args, rustflags=flags)
    if rc != 0:
        raise Inconclusive("monitor %s does not build against the current tree:\n%s" % (binname, err[-3000:]))
    return os.path.join(tdir, "release" if release_checked else "debug", binname)


def run_shards(binpath, prop, tier, seed, nshards, extra=(), timeout=None, tag="native"):
    """Run the monitor as nshards processes; returns list of parsed reports.
    Budgets are operation counts inside the monitor; the watchdog here is only a safety net and its
    firing is INCONCLUSIVE."""
    outdir = os.path.join(BUILD, "out", prop, tier, tag)
    shutil.rmtree(outdir, ignore_errors=True)
    os.makedirs(outdir, exist_ok=True)
    timeout = timeout or (900 if tier == "quick" else 7200)

    def one(i):
        outp = os.path.join(outdir, f"shard-{i}.json")
        cmd = [binpath, "--seed", str(seed), "--tier", tier, "--shard", str(i), "--nshards", str(nshards), "--out", outp]
        scale = os.environ.get("VERIF_SCALE")
        if scale:
            cmd += ["--scale", scale]
        cmd += list(extra)
        rc, out, err, to = run(cmd, env=base_env(), timeout=timeout)
        return i, rc, out, err, to, outp

    with ThreadPoolExecutor(max_workers=min(nshards, NCPU)) as ex:
        results = list(ex.map(one, range(nshards)))
    reports = []
    for i, rc, out, err, to, outp in results:
        if to:
            raise Inconclusive(f"watchdog fired on shard {i} of {prop}")
        if rc != 0 or not os.path.exists(outp):
            raise MonitorCrash(prop, i, rc, (err or out)[-2000:])
        with open(outp) as fh:
            reports.append(json.load(fh))
    return reports


class MonitorCrash(Exception):
    def __init__(self, prop, shard, rc, tail):
        super().__init__(f"monitor process for {prop} shard {shard} exited rc={rc}: {tail}")
        self.prop, self.shard, self.rc, self.tail = prop, shard, rc, tail


def merge_reports(reports):
    m = {"evaluations": 0, "distinct": set(), "tallies": {}, "maxima": {}, "samples": {}, "floors": {},
         "exhaustive": [], "violation_count": 0, "sig_counts": {}, "violations": []}
    for r in reports:
        m["evaluations"] += r.get("evaluations", 0)
        m["distinct"].update(r.get("distinct_hashes", []))
        for k, v in r.get("tallies", {}).items():
            m["tallies"][k] = m["tallies"].get(k, 0) + v
        for k, v in r.get("maxima", {}).items():
            try:
                v = float(v)
            except (TypeError, ValueError):
                v = float("inf")
            m["maxima"][k] = max(m["maxima"].get(k, v), v)
        for k, v in r.get("samples", {}).items():
            lst = m["samples"].setdefault(k, [])
            for s in v:
                if len(lst) < 2:
                    lst.append(s)
        for k, v in r.get("floors", {}).items():
            m["floors"][k] = max(m["floors"].get(k, 0), v)
        for e in r.get("exhaustive", []):
            if e not in m["exhaustive"]:
                m["exhaustive"].append(e)
        m["violation_count"] += r.get("violation_count", 0)
        for k, v in r.get("sig_counts", {}).items():
            m["sig_counts"][k] = m["sig_counts"].get(k, 0) + v
        m["violations"].extend(r.get("violations", []))
    return m


def load_known():
    p = os.path.join(ROOT, "known_findings.json")
    if not os.path.exists(p):
        return {"findings": [], "fixed": []}
    with open(p) as fh:
        return json.load(fh)


class Verdict:
    """Collects the outcome of all lanes of one check and produces evidence + exit code."""

    def __init__(self, prop, tier, seed, level, rule, assumptions, technique):
        self.prop, self.tier, self.seed = prop, tier, seed
        self.level, self.rule, self.assumptions, self.technique = level, rule, list(assumptions), technique
        self.t0 = time.time()
        self.evaluations = 0
        self.distinct = set()
        self.distinct_extra = 0
        self.coverage = {}
        self.samples = []
        self.violations = []   # dicts: sig, detail, sub, case, lane
        self.sig_counts = {}
        self.inconclusive = []
        self.exhaustive = []
        self.floor_failures = []
        self.lanes = {}

    def add_native(self, merged, lane="native"):
        self.evaluations += merged["evaluations"]
        self.distinct.update(lane + ":" + h for h in merged["distinct"])
        lane_cov = {"evaluations": merged["evaluations"], "distinct": len(merged["distinct"]),
                    "tallies": merged["tallies"], "maxima": merged["maxima"]}
        self.lanes[lane] = lane_cov
        for k, lst in merged["samples"].items():
            for s in lst:
                self.samples.append({"lane": lane, "sub": k, "case": s})
        for e in merged["exhaustive"]:
            self.exhaustive.append(e)
        for k, need in merged["floors"].items():
            have = merged["tallies"].get(k, 0)
            if have < need:
                self.floor_failures.append(f"{lane}:{k} observed {have} < floor {need}")
        for k, v in merged["sig_counts"].items():
            self.sig_counts[k] = self.sig_counts.get(k, 0) + v
        for v in merged["violations"]:
            v = dict(v)
            v["lane"] = lane
            self.violations.append(v)

    def add_violation(self, sig, detail, lane, sub="", case=0):
        self.sig_counts[sig] = self.sig_counts.get(sig, 0) + 1
        self.violations.append({"sig": sig, "detail": detail, "lane": lane, "sub": sub, "case": case})

    def finish(self):
        known = load_known()
        listed = {(k["property"], k["signature"]): k for k in known.get("findings", [])}
        wall = time.time() - self.t0
        new_sigs, known_hits = {}, {}
        for sig, n in sorted(self.sig_counts.items()):
            if (self.prop, sig) in listed:
                known_hits[sig] = n
            else:
                new_sigs[sig] = n
        # ---- replay files for new violations
        replays = {}
        if new_sigs:
            os.makedirs(os.path.join(ROOT, "replays"), exist_ok=True)
            n = 0
            for sig in new_sigs:
                ex = next((v for v in self.violations if v["sig"] == sig), None)
                path = os.path.join(ROOT, "replays", f"{self.prop}-{self.tier}-{self.seed}-{n}.json")
                with open(path, "w") as fh:
                    json.dump({"property": self.prop, "signature": sig, "tier": self.tier, "seed": self.seed,
                               "occurrences": new_sigs[sig], "example": ex,
                               "replay_cmd": f"./check {self.prop} --replay {path}"}, fh, indent=1)
                replays[sig] = path
                n += 1
                if n >= 12:
                    break
        distinct_n = len(self.distinct) + self.distinct_extra
        cov = {
            "evaluations": int(self.evaluations),
            "distinct_nontrivial": int(distinct_n),
            "rule": self.rule,
            "samples": self.samples[:12] if self.samples else [],
            "exhaustive": bool(self.exhaustive),
            "exhaustive_parts": self.exhaustive,
            "lanes": self.lanes,
            "technique": self.technique,
            "known_findings_observed": known_hits,
            "new_violation_signatures": new_sigs,
            "inconclusive_reasons": self.inconclusive + self.floor_failures,
        }
        cov.update(self.coverage)
        ev = {
            "property_id": self.prop, "tier": self.tier, "seed": int(self.seed), "level": self.level,
            "coverage": cov, "assumptions": self.assumptions, "wall_s": round(wall, 2),
            "violations": int(sum(new_sigs.values())),
        }
        os.makedirs(os.path.join(ROOT, "evidence"), exist_ok=True)
        with open(os.path.join(ROOT, "evidence", f"{self.prop}.json"), "w") as fh:
            json.dump(ev, fh, indent=1, default=str)
        for sig, n in known_hits.items():
            print(f"KNOWN-FINDING: property={self.prop} {sig} :: {listed[(self.prop, sig)].get('what','')} (observed {n}x)")
        if new_sigs:
            for sig, path in replays.items():
                print(f"VIOLATION property={self.prop} replay={path}")
                ex = next((v for v in self.violations if v["sig"] == sig), None)
                print(f"  signature={sig} occurrences={new_sigs[sig]}")
                if ex:
                    print("  example: " + str(ex.get("detail", ""))[:600])
            sys.stdout.flush()
            return 1
        reasons = self.inconclusive + self.floor_failures
        if reasons or self.evaluations < 1 or distinct_n < 2:
            if not reasons:
                reasons = ["observed nothing"]
            print(f"INCONCLUSIVE property={self.prop} reason={' | '.join(reasons)[:1500]}")
            return 2
        print(f"OK property={self.prop} tier={self.tier} seed={self.seed} evaluations={self.evaluations} "
              f"distinct_nontrivial={distinct_n} known_findings={len(known_hits)} wall_s={wall:.1f}")
        return 0


def inconclusive_exit(prop, tier, seed, level, reason):
    """Could not run at all (e.g. monitor does not build): write a minimal evidence file, exit 2."""
    os.makedirs(os.path.join(ROOT, "evidence"), exist_ok=True)
    ev = {"property_id": prop, "tier": tier, "seed": int(seed), "level": level,
          "coverage": {"evaluations": 0, "distinct_nontrivial": 0, "rule": "nothing ran", "samples": [],
                       "inconclusive_reasons": [reason[:3000]]},
          "wall_s": 0.0, "violations": 0}
    with open(os.path.join(ROOT, "evidence", f"{prop}.json"), "w") as fh:
        json.dump(ev, fh, indent=1)
    print(f"INCONCLUSIVE property={prop} reason={reason[:1500]}")
    return 2
