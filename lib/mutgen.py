#!/usr/bin/env python3
"""lib/mutgen.py <repo> <n> <seed> -- enumerate small syntactic mutants of <repo>/src/**/*.rs (operator swaps, negated
conditions, changed constants, deleted statements, min<->max), skipping comments, doc comments, test modules and the
`#[cfg(rrtk_verif)]` hook blocks, and print a random sample of n of them as JSON lines {file, line, old, new, op}.
Used only by lib/mutsweep.py (mutation testing of the monitors themselves)."""
import json, os, random, re, sys
repo, n, seed = sys.argv[1], int(sys.argv[2]), int(sys.argv[3])
SWAPS = [(" + ", " - "), (" - ", " + "), (" * ", " / "), (" / ", " * "), (" < ", " <= "), (" <= ", " < "), (" > ", " >= "), (" >= ", " > "),
         (" == ", " != "), (" != ", " == "), (" && ", " || "), (" || ", " && "), (" += ", " -= "), (" -= ", " += "), (" *= ", " /= "), (" /= ", " *= "),
         (".max(", ".min("), (".min(", ".max("), ("2.0", "3.0"), ("0.0", "1.0"), ("1.0", "0.0"), ("1_000_000_000", "1_000_000"), (" >= ", " < "), (" > ", " < ")]
out = []
for root, _, files in os.walk(os.path.join(repo, "src")):
    for f in sorted(files):
        if not f.endswith(".rs"):
            continue
        path = os.path.join(root, f)
        rel = os.path.relpath(path, repo)
        lines = open(path).read().split("\n")
        skip_until_brace_depth = None
        in_hook = 0
        in_tests = False
        for i, line in enumerate(lines):
            st = line.strip()
            if st.startswith("#[cfg(test)]"):
                in_tests = True  # unit-test modules sit at the end of the file
            if in_tests:
                continue
            if "#[cfg(rrtk_verif)]" in line:
                in_hook = 3  # the hook statement spans at most the next few lines
                continue
            if in_hook:
                in_hook -= 1
                continue
            if st.startswith("//") or st.startswith("#[") or st.startswith("#![") or st.startswith("use ") or st.startswith("pub use") or not st:
                continue
            if "macro_rules!" in line or st.startswith("///"):
                continue
            code = line.split("//")[0]
            if '"' in code:  # leave string literals (messages) alone
                continue
            for a, b in SWAPS:
                pat = re.escape(a) if not a[0].isdigit() else r"(?<![\d._])" + re.escape(a) + r"(?![\d_])"
                for m in re.finditer(pat, code):
                    # generics / lifetimes / references: only mutate inside function bodies (indented code)
                    if not line.startswith("    "):
                        continue
                    if a in (" < ", " > ", " >= ", " <= ") and ("impl" in code or "fn " in code or "where" in code or "->" in code and a == " > "):
                        continue
                    if a in (" + ", " * ", " - ") and ("impl" in code or "fn " in code or "where" in code or "dyn " in code or ": " in code and "<" in code and "let" not in code):
                        continue
                    new = code[:m.start()] + b + code[m.end():]
                    out.append({"file": rel, "line": i + 1, "old": line, "new": new + line[len(code):], "op": f"{a.strip()}->{b.strip()}"})
            m = re.match(r"^(\s*)(?:\} else )?if (.+) \{\s*$", code)
            if m and "let " not in m.group(2):
                cond = m.group(2)
                out.append({"file": rel, "line": i + 1, "old": line, "new": code.replace(f"if {cond} {{", f"if !({cond}) {{"), "op": "negate-if"})
            # delete a plain statement (assignment / method call), never a let binding or a return
            if re.match(r"^\s{8,}[a-z_][A-Za-z0-9_\.\[\]\(\)\*&]* (=|\+=|-=|\*=|/=) [^=].*;\s*$", code) or re.match(r"^\s{8,}self\.[a-z_]+\([^;]*\);\s*$", code) or re.match(r"^\s{8,}self\.[a-z_\.]+\(\)\??;\s*$", code):
                out.append({"file": rel, "line": i + 1, "old": line, "new": "", "op": "delete-statement"})
            if os.environ.get("MUTGEN_OPS2"):
                # second operator set: similar-name swaps, argument swaps, off-by-one, integer constants, deleted set/update calls
                for x, y in (("datum1", "datum2"), ("datum2", "datum1"), ("term1", "term2"), ("term2", "term1"), ("side1", "side2"), ("side2", "side1"), ("state1", "state2"), ("state2", "state1"),
                             ("self.", "rhs."), ("rhs.", "self."), ("self.", "other."), ("other.", "self."), ("t1", "t2"), ("t2", "t3"), ("t3", "t2"), ("t2", "t1"), ("position", "velocity"), ("velocity", "acceleration"), ("acceleration", "velocity"), ("velocity", "position"),
                             ("kp", "ki"), ("ki", "kd"), ("kd", "kp"), ("prev_", ""), ("old_", "new_"), ("new_", "old_"), ("start_state", "end_state"), ("end_state", "start_state"), ("millimeter_exp", "second_exp"), ("second_exp", "millimeter_exp")):
                    if not line.startswith("        "):
                        continue
                    for mm in re.finditer(r"(?<![A-Za-z0-9_])" + re.escape(x), code):
                        if x in ("self.", "rhs.", "other.") and y.rstrip(".") not in code:
                            continue  # the other operand must exist in this line
                        if "fn " in code or "let " in code and code.index("let ") < mm.start() < code.index("=") if ("let " in code and "=" in code) else False:
                            continue
                        new = code[:mm.start()] + y + code[mm.end():]
                        if new != code:
                            out.append({"file": rel, "line": i + 1, "old": line, "new": new + line[len(code):], "op": f"swap-name {x}->{y}"})
                mm = re.search(r"\b([a-z_][a-z_0-9:]*)\(([a-z_][a-z_0-9\.]*), ([a-z_][a-z_0-9\.]*)\)", code)
                if mm and line.startswith("        ") and mm.group(2) != mm.group(3) and "fn " not in code:
                    out.append({"file": rel, "line": i + 1, "old": line, "new": code[:mm.start()] + f"{mm.group(1)}({mm.group(3)}, {mm.group(2)})" + code[mm.end():], "op": "swap-args"})
                for pat, repl, name in ((r" - 1\b", "", "drop -1"), (r" \+ 1\b", "", "drop +1"), (r"(?<![\w.])0\.\.", "1..", "range from 1"), (r"\b0 =>", "1 =>", "arm 0->1"), (r"\[0\]", "[1]", "index 0->1"), (r"\[1\]", "[0]", "index 1->0"), (r"(?<![\w.])1\b(?!\.)(?!_)", "2", "int 1->2"), (r"(?<![\w.])2\b(?!\.)(?!_)", "3", "int 2->3")):
                    for mm in re.finditer(pat, code):
                        if not line.startswith("        ") or "fn " in code or "impl" in code:
                            continue
                        out.append({"file": rel, "line": i + 1, "old": line, "new": code[:mm.start()] + repl + code[mm.end():], "op": name})
                if re.match(r"^\s{8,}[a-z_][A-Za-z0-9_\.\[\]]*\.borrow_mut\(\)\.[a-z_]+\(.*\)\??;\s*$", code) or re.match(r"^\s{8,}[a-z_][A-Za-z0-9_\.]*\.(set|update|push_back|clear|reset)\(.*\)\??;\s*$", code):
                    out.append({"file": rel, "line": i + 1, "old": line, "new": "", "op": "delete-call"})
                if re.match(r"^\s{8,}return .*;\s*$", code) and "Err" not in code:
                    pass
                continue
            m = re.search(r"([=(,] ?)-([a-z_(])", code)
            if m and line.startswith("    ") and "->" not in code:
                out.append({"file": rel, "line": i + 1, "old": line, "new": code[:m.start()] + m.group(1) + m.group(2) + code[m.end():], "op": "drop-unary-minus"})
random.Random(seed).shuffle(out)
seen = set()
k = 0
for m in out:
    key = (m["file"], m["line"], m["new"])
    if key in seen:
        continue
    seen.add(key)
    print(json.dumps(m))
    k += 1
    if k >= n:
        break
sys.stderr.write(f"{len(out)} candidate mutants, {k} sampled\n")
