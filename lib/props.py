"""Registry: one entry per property — which lanes decide it, and the words that go into evidence."""
import json, os, sys
import common as C
import gen_constants
import lane_c16
import lane_c17
import lane_c19

QUICK_SHARDS = 8
THOROUGH_SHARDS = 16


def native(prop, spec, tier, seed, v, binname=None, hooks=True, lane="native", extra=(), release_checked=False, release_unchecked=False):
    binname = binname or prop.lower()
    if prop == "C01":
        n, unparsed = gen_constants.generate()
    binpath = C.build_monitor(binname, hooks=hooks, release_checked=release_checked, release_unchecked=release_unchecked)
    nsh = QUICK_SHARDS if tier == "quick" else THOROUGH_SHARDS
    extra = list(extra)
    if tier == "thorough" and spec.get("thorough_scale") and not os.environ.get("VERIF_SCALE"):
        extra += ["--scale", str(spec["thorough_scale"])]
    if tier == "quick" and spec.get("quick_scale"):
        extra += ["--qscale", str(spec["quick_scale"])]
    reports = C.run_shards(binpath, prop, tier, seed, nsh, extra=extra, tag=lane)
    v.add_native(C.merge_reports(reports), lane=lane)


def native_both_profiles(prop, spec, tier, seed, v):
    """debug build (debug_assertions on, dim_check_debug) and release build with dim_check_release: dimension
    checking is 'enabled' in both, so the property must hold in both (a check turned into debug_assert! or a
    debug-only branch shows in exactly one of them)."""
    native(prop, spec, tier, seed, v, lane="native")
    if os.environ.get("VERIF_LANES") == "debug":
        return  # experiments only (lib/mutsweep.py first pass); never set by a registered command
    native(prop, spec, tier, seed + 1000003, v, lane="release-checked", release_checked=True)


def native_three_profiles(prop, spec, tier, seed, v):
    """as native_both_profiles plus a release build with dimension checking compiled OUT; only for monitors that detect at
    run time whether checking is compiled in (util::dim_checked) and skip the clauses that need it. Used by every native
    monitor except C01: the statements do not restrict the build, and a slip between the *_assume_ok / *_assume_not_ok
    helper pairs is invisible in every checked build (round 6)."""
    native_both_profiles(prop, spec, tier, seed, v)
    if os.environ.get("VERIF_LANES") == "debug":
        return
    native(prop, spec, tier, seed + 2000003, v, lane="release-unchecked", release_unchecked=True)


def on_crash(prop, spec, tier, seed, e):
    """A monitor process died instead of reporting. Every monitor catches panics per case, so
    * exit code 101 (a Rust panic that escaped the per-case capture: the code under test panicked in a
      place where the unchanged tree never does, or an oracle's own invariant about the API broke) is a
      violation for every property, signature `<ID>/panic-outside-case`;
    * death by signal / abort is a violation only for the memory-safety properties (C16, C17) and
      INCONCLUSIVE for the others."""
    if e.rc == 3 and "NO-PROGRESS" in (e.tail or ""):
        # the monitor's own heartbeat watchdog: no evaluation finished for 300 s = one call of the code under test does not
        # return (five to six orders of magnitude beyond what a call takes; not a wall-clock budget for the run)
        v = C.Verdict(prop, tier, seed, spec["level"], spec["rule"], spec["assumptions"], spec["technique"])
        v.evaluations, v.distinct_extra = 1, 2
        v.add_violation(f"{prop}/call-does-not-return", str(e), "native")
        return v.finish()
    if e.rc == 101 or spec.get("crash_is_violation"):
        v = C.Verdict(prop, tier, seed, spec["level"], spec["rule"], spec["assumptions"], spec["technique"])
        v.evaluations, v.distinct_extra = 1, 2
        sig = f"{prop}/panic-outside-case" if e.rc == 101 else f"{prop}/crash/rc={e.rc}"
        v.add_violation(sig, str(e), "native")
        return v.finish()
    return C.inconclusive_exit(prop, tier, seed, spec["level"], str(e))


def replay(prop, spec, path):
    with open(path) as fh:
        r = json.load(fh)
    ex = r.get("example") or {}
    print(json.dumps(r, indent=1))
    lane = ex.get("lane", "native")
    if lane not in ("native", "poison", "release-checked", "release-unchecked", "poison-release"):
        print(f"(lane {lane}: re-run ./check {prop} --tier {r.get('tier','quick')} with VERIF_SEED={r.get('seed',1)} to reproduce)")
        return 0
    if prop == "C01":
        gen_constants.generate()
    try:
        binpath = C.build_monitor(spec.get("bin", prop.lower()), release_checked=(lane in ("release-checked", "poison-release")), release_unchecked=(lane == "release-unchecked"))
    except C.Inconclusive as e:
        print(e)
        return 2
    mseed = r["seed"] + (1000003 if lane in ("release-checked", "poison-release") else 2000003 if lane == "release-unchecked" else 0)  # the second lane runs at a shifted seed
    cmd = [binpath, "--seed", str(mseed), "--tier", r["tier"], "--only", f"{ex.get('sub','')}:{ex.get('case',0)}"]
    rc, out, err, to = C.run(cmd, env=C.base_env(), timeout=600)
    sys.stdout.write(err)
    try:
        rep = json.loads(out)
        print("replayed: violation_count =", rep.get("violation_count"), "signatures =", rep.get("sig_counts"))
        return 1 if rep.get("violation_count", 0) else 0
    except Exception:
        sys.stdout.write(out)
        return 2


def setup():
    """MANIFEST.setup_cmd: build every monitor once so that later checks only rebuild what changed.
    Only the harness build decides the exit code; the other pre-builds (Miri, probes, cfgmatrix,
    downstream) are warm-ups that every check repeats on demand anyway."""
    gen_constants.generate()
    tdir = os.path.join(C.BUILD, "harness")
    rc, out, err = C.cargo_build(C.HARNESS, tdir, ["--bins"], rustflags="--cfg rrtk_verif")
    sys.stdout.write(err[-2000:])
    if rc != 0:
        return 1
    # second lane of every native monitor: optimized, debug_assertions off, dimension checking kept on
    rc, out, err = C.cargo_build(C.HARNESS, os.path.join(C.BUILD, "harness-relchk"), ["--bins", "--release", "--features", "dim_release"], rustflags="--cfg rrtk_verif")
    sys.stdout.write(err[-2000:])
    if rc != 0:
        return 1
    try:
        C.build_monitor("c17_conc", hooks=False)
        # third lane (dimension checking compiled out) of every native monitor but C01, whose property is stated
        # "with dimension checking enabled" (and whose monitor uses checked-only API)
        unchk = [a for p in PROPS for a in ["--bin", p.lower()] if PROPS[p].get("run") is native_three_profiles]
        C.cargo_build(C.HARNESS, os.path.join(C.BUILD, "harness-unchk"), unchk + ["--release"], rustflags="--cfg rrtk_verif")
        mt = os.path.join(C.BUILD, "miri")
        lane_c16.miri(C.HARNESS, mt, "c16_miri", ["terminal", "2"])
        lane_c16.miri(C.HARNESS, mt, "c17_conc", ["2", "2"])
        lane_c16.miri(C.HARNESS, mt, "c17", ["--miri", "--only", "none:0"])
        env = C.base_env()
        env["CARGO_TARGET_DIR"] = os.path.join(C.BUILD, "probes")
        C.run(["cargo", "build", "--offline", "--bins", "--keep-going"], cwd=lane_c16.PROBES, env=env, timeout=1200)
        lane_c16.miri(lane_c16.PROBES, os.path.join(C.BUILD, "probes-miri"), "control_ok_rc_reference")
        for cname, feats in lane_c17.CONFIGS:
            env = C.base_env()
            env["CARGO_TARGET_DIR"] = os.path.join(C.BUILD, "downstream")
            C.run(["cargo", "build", "--offline", "--features", feats], cwd=lane_c17.DOWN, env=env, timeout=600)
        lane_c19.build_all()
    except Exception as e:  # warm-up only
        print("setup warm-up skipped:", e)
    return 0


EXPL = "exploration"
PROPS = {
    "C01": dict(
        quick_scale=10, thorough_scale=20, run=native_both_profiles, level=EXPL, technique="runtime oracle on exhaustive 49x49 unit grid + seeded random operands (reference = integer exponent model and raw f32 operator)",
        rule="enumerate every ordered pair of the 49 grid units x every Unit/Quantity operator form (and every mixed Time/DimensionlessInteger cell x 49 units) with fresh random finite values, plus random exponents up to |60|; a case is distinct by (sub-check, lhs exponents, rhs exponents) / constant name / conversion unit",
        assumptions=["harness built in debug profile so dimension checking is compiled in (asserted at run time via size_of::<Unit>() != 0)",
                     "a panic is observed as an unwind through catch_unwind",
                     "expected exponents of named constants are parsed from the constant's NAME by lib/gen_constants.py"],
    ),
    "C05": dict(
        quick_scale=2, thorough_scale=6, run=native_three_profiles, level=EXPL, technique="metamorphic runtime monitor over scripted fault histories (error provenance, reset==fresh-instance, None-deletion, get-purity; bit-exact between runs of the real code)",
        rule="per stream type (14 incl. f32/Quantity variants) seeded histories of length <=48 over {present, absent, Err(1), Err(2)} from four grammar styles (iid, runs separated by resets, noise, reset followed by >=3 present), CommandPID also set(same/other value/other kind), freeze also condition {true,false,absent}; distinct = (stream, set of adjacent event-kind pairs, length class)",
        assumptions=["long-silence histories (1-3 samples, 32-44 absent events in a row, samples again, all inside the window) are part of the grammar",
                     "reset table per stream taken from the property anchors (PID/Integral/Derivative: None+Err; CommandPID: None+Err+set(different); EWMA/MovingAverage/to-state: Err, None ignored; Float/Quantity converters: every update)",
                     "freeze is not driven with an erroring condition getter (statement silent); after cond=absent then cond=true both absent and the last passed value are accepted",
                     "timestamps strictly increasing for PID/CommandPID/integral/derivative/to-state, non-decreasing for the filters"],
    ),
    "C04": dict(
        quick_scale=10, thorough_scale=15, run=native_three_profiles, level=EXPL, technique="runtime reference-model monitor (f64 textbook PID with forward error bound) + bit-exact metamorphic relations + differential against the controller assembled from the crate's own streams",
        rule="seeded histories of length <=64 from the grammar run((absent|error)+ run)* with run lengths 1,2,3,4-9,10-39, intervals log-uniform 1us..10h (every third history constant-interval), gains/setpoint/samples stratified in +-1e4 incl. zeros; distinct = (set of run-length classes, set of interval decades, absent count class, error count class)",
        assumptions=["strictly increasing timestamps by construction (dt=0 is outside the quantifier)",
                     "forward bound (40+4n)*2^-24*(|kp e| + |ki| sum|addend| + |kd|(|e|+|e_prev|)/dt), n = samples in the run; largest observed ratio is reported as reference_err_over_bound",
                     "the assembled controller updates every node at every step (examples/pid.rs stops at the first erroring node, which would leave the derivative stream unreset)"],
    ),
    "C10": dict(
        quick_scale=10, thorough_scale=25, run=native_three_profiles, level=EXPL, technique="runtime reference-model monitor (f64 trapezoid sums / difference quotients with propagated forward error bound), unit probing, panic capture, bit-exact shift metamorphic relation",
        rule="per stream (integral, derivative, three to-state converters) seeded histories of <=64 events with strictly increasing stamps (intervals 1us..2h, a quarter constant-interval), four non-linear signal shapes (random walk, sinusoid, steps, white), interleaved absent/error events; integral/derivative input unit drawn from the 7x7 grid; distinct = (stream, input unit, position of the sample in its run) ; plus exhaustive 3 converters x 49 units x offending-sample position for the panic clause",
        assumptions=["double quantities follow the staging the code documents (second integral / difference starts at the first sample where the first one exists)",
                     "forward bound (48+8n)*2^-24*(propagated sum of |terms|), n = samples in the run; largest observed ratio reported per stream/component",
                     "dimension checking compiled in (debug build) for the panic clause"],
    ),
    "C12": dict(
        quick_scale=4, thorough_scale=30, run=native_three_profiles, level=EXPL, technique="runtime reference-model monitor (exact i64 window weights + f64 weighted average; one-step EWMA law with the crate's own powf), panic capture, bit-exact f32-vs-Quantity differential",
        rule="seeded histories of <=64 events (present with non-decreasing, 15% repeated, stamps; absent; two errors), steps 1ns..1h, windows 1ns..10h incl. windows shorter than a step and longer than the history, smoothing in {0,1,2^-k,U(0,1)}, every 7th history constant-valued; all four filter variants driven by the same history; distinct = (set of window occupancies seen, window decade, smoothing quartile, has-error, has-absent)",
        assumptions=["non-decreasing timestamps and positive windows only (negative dt / non-positive windows are outside the quantifier)",
                     "EWMA checked one step at a time against prev*(1-L)+new*L with prev = the stream's own previous output and L = 1 - powf(1-s, dt) using the crate's powf obtained through ExponentStream; bound 24*2^-24*(|prev|+|new|)",
                     "moving average bound (48+8n)*2^-24*sum(w_i|x_i|)/W, n = samples in the window; first sample within 4 ulp (x*W/W is two roundings)"],
    ),
    "C11": dict(
        quick_scale=20, thorough_scale=50, run=native_three_profiles, level=EXPL, technique="runtime reference-model monitor (f64 staged PID / integral / double-integral state machine with propagated forward bound) + bit-exact twin instance for set(same)",
        rule="seeded histories of <=48 steps; each step optionally issues set(command) {same, same kind other value, other kind} or changes the followed command getter {command, absent, error} (every third history follows a getter), then feeds a state sample / absent / error and updates; distinct gains per kind; distinct = (command kind, sample index since restart, following?, set of restart causes seen so far)",
        assumptions=["staging mirrored from the documentation: I and D of the error start at the 2nd sample of a run, integral of u from the 2nd, double integral from the 3rd",
                     "forward bound (64+12n)*2^-24*(propagated sum of |terms|); largest observed ratio per kind reported",
                     "an error from the followed command getter: only 'update returns it and the output is unchanged' is checked (statement silent)",
                     "the error-reported clause is checked on the get() immediately after the erroring update only"],
    ),
    "C06": dict(
        quick_scale=20, thorough_scale=25, run=native_three_profiles, level=EXPL, technique="runtime consistency monitor across the six accessors of the same object (presence/mode table, bit-identity of history vs accessor), boundaries recovered by bisection of get_piece, monotonicity of pieces monitored on sorted query times",
        rule="seeded profiles (positions +-1e4, limits log-uniform 1e-2..1e3, start/end speeds inside and outside the limit, zero/non-zero end velocity and acceleration => all three end-command kinds, forward and reversed moves, geometry comfortably feasible / around the feasibility edge / arbitrary; a constructor panic is an allowed outcome) x query times {i64 extremes, -1,0,1, each recovered boundary +-2 ns, 48 (quick) / 256 (thorough) random times in [0,2*t3]}; distinct = (direction, end-command kind, set of non-empty phases, decade of t3, signs of start/end velocity)",
        assumptions=["boundaries t1..t3 are private: they are recovered from get_piece by bisection on [0,2^62] and the direct reads are cross-checked against them",
                     "velocity/position presence before t=0 is not constrained (statement only constrains mode, acceleration, history there)"],
    ),
    "C07": dict(
        quick_scale=4, thorough_scale=20, run=native_three_profiles, level=EXPL, technique="runtime reference-model monitor (f64 trapezoid from the inputs and the recovered boundaries, forward error bound), Simpson integral relation between accessors, bit-exact mirror metamorphic relation, acceptance oracle for comfortably feasible moves",
        rule="same seeded profile generator as C06 (60% comfortably feasible by construction: speeds = max_vel*u with |u|<=1 and displacement >= 1.05*(accel+decel distance)+1e-3), each accepted profile queried at boundary +-2 ns times plus 96 (quick) / 512 (thorough) random times inside the move; distinct = (direction, set of non-empty phases, decade of t3, sign of start velocity, end velocity non-zero, comfortable)",
        assumptions=["reference built from the recovered ns boundaries so their truncation is not charged as error; forward bound 48*2^-24*sum|terms| with the term magnitudes of the closed forms (|p0|,|v0 t|,|a t1 t|,|a t^2| ...); largest observed ratios reported",
                     "mirror relation negates whole states (position, velocity and acceleration) and is checked only for non-zero displacement (sign tie-break at dp=0 is legitimate)",
                     "arrival is decided on the reference trajectory evaluated at the recovered t3 against the end state"],
    ),
    "C02": dict(
        run=native_three_profiles, level=EXPL, technique="exhaustive shape enumeration with random payloads; bit-exact doc-derived oracle per combinator; cross-checks Sum2 vs SumStream<2>, Product2 vs ProductStream<2>, De Morgan both directions, purity over three reads; panic capture",
        rule="for each of the 16 combinators every shape is enumerated completely: outcome code of every input (Err(1), Err(2), None, Some; booleans Some(false)/Some(true)) x every weak ordering < = > of the present inputs' timestamps, arities 1..=5 of SumStream/ProductStream/Latest, payloads f32 and Quantity; Expirer adds clock state x age-vs-limit < = > x 4 limit strata, NoneToValue clock state x clock-vs-input order; each shape gets random finite values per (seed, sub, case) and get() is called three times; distinct = (combinator, payload, outcome vector, timestamp-order class)",
        assumptions=["expiry limits are drawn from a pool with 0, 1, negative, i64::MAX, MAX-1, MIN, MIN+1 (clock placed so that the crate's own now - t cannot overflow); NoneToValue / ConstantGetter parameters include special values; one object may serve as data input AND clock through all six Reference backings",
                     "update() on a stateless combinator is a no-op returning Ok(()): reads after [set A; update(); set B] equal a fresh instance given B (bit-exact); input polls per update() are recorded, not judged",
                     "aliased inputs: the same source object on two or all input slots through Rc<RefCell>, raw pointer, Arc<Mutex>, Arc<RwLock>, *Mutex, *RwLock gives the documented outcome for equal operands; each case runs on a helper thread and a single uncontended read that has not returned after 20 s is a violation (logical non-return, e.g. self-deadlock), as is a panic",
                     "errors dominate everywhere except Latest, earliest input first; the time getter counts as the last input",
                     "both readings accepted where the docs are silent: Expirer(None input, clock Err) may be None or that error; NoneToValue(Some input, clock Err) may be the input or that error; Latest ties accept any maximal-stamp input",
                     "ExponentStream value compared bit-exact against a second ExponentStream on constant getters (same powf) plus a loose f64 cross-check",
                     "Expirer times kept below 2^61 (the crate subtracts them); i64 extremes only where stamps are merely compared"],
    ),
    "C03": dict(
        thorough_scale=6, run=native_three_profiles, level=EXPL, technique="exhaustive enumeration over anchor timestamp pairs x operator form x payload plus stratified random; integer max/argmax oracle; bit-identity for selections; before/after terminal snapshots for devices; panic capture",
        rule="every Datum operator impl in src/datum.rs over all 15x15 ordered pairs of anchor stamps {i64::MIN, MIN+1, -2^62-1, -2^62, -1e9-7, -2,-1,0,1,2, 1e9+7, 2^62, 2^62+1, MAX-1, MAX} and random stratified pairs, 5 payload types; latest() and the three replace helpers on the same pairs x slot {empty,full} x candidate {Some,None}; Latest arity 1-5 and SumStream/ProductStream arity 1-4 over every assignment of {absent, rank 1..n}; all two-input streams x 4 presence masks; terminals 16 own/partner presences x connected/unconnected x 11x11 moderate stamp pairs; one update() of each of 12 devices with distinct stamps on every slot; distinct = (site/operator form, payload, stratum of each stamp, order class)",
        assumptions=["topology sub-checks keep a set-of-pairs model (connect(x,y) first severs the previous links of x and y); contributor / candidate sets of every terminal read come from that model; a terminal linked to nothing returns exactly its own last request",
                     "the crate only compares timestamps on these paths; terminal/device stamps stay within |t| <= 2^40+3",
                     "ties accept either candidate; candidates have pairwise distinct payload bits (except bool)",
                     "command propagation through devices is judged only on own command slots that changed during update(); untouched terminals are not constrained",
                     "Getter<TerminalData> (combined read) is stamped with the state's time by design (C09 statement), so it is only required to carry one of the part stamps here"],
    ),
    "C09": dict(
        quick_scale=4, thorough_scale=4, run=native_three_profiles, level="fault_enumeration", technique="model-based runtime monitor: partner relation rebuilt from terminal reads alone (twice: from state reads of power-of-two labels and from command reads) and compared with a set-of-pairs model; exhaustive BFS over reachable matchings x operations under panic capture; f64 reference for the read semantics",
        level_text="Every reachable link state of 2..6 terminals x every connect/disconnect operation is enumerated (breadth-first) and executed on fresh terminals under panic capture, so the operation-sequence part of the quantifier is covered completely up to n=6; the value/timestamp part is sampled. Still only 'held on what was executed'.",
        rule="exhaustive BFS: for n = 2..=6 every one of the 2/4/10/26/76 matchings x every connect(i,j), i!=j, and disconnect(i) x labels written first or last, each edge replayed on fresh terminals; plus random walks of 64 steps on 2..6 terminals and random read-semantics histories of 8..20 steps (set-state, set-command, connect, disconnect) with all three reads of every terminal checked after every step; distinct = (n, matching, operation, variant) / (n, pre-matching, op) / structural shape of the history",
        assumptions=["write bursts of 1, 2, 255, 256, 257, 511, 512, 513 (and 65535..65537 by quota) consecutive sets between reads; sets performed while a RefMut / Ref of the partner or of an unrelated terminal is held (all permitted by the unchanged crate; connect / disconnect are not put under guards)",
                     "reads are repeated while shared borrows (Ref, never RefMut) of the partner / the terminal / both / an unrelated terminal are held and must neither panic nor change; states and commands may be delivered by follow + Terminal::update (a present followed datum becomes the own slot whatever its stamp; absent changes nothing; an error is returned and the slot is unchanged; the polling order of the two facets is not assumed); when the exact mean of two components is an f32 number and neither the operands nor the mean are below 2*MIN_POSITIVE (halving exact) the read must be that number",
                     "connect(a,a) is never issued (outside the property)",
                     "state components finite with exponent headroom so the sum of two is finite; stamps are only compared",
                     "'latest' state/command of a terminal = the last set call; command ties may return either side",
                     "combined read is checked against the same terminal's own state and command reads taken just before; both Datum.time and TerminalData.time must carry the state's stamp when there is one"],
    ),
    "C14": dict(
        quick_scale=4, thorough_scale=5, run=native_three_profiles, level=EXPL, technique="f64 reference with forward error bound for the kinematics; exact canonical-bit comparison against plain f32 operators for arithmetic and conversions; exhaustive enumeration of unit, zero-pattern and kind-pair tables; panic capture for the iff-panic clauses",
        rule="eight sub-checks, each case a pure function of (seed, stream, case): update (states with 20% +-0 per component, moderate and wide magnitudes, dt stratified in +-1e5 s incl. 0, +-1 ns), update-extreme (any finite triple), setters (49 grid units x 3 Quantity setters + raw setters), state-new (3 slots x 49 units), from-state (all 4^3 patterns of {+0,-0,>0,<0}), cmd-conv, state-arith, cmd-arith (3x3 kind pairs x 9 operator forms); distinct by (sub-check, zero/sign pattern, sign and decade of dt, unit, kind pair)",
        assumptions=["third lane release-unchecked (dimension checking compiled out, detected at run time and cross-checked against size_of::<Unit>()): the wrong-unit rejection / panic clauses are not applied there, every correctly dimensioned setter argument must still be accepted with its documented effect",
                     "op-matrix: all 52 operator impls touching State, Command, Datum<State>, Datum<Command> (table OP_IMPLS, read off the source) against the plain f32 operator component-wise, binary vs assign siblings, mixed command kinds panic also inside a Datum",
                     "dimension checking compiled in (debug build)",
                     "kinematics reference judged with bound 32*2^-24*sum|terms| plus the i64-ns -> f32-seconds conversion rounding; dt = 0 is the identity on canonical bits (-0 == +0)",
                     "'lowest non-zero derivative' follows the crate's tests and accessor table: acceleration if non-zero, else velocity if non-zero, else position",
                     "in update-extreme (any finite triple) a non-finite result where the true result is representable is a violation; the overflow of intermediates when some term exceeds 1e37 is a listed known finding"],
    ),
    "C15": dict(
        quick_scale=10, thorough_scale=16, run=native_three_profiles, level=EXPL, technique="model-based random operation sequences against an exact executable model; scripted recording history; fault-injecting getters, clocks and settable; panic capture",
        rule="three sub-checks: seq (operation sequences <=40 over a recording settable with scripted accept/reject, two scripted getters, a ConstantGetter that is settable/following/followable, four clock kinds), hist (GetterFromHistory over a scripted history recording every queried time, four constructors by quota, three clock kinds, <=40 ops from {get, clock advance/jump/error, set_delta, set_time, update with scripted errors}), adapters (Time as TimeGetter, NoneGetter, TimeGetterFromGetter, ConstantGetter); after every operation result, get_last_request, the impl_set log, get() and the history's query log are compared exactly with the model; distinct = (previous op, op, following state, followed-getter category) / (constructor, clock kind, op bigram, offset class) / event bigrams",
        assumptions=["the recording settable of the seq sub-check reads get_last_request() from inside impl_set and at the end of update(): the expectation is the last SUCCESSFULLY set value at that moment",
                     "builtin sub-check: the same bookkeeping/following model over every impl of Settable in the crate - ConstantGetter, Terminal (its Datum<Command> and Datum<State> facets, unconnected; its own getters show the stored request) and CommandPID crossed with its process input being present / absent / erroring; for a Terminal whose OTHER facet's followed getter errs, forwarding on this facet is accepted either way (order undocumented); a CommandPID update may also return its process input's error, no order between error sources asserted",
                     "in hist clock values, starts, deltas and set_time targets range over the whole of i64, each partner quantity being constructed so that now+delta, start-now, t-now and -now stay inside i64 (clock readings > i64::MIN): nothing overflows",
                     "a read-once followed getter or clock (first poll differs from later polls) is decided by its FIRST read; poll counts are not asserted",
                     "a settable whose update() does not call update_following_data forwards nothing on update()",
                     "GetterFromHistory::update: the statement is silent, so only 'Ok(()) when no inner update fails, otherwise Ok or one of the injected errors' is required (no order, no call counts; corrected after the benign refactor seeded/benign/C15-D raised a false alarm)"],
    ),
    "C18": dict(
        quick_scale=4, thorough_scale=6, run=native_both_profiles, level=EXPL, technique="exact i128 integer oracle; exact f64 rational references for the conversions with the statement's own bounds; non-decreasing chains for monotonicity; differential check of the mixed operators against Quantity operators on Quantity::from-converted operands with panic capture on both sides",
        rule="seeded generators: i64 operands over bit-lengths 0..62 x sign (plus values next to k*2^24, f32 midpoints, 2^k, whole seconds) with operand pairs built so the i64 result exists; f32 seconds |x| < 9e9 stratified by exponent; 49 grid units x 27 mixed operator cells; exhaustive: |ns| <= 2^16 and +-(2^k+{-1,0,1}) for Time->Quantity, 49 units x try_from, 49 units x 27 mixed cells; distinct = (sub-check or operator group, magnitude stratum and sign of each operand, unit)",
        assumptions=["debug build with dimension checking and overflow checks on; overflow and division by zero are outside the property",
                     "'within 2 ulps' accepts either reading (distance to the correctly rounded f32, or real error); truncation and rounding both accepted for Quantity->Time",
                     "DimensionlessInteger<->Quantity value checks are lenient (statement only loosely covers them)"],
    ),
    "C08": dict(
        quick_scale=5, thorough_scale=25, run=native_three_profiles, level=EXPL, technique="runtime reference-model monitor: f64 least-squares projection of the states read through the API just before update() (forward error bound), own slots read back with get_last_request; constraint residual and untouched-slot checks; behavioural observation of the tooth-count ratio",
        rule="per device (Invert, GearTrain with ratio in +-[1e-2,1e2] via with_ratio_raw / with_ratio, Axle<0..6>, Differential x {Side1,Side2,Sum,Equal,new()}) seeded cases of 1..8 rounds; each round writes new states (distinct increasing stamps) into a random subset of own and connected external terminals (15% of cases with mutually consistent values), then read -> update -> read back; every presence subset of the 2- and 3-terminal devices carries a coverage floor; tooth lists of length 2..6; distinct = (device, presence mask of the reads, round class, consistent?)",
        assumptions=["'states read at its terminals' = Getter<State> on the device's own terminals immediately before update() (mean of own and connected partner), as the statement words it",
                     "forward bound 48*2^-24*sum|terms| per component; largest observed ratio per device reported; 'unchanged' for consistent inputs is within that bound",
                     "terminals the statement does not name for a case (e.g. the trusted branches of a differential with a distrusted branch) must keep their own slot bit-identical"],
    ),
    "C16": dict(
        run=lane_c16.run, level=EXPL, crash_is_violation=True, bin="c16",
        technique="Miri (undefined-behaviour interpreter) over the reached unsafe code + native differential with 0x7F-poisoned scratch arrays (--cfg rrtk_verif hook) + safe lifetime probe programs classified by borrow checker / Miri",
        rule="poison lane: SumStream/ProductStream x f32/Quantity x arity 1..8 x every assignment of {absent, present, error} (exhaustive) with fresh values per draw, terminal read x 8 own/partner/connected combinations, Axle::<0..8>::new(); Miri lane: the same patterns ({absent,present,error}^N for N<=5, {absent,present}^N above; thorough to arity 10 and again under Tree Borrows), terminal reads/connect/disconnect, Axle<0..10>, one scenario per device and wrapper; probes: 11 terminal accessors x {drop the device, move the device} as #![forbid(unsafe_code)] programs + 4 control probes; distinct = pattern/variant, Miri process, probe program",
        assumptions=["Miri sees only executed paths; the 'all safe programs' clause is sampled by 22 probe programs (+4 controls), not decided",
                     "a probe rejected with borrow-checker error codes counts as 'holds'; a probe that compiles is run under Miri: dangling-reference diagnostic (drop) or old/new address mismatch (move) is a violation",
                     "the Miri lanes build with the hook OFF (poisoning would initialise the memory Miri is there to watch)",
                     "a monitor process killed by a signal in the poison lane is read as a violation (memory corruption), see props.on_crash"],
    ),
    "C20": dict(
        thorough_scale=4, run=native_three_profiles, level=EXPL, technique="recording and fault-injecting inner objects at the trait boundary; per-round differential against an oracle computed from the pre-update terminal read; bit-exact twin stand-alone CommandPID with identical wiring; exhaustive single-round grids",
        rule="two exhaustive single-round grids (actuator 384 cells: own/partner state and command present or absent, linked or not, stamp order, inner accept/reject/update-error; encoder 64 cells: getter present/absent/error-1/error-2, inner update ok/error, own slots empty or filled, partner) plus three random families (actuator, encoder, pid) of 1..=32-round histories in which each round delivers a new state and/or command (all three kinds) to the external and/or own terminal or re-links / disconnects them, with scripted reject / update-error / getter present-absent-erroring; distinct = per-round sequence of (what the terminal saw, inner outcome) (+ twin output class for pid)",
        assumptions=["writing strata (act/enc/pid-writing): the inner object writes states / commands with fresh stamps to the wrapper's own terminal (only from its update()) and to the connected terminal (from any of its methods); a write must neither panic nor be lost, and counts as a third-party write for the following rounds; for the encoder a present getter state legitimately overwrites an inner write to the own state slot",
                     "following strata (act/enc/pid-following): the wrapper's OWN terminal may receive state / command through followed getters (present or absent, never erring; stamps older / equal / newer than stored, |t| < 2^41); such data count as seen by the terminal from the wrapper's own update on (slot model + scratch pair of terminals gives the expected read); for the encoder only 'the getter's present state ends up in the own state slot' is asserted, the command slot and the no-write paths are not judged",
                     "observing strata (act/enc/pid-observing): the inner object reads its own and/or the connected terminal (TerminalData, State, Command, both last-request slots) from inside impl_set / update / get; every such read is permitted by the unchanged crate, must not panic, and must show what the monitor read immediately before the wrapper's update() (for the encoder only reads up to the first inner get() are compared)",
                     "'data the terminal sees' is read from the real terminal with Getter<TerminalData> immediately before update() and cross-checked (actuator and PID sub-checks) against a model built from the monitor's own slot writes: mean state within 2 ulps (not asserted below 2*MIN_POSITIVE or where the f32 sum would overflow), the newer command (either on a tie), the state's timestamp when there is a state (command-only timestamp not asserted)",
                     "after a failing inner.set the actuator wrapper may either call or skip inner.update() (statement silent); exactly one inner.update() per wrapper update() otherwise",
                     "PID wrapper compared bit-exactly (canonical bits) with a stand-alone CommandPID wired like the wrapper (shared Time clock, two ConstantGetters, PID following the command getter); the PID law itself is C11's job",
                     "stamps |t| <= 2^40, non-decreasing with repeats; repeated stamps give inf/NaN on both sides and are compared canonically"],
    ),
    "C13": dict(
        run=native_three_profiles, level=EXPL, technique="model-based runtime oracle (newest issued command, side-mapping table) with exhaustive small-scope enumeration of command-slot assignments and quota-driven random histories and chains; snapshot bit-identity for the differential",
        rule="five sub-checks: assign (every assignment of {no command, distinct stamp ranks} to own and connected-external command slots x kind of the newest command, followed by 0-7 random rounds, for Invert, GearTrain via with_ratio_raw / with_ratio / new with 2-6 gears, Axle<1..3>), axle (Axle<1..=6> x each of the 2N slots as holder of the newest command x kind), random (single devices 1-8 rounds), chain (1-5 random Invert/GearTrain/Axle<2> joined by connect in random orientation, command injected at either end, devices updated in travel order, far end and every device exit checked), differential (five constructions x all 64 state-presence masks x 1-8 rounds); distinct = (device/constructor, connection pattern, first-round rank assignment, kind, issuing slot per round) / chain shape / per-round masks",
        assumptions=["about 30% of the cases draw command and state stamps from the whole i64 range (MIN, MIN+1, +-2^62, +-5e18, -1, 0, 1, MAX-1, MAX, uniform): the crate only compares stamps on these paths; devices are in part updated once and then MOVED (boxed, pushed into a Vec, put into a struct field, returned from a function) before their terminals are taken",
                     "commands may be delivered through followed getters (device terminals pull them in during the device's own update, external terminals through an explicit Terminal::update run by the harness before it); gear trains are built through with_ratio_raw, with_ratio and the tooth-count constructor (2..6 gears) and driven in both directions",
                     "the harness is the only issuer of commands and every issued stamp is strictly larger than all earlier ones (equal stamps are outside the quantifier); the premise 'newest command readable before update' is re-confirmed before every update",
                     "inverter/axle values compared exactly on canonical bits; gear values within 4 ulp per device crossed (a command that went /r then *r may differ in the last bit) plus an f64 product cross-check for chains",
                     "ratios in +-[1e-2,1e2]; stamps within |t| <= 2^40; states are present at random but not judged here"],
    ),
    "C19": dict(
        run=lane_c19.run, level=EXPL,
        technique="differential offline comparison of canonical traces (f32 bits with -0==+0 and NaN canonical, i64, outcome words; never units) of one seeded workload built under seven feature configurations; in-build EWMA one-step law using each build's own powf; panic capture; ill-dimensioned operations against plain f32 arithmetic in the unchecked builds",
        rule="200 (quick) / 20000 (thorough) seeded programs, each a pure function of (seed, program index), run through every public value type, motion profile, stream (scripted present/absent/Err(1)/Err(2) histories) and device in seven configurations: release {std, alloc+libm, alloc+micromath} x {dim_check_release, no checking} plus the default debug build; a second, ill-dimensioned program per index runs only in the three unchecked builds; E lines must be identical in all seven traces, powf-derived P lines within 8 ulp-of-magnitude between std and libm, S lines (EWMA law with the build's own powf) ok everywhere, checked-only C lines identical among the four checked builds, U lines = plain f32 arithmetic without panic or rejection; distinct = trace tag x configuration",
        assumptions=["the workload also covers every comparison trait, every From/TryFrom conversion and every State/Command setter, accessor and assign operator over edge pools (values 1 ulp or less than f32::EPSILON apart, +-0, 2^31 / 2^32 / 2^53 / 2^62 neighbours, i64 extremes); left out on purpose: items documented to differ between checked and unchecked builds (observed as class C / U instead), Debug text of unit-bearing types, language-level overflow panics",
                     "the trace binary itself always uses std; only rrtk is built no_std in the alloc+libm / alloc+micromath configurations",
                     "whether checking is compiled in is read at run time from size_of::<Unit>() and must equal the configuration's cfg expression (mismatch = inconclusive)",
                     "micromath's powf is a coarse approximation (measured up to 0.25 absolute): its powf-derived lines are never compared across configurations, only against the EWMA law inside that build",
                     "integers kept far from overflow by construction so the debug build's overflow checks are never the observed difference"],
    ),
    "C17": dict(
        run=lane_c17.run, level=EXPL, crash_is_violation=True, bin="c17",
        technique="model-based runtime monitor (integer cell + drop counter) natively and under Miri; concurrent lost-update monitor whose event log lives inside the locked object, checked offline (exactly-once, no gaps) under native stress, Miri's data-race detector over many schedules (-Zmiri-many-seeds) and ThreadSanitizer (thorough); downstream crate built with four caller feature sets for to_dyn!",
        rule="single-threaded: seeded sequences of <=12 operations from {clone, drop a handle, borrow-read, borrow_mut-write of a unique value, to_dyn! then continue through the trait object, two overlapping shared borrows} for each of the six variants (targets of the pointer variants are leaked boxes reclaimed by the harness), static-making macros called twice; concurrent: 3 threads x 12 increments under Miri for 16 (quick) / 64 (thorough) schedule seeds, 4x20000 (quick) / 8x100000 x5 (thorough) natively, 8x20000 under ThreadSanitizer (thorough), for ArcMutex, ArcRwLock, static Mutex, static RwLock, ArcMutex through clones; to_dyn! for Ptr / RcRefCell / PtrRwLock from a downstream crate with caller features {}, {alloc}, {std}, {alloc,std}; distinct = (variant, set of operation kinds, length class) + distinct thread interleavings observed (hash of the tid sequence in the log) + matrix cells",
        assumptions=["References are !Send by design: each thread builds its own Reference over the shared Arc / static, as the statement words it",
                     "a run of the concurrent workload that showed a single interleaving for a variant is inconclusive, not green",
                     "Miri and ThreadSanitizer lanes build with the hook off; ThreadSanitizer needs -Zbuild-std (offline, ~35 s) and runs in the thorough tier only",
                     "to_dyn! is exercised inside the harness through two dummy caller features named alloc and std; the caller-feature matrix itself is decided by probes/downstream"],
    ),
}
NOT_APPLICABLE = {}
