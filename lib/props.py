"""Registry: one entry per property — which lanes decide it, and the words that go into evidence."""
import json, os, sys
import common as C
import gen_constants

QUICK_SHARDS = 4
THOROUGH_SHARDS = 16


def native(prop, spec, tier, seed, v, binname=None, hooks=True, lane="native", extra=()):
    binname = binname or prop.lower()
    if prop == "C01":
        n, unparsed = gen_constants.generate()
    binpath = C.build_monitor(binname, hooks=hooks)
    nsh = QUICK_SHARDS if tier == "quick" else THOROUGH_SHARDS
    reports = C.run_shards(binpath, prop, tier, seed, nsh, extra=extra, tag=lane)
    v.add_native(C.merge_reports(reports), lane=lane)


def on_crash(prop, spec, tier, seed, e):
    """A monitor process died (signal / abort) instead of reporting. Every monitor catches panics per
    case, so this is either a broken monitor or memory corruption in the code under test; only the
    properties about memory safety (C16, C17) read it as a violation, the rest say INCONCLUSIVE."""
    if spec.get("crash_is_violation"):
        v = C.Verdict(prop, tier, seed, spec["level"], spec["rule"], spec["assumptions"], spec["technique"])
        v.evaluations, v.distinct_extra = 1, 2
        v.add_violation(f"{prop}/crash/rc={e.rc}", str(e), "native")
        return v.finish()
    return C.inconclusive_exit(prop, tier, seed, spec["level"], str(e))


def replay(prop, spec, path):
    with open(path) as fh:
        r = json.load(fh)
    ex = r.get("example") or {}
    print(json.dumps(r, indent=1))
    lane = ex.get("lane", "native")
    if lane not in ("native", "poison"):
        print(f"(lane {lane}: re-run ./check {prop} --tier {r.get('tier','quick')} with VERIF_SEED={r.get('seed',1)} to reproduce)")
        return 0
    if prop == "C01":
        gen_constants.generate()
    try:
        binpath = C.build_monitor(spec.get("bin", prop.lower()))
    except C.Inconclusive as e:
        print(e)
        return 2
    cmd = [binpath, "--seed", str(r["seed"]), "--tier", r["tier"], "--only", f"{ex.get('sub','')}:{ex.get('case',0)}"]
    rc, out, err, to = C.run(cmd, env=C.base_env(), timeout=600)
    sys.stdout.write(err)
    try:
        rep = json.loads(out)
        print("replayed: violation_count =", rep.get("violation_count"), "signatures =", rep.get("sig_counts"))
        return 1 if rep.get("violation_count", 0) else 0
    except Exception:
        sys.stdout.write(out)
        return 2


def setup():
    """MANIFEST.setup_cmd: build every monitor once so that later checks only rebuild what changed."""
    gen_constants.generate()
    tdir = os.path.join(C.BUILD, "harness")
    rc, out, err = C.cargo_build(C.HARNESS, tdir, ["--bins"], rustflags="--cfg rrtk_verif")
    sys.stdout.write(err[-2000:])
    return 0 if rc == 0 else 1


EXPL = "exploration"
PROPS = {
    "C01": dict(
        run=native, level=EXPL, technique="runtime oracle on exhaustive 49x49 unit grid + seeded random operands (reference = integer exponent model and raw f32 operator)",
        rule="enumerate every ordered pair of the 49 grid units x every Unit/Quantity operator form (and every mixed Time/DimensionlessInteger cell x 49 units) with fresh random finite values, plus random exponents up to |60|; a case is distinct by (sub-check, lhs exponents, rhs exponents) / constant name / conversion unit",
        assumptions=["harness built in debug profile so dimension checking is compiled in (asserted at run time via size_of::<Unit>() != 0)",
                     "a panic is observed as an unwind through catch_unwind",
                     "expected exponents of named constants are parsed from the constant's NAME by lib/gen_constants.py"],
    ),
    "C05": dict(
        run=native, level=EXPL, technique="metamorphic runtime monitor over scripted fault histories (error provenance, reset==fresh-instance, None-deletion, get-purity; bit-exact between runs of the real code)",
        rule="per stream type (14 incl. f32/Quantity variants) seeded histories of length <=48 over {present, absent, Err(1), Err(2)} from four grammar styles (iid, runs separated by resets, noise, reset followed by >=3 present), CommandPID also set(same/other value/other kind), freeze also condition {true,false,absent}; distinct = (stream, set of adjacent event-kind pairs, length class)",
        assumptions=["reset table per stream taken from the property anchors (PID/Integral/Derivative: None+Err; CommandPID: None+Err+set(different); EWMA/MovingAverage/to-state: Err, None ignored; Float/Quantity converters: every update)",
                     "freeze is not driven with an erroring condition getter (statement silent); after cond=absent then cond=true both absent and the last passed value are accepted",
                     "timestamps strictly increasing for PID/CommandPID/integral/derivative/to-state, non-decreasing for the filters"],
    ),
    "C04": dict(
        run=native, level=EXPL, technique="runtime reference-model monitor (f64 textbook PID with forward error bound) + bit-exact metamorphic relations + differential against the controller assembled from the crate's own streams",
        rule="seeded histories of length <=64 from the grammar run((absent|error)+ run)* with run lengths 1,2,3,4-9,10-39, intervals log-uniform 1us..10h (every third history constant-interval), gains/setpoint/samples stratified in +-1e4 incl. zeros; distinct = (set of run-length classes, set of interval decades, absent count class, error count class)",
        assumptions=["strictly increasing timestamps by construction (dt=0 is outside the quantifier)",
                     "forward bound (40+4n)*2^-24*(|kp e| + |ki| sum|addend| + |kd|(|e|+|e_prev|)/dt), n = samples in the run; largest observed ratio is reported as reference_err_over_bound",
                     "the assembled controller updates every node at every step (examples/pid.rs stops at the first erroring node, which would leave the derivative stream unreset)"],
    ),
    "C10": dict(
        run=native, level=EXPL, technique="runtime reference-model monitor (f64 trapezoid sums / difference quotients with propagated forward error bound), unit probing, panic capture, bit-exact shift metamorphic relation",
        rule="per stream (integral, derivative, three to-state converters) seeded histories of <=64 events with strictly increasing stamps (intervals 1us..2h, a quarter constant-interval), four non-linear signal shapes (random walk, sinusoid, steps, white), interleaved absent/error events; integral/derivative input unit drawn from the 7x7 grid; distinct = (stream, input unit, position of the sample in its run) ; plus exhaustive 3 converters x 49 units x offending-sample position for the panic clause",
        assumptions=["double quantities follow the staging the code documents (second integral / difference starts at the first sample where the first one exists)",
                     "forward bound (48+8n)*2^-24*(propagated sum of |terms|), n = samples in the run; largest observed ratio reported per stream/component",
                     "dimension checking compiled in (debug build) for the panic clause"],
    ),
    "C12": dict(
        run=native, level=EXPL, technique="runtime reference-model monitor (exact i64 window weights + f64 weighted average; one-step EWMA law with the crate's own powf), panic capture, bit-exact f32-vs-Quantity differential",
        rule="seeded histories of <=64 events (present with non-decreasing, 15% repeated, stamps; absent; two errors), steps 1ns..1h, windows 1ns..10h incl. windows shorter than a step and longer than the history, smoothing in {0,1,2^-k,U(0,1)}, every 7th history constant-valued; all four filter variants driven by the same history; distinct = (set of window occupancies seen, window decade, smoothing quartile, has-error, has-absent)",
        assumptions=["non-decreasing timestamps and positive windows only (negative dt / non-positive windows are outside the quantifier)",
                     "EWMA checked one step at a time against prev*(1-L)+new*L with prev = the stream's own previous output and L = 1 - powf(1-s, dt) using the crate's powf obtained through ExponentStream; bound 24*2^-24*(|prev|+|new|)",
                     "moving average bound (48+8n)*2^-24*sum(w_i|x_i|)/W, n = samples in the window; first sample within 4 ulp (x*W/W is two roundings)"],
    ),
    "C11": dict(
        run=native, level=EXPL, technique="runtime reference-model monitor (f64 staged PID / integral / double-integral state machine with propagated forward bound) + bit-exact twin instance for set(same)",
        rule="seeded histories of <=48 steps; each step optionally issues set(command) {same, same kind other value, other kind} or changes the followed command getter {command, absent, error} (every third history follows a getter), then feeds a state sample / absent / error and updates; distinct gains per kind; distinct = (command kind, sample index since restart, following?, set of restart causes seen so far)",
        assumptions=["staging mirrored from the documentation: I and D of the error start at the 2nd sample of a run, integral of u from the 2nd, double integral from the 3rd",
                     "forward bound (64+12n)*2^-24*(propagated sum of |terms|); largest observed ratio per kind reported",
                     "an error from the followed command getter: only 'update returns it and the output is unchanged' is checked (statement silent)",
                     "the error-reported clause is checked on the get() immediately after the erroring update only"],
    ),
    "C06": dict(
        run=native, level=EXPL, technique="runtime consistency monitor across the six accessors of the same object (presence/mode table, bit-identity of history vs accessor), boundaries recovered by bisection of get_piece, monotonicity of pieces monitored on sorted query times",
        rule="seeded profiles (positions +-1e4, limits log-uniform 1e-2..1e3, start/end speeds inside and outside the limit, zero/non-zero end velocity and acceleration => all three end-command kinds, forward and reversed moves, geometry comfortably feasible / around the feasibility edge / arbitrary; a constructor panic is an allowed outcome) x query times {i64 extremes, -1,0,1, each recovered boundary +-2 ns, 48 (quick) / 256 (thorough) random times in [0,2*t3]}; distinct = (direction, end-command kind, set of non-empty phases, decade of t3, signs of start/end velocity)",
        assumptions=["boundaries t1..t3 are private: they are recovered from get_piece by bisection on [0,2^62] and the direct reads are cross-checked against them",
                     "velocity/position presence before t=0 is not constrained (statement only constrains mode, acceleration, history there)"],
    ),
    "C07": dict(
        run=native, level=EXPL, technique="runtime reference-model monitor (f64 trapezoid from the inputs and the recovered boundaries, forward error bound), Simpson integral relation between accessors, bit-exact mirror metamorphic relation, acceptance oracle for comfortably feasible moves",
        rule="same seeded profile generator as C06 (60% comfortably feasible by construction: speeds = max_vel*u with |u|<=1 and displacement >= 1.05*(accel+decel distance)+1e-3), each accepted profile queried at boundary +-2 ns times plus 96 (quick) / 512 (thorough) random times inside the move; distinct = (direction, set of non-empty phases, decade of t3, sign of start velocity, end velocity non-zero, comfortable)",
        assumptions=["reference built from the recovered ns boundaries so their truncation is not charged as error; forward bound 48*2^-24*sum|terms| with the term magnitudes of the closed forms (|p0|,|v0 t|,|a t1 t|,|a t^2| ...); largest observed ratios reported",
                     "mirror relation negates whole states (position, velocity and acceleration) and is checked only for non-zero displacement (sign tie-break at dp=0 is legitimate)",
                     "arrival is decided on the reference trajectory evaluated at the recovered t3 against the end state"],
    ),
}
NOT_APPLICABLE = {}
