#!/bin/bash
# usage: lib/sweep.sh <tier> <seed...>   -- run every check at the given seeds, print one line per run
tier=$1; shift
cd "$(dirname "$0")/.."
for seed in "$@"; do
  for p in $(seq -w 1 20); do
    out=$(VERIF_SEED=$seed timeout 7200 ./check C$p --tier $tier 2>&1 | grep -E "^(OK|VIOLATION|INCONCLUSIVE|  signature)" | head -5 | tr '\n' ' ')
    echo "seed=$seed C$p rc=$? $out"
  done
done
