#!/usr/bin/env python3
"""lib/import_seeds.py C01 C02 ... — take the changes a sub-agent left in /tmp/mut-<ID>-out/{A,B}.patch with their
demonstrations, CONFIRM them myself in a scratch worktree of /repo (existing suites green with the change in both
feature configurations; demo fails with the change and passes without it) and only then store them as
/verif/seeded/<ID>-<A|B>/{patch.diff, demo.*, meta.json}. The scratch worktree is removed afterwards."""
import json, os, re, shutil, subprocess, sys
ROOT = os.path.dirname(os.path.dirname(os.path.abspath(__file__)))
WT = os.environ.get("SEEDVERIFY_WT", "/tmp/seedverify")


def sh(cmd, cwd=None, timeout=1800):
    p = subprocess.run(cmd, shell=True, cwd=cwd, capture_output=True, text=True, timeout=timeout)
    return p.returncode, p.stdout + p.stderr


def notes_section(notes, which):
    # best effort: the part of notes.md that talks about this change
    m = re.split(r"(?im)^#+\s*(?:change\s*)?(M[1-9]|[ABCD])\b.*$", notes)
    for i in range(1, len(m) - 1, 2):
        if m[i].upper() == which:
            return m[i + 1].strip()[:1500]
    return notes[:1500]


def main():
    ids = sys.argv[1:]
    rnd = ""
    if ids[:1] == ["--round"]:
        rnd = ids[1]
        ids = ids[2:]
    sh(f"git -C /repo worktree remove --force {WT}")
    rc, out = sh(f"git -C /repo worktree add --detach {WT} HEAD")
    if rc != 0:
        print(out)
        return 2
    env_off = "CARGO_NET_OFFLINE=true "
    try:
        for pid in ids:
            src = f"/tmp/mut{rnd}-{pid}-out"
            if not os.path.isdir(src):
                print(pid, "no output dir")
                continue
            notes = open(os.path.join(src, "notes.md")).read() if os.path.exists(os.path.join(src, "notes.md")) else ""
            for which in (["M%d" % k for k in range(1, 10)] if rnd == "5" else list("ABCD")):
                patch = os.path.join(src, f"{which}.patch")
                demos = [f for f in os.listdir(src) if f.lower().startswith(f"demo_{which.lower()}")]
                if not os.path.exists(patch) or not demos:
                    if rnd != "5" or os.path.exists(patch): print(pid, which, "missing patch or demo")
                    continue
                demos.sort(key=lambda f: (not f.endswith(".sh"), f))  # a shell driver, when present, is the demonstration
                demo = os.path.join(src, demos[0])
                companions = [os.path.join(src, f) for f in demos[1:]]
                sid = f"{pid}-{which}" if not rnd else f"{pid}-R{rnd}{which}"
                sh("git checkout -- . && git clean -fdq tests examples", cwd=WT)
                rc, out = sh(f"git apply {patch}", cwd=WT)
                if rc != 0:
                    print(sid, "patch does not apply:", out[:200])
                    continue
                log = {}
                rc1, o1 = sh(env_off + "cargo test --offline 2>&1 | tail -40", cwd=WT)
                ok_default = "test result: FAILED" not in o1 and "error" not in o1.lower().split("test result")[0][-2000:] and "test result: ok" in o1
                rc2, o2 = sh(env_off + "cargo test --offline --features devices 2>&1 | tail -40", cwd=WT)
                ok_devices = "test result: FAILED" not in o2 and "test result: ok" in o2
                log["suite_default_with_change"] = "pass" if ok_default else "FAIL"
                log["suite_devices_with_change"] = "pass" if ok_devices else "FAIL"
                if demo.endswith(".rs"):
                    name = f"demo_{pid.lower()}_{which.lower()}"
                    shutil.copy(demo, os.path.join(WT, "tests", name + ".rs"))
                    cmd = env_off + f"cargo test --offline --features devices --test {name} 2>&1 | tail -30"
                    _, d1 = sh(cmd, cwd=WT)
                    demo_fails_with = "test result: FAILED" in d1 or "panicked" in d1 or "error: test failed" in d1
                    if not demo_fails_with:
                        # a change that only shows in an optimized build (debug_assert!, cfg(debug_assertions))
                        cmd = env_off + f"cargo test --offline --release --features devices,dim_check_release --test {name} 2>&1 | tail -30"
                        _, d1 = sh(cmd, cwd=WT)
                        demo_fails_with = "test result: FAILED" in d1 or "panicked" in d1 or "error: test failed" in d1
                        log["demo_profile"] = "--release --features devices,dim_check_release"
                    if not demo_fails_with:
                        # ... or only with dimension checking compiled out
                        cmd = env_off + f"cargo test --offline --release --features devices --test {name} 2>&1 | tail -30"
                        _, d1 = sh(cmd, cwd=WT)
                        demo_fails_with = "test result: FAILED" in d1 or "panicked" in d1 or "error: test failed" in d1
                        log["demo_profile"] = "--release --features devices (dimension checking compiled out)"
                    sh("git checkout -- src", cwd=WT)
                    _, d2 = sh(cmd, cwd=WT)
                    demo_passes_without = "test result: ok" in d2 and "test result: FAILED" not in d2
                else:
                    # shell demonstration (C19): run it with the worktree as argument / cwd
                    shutil.copy(demo, os.path.join(WT, os.path.basename(demo)))
                    for c in companions:
                        shutil.copy(c, os.path.join(WT, os.path.basename(c)))
                    cmd = f"bash {os.path.basename(demo)} . > demo.log 2>&1; echo DEMO_RC=$?; tail -30 demo.log; rm -f demo.log"
                    _, d1 = sh(cmd, cwd=WT)
                    demo_fails_with = "DEMO_RC=0" not in d1
                    sh("git checkout -- src", cwd=WT)
                    _, d2 = sh(cmd, cwd=WT)
                    demo_passes_without = "DEMO_RC=0" in d2
                log["demo_with_change"] = "fails" if demo_fails_with else "PASSES"
                log["demo_without_change"] = "passes" if demo_passes_without else "FAILS"
                good = ok_default and ok_devices and demo_fails_with and demo_passes_without
                print(sid, "CONFIRMED" if good else "REJECTED", log)
                if not good:
                    print("   ", (d1 if not demo_fails_with else d2 if not demo_passes_without else (o1 + o2))[-600:].replace("\n", "\n    "))
                    continue
                dst = os.path.join(ROOT, "seeded", sid)
                os.makedirs(dst, exist_ok=True)
                shutil.copy(patch, os.path.join(dst, "patch.diff"))
                shutil.copy(demo, os.path.join(dst, "demo" + os.path.splitext(demo)[1]))
                for c in companions:
                    shutil.copy(c, os.path.join(dst, os.path.basename(c)))
                meta = {"id": sid, "property": pid, "source": "independent sub-agent given only the property text and a scratch worktree of /repo",
                        "needs_to_manifest": notes_section(notes, which),
                        "confirmed_by_me": log,
                        "how_confirmed": "scratch worktree /tmp/seedverify of /repo HEAD: git apply patch; cargo test --offline; cargo test --offline --features devices (unedited suites); then the demo as tests/<demo>.rs with --features devices with the change (must fail) and after git checkout -- src (must pass)"}
                json.dump(meta, open(os.path.join(dst, "meta.json"), "w"), indent=1)
    finally:
        sh(f"git -C /repo worktree remove --force {WT}")
        sh("git -C /repo worktree prune")
    return 0


if __name__ == "__main__":
    sys.exit(main())
