#!/bin/bash
# usage: mut.sh <ID> <file> <python-regex-or-literal old> <new>   -- applies a single literal replacement in /repo, runs the quick check, reverts.
ID=$1; FILE=$2; OLD=$3; NEW=$4; COUNT=${5:-1}
python3 - "$FILE" "$OLD" "$NEW" "$COUNT" <<'PY'
import sys
f,old,new,count=sys.argv[1],sys.argv[2],sys.argv[3],int(sys.argv[4])
p='/repo/'+f
s=open(p).read()
n=s.count(old)
if n<1: print("PATTERN NOT FOUND"); sys.exit(3)
s=s.replace(old,new,count) if count>0 else s.replace(old,new)
open(p,'w').write(s)
PY
[ $? -eq 3 ] && exit 3
cd /verif && ./check $ID --tier quick | grep -E "^(VIOLATION|OK|INCONCLUSIVE|  signature)" | head -6
git -C /repo checkout -- .
