#!/usr/bin/env python3
"""Regenerate /verif/MANIFEST.json from the registry in props.py (run after adding a check)."""
import json, os, subprocess, sys
sys.path.insert(0, os.path.dirname(os.path.abspath(__file__)))
import common as C
import props

ALL = [json.loads(l)["id"] for l in open(os.path.join(C.ROOT, "properties.jsonl")) if l.strip()]


def main():
    hooks_commits = []
    try:
        out = subprocess.run(["git", "-C", C.REPO, "log", "--format=%H %s"], capture_output=True, text=True).stdout
        hooks_commits = [l.split()[0] for l in out.splitlines() if "verif hooks" in l]
    except Exception:
        pass
    checks = []
    for pid in ALL:
        if pid not in props.PROPS:
            continue
        s = props.PROPS[pid]
        checks.append({
            "property_id": pid,
            "quick_cmd": f"./check {pid} --tier quick",
            "thorough_cmd": f"./check {pid} --tier thorough",
            "evidence_file": f"/verif/evidence/{pid}.json",
            "replay_cmd_template": f"./check {pid} --replay {{path}}",
            "engine": "rrtk_mon",
            "level_claimed": {"category": s["level"], "text": s.get("level_text", DEFAULT_LEVEL_TEXT), "design_ref": f"DESIGN.md section 4, {pid}"},
            "level_note": "; ".join(s["assumptions"]),
            "technique": s["technique"],
        })
    na = [{"property_id": pid, "reason": props.NOT_APPLICABLE.get(pid, "monitor not built yet in this session (work in progress; see DESIGN.md section 4 for the plan)")}
          for pid in ALL if pid not in props.PROPS]
    man = {
        "version": 1,
        "setup_cmd": "./check setup",
        "hooks": {
            "guard": "--cfg rrtk_verif",
            "enable": "RUSTFLAGS=\"--cfg rrtk_verif\" when building /verif/harness against /repo (path dependency); Miri and sanitizer lanes build with the guard off",
            "baseline_off_cmd": "cd /repo && cargo test --workspace --no-fail-fast --offline",
            "source_commits": hooks_commits,
            "add_only": True,
        },
        "engines": [
            {"name": "rrtk_mon", "path": "/verif/harness", "serves_properties": [c["property_id"] for c in checks],
             "kind_free_text": "cargo package of runtime monitors (one binary per property) that drive the real rrtk crate at its public API with generated inputs / histories and check every step against an oracle; driven by the python script /verif/check which shards, merges, applies known_findings.json and writes evidence"},
        ],
        "checks": checks,
        "not_applicable": na,
        "notes": "Technique family: runtime monitoring and sanitizers. Verdicts are three-valued: exit 0 held, exit 1 VIOLATION, exit 2 INCONCLUSIVE (monitor does not build against the tree, watchdog, coverage floor not met). See DESIGN.md.",
    }
    with open(os.path.join(C.ROOT, "MANIFEST.json"), "w") as fh:
        json.dump(man, fh, indent=1)
    print("checks:", len(checks), "not_applicable:", len(na))


DEFAULT_LEVEL_TEXT = ("Exploration by runtime monitoring: the real crate is executed on generated inputs/histories (finite sub-spaces enumerated "
                      "exhaustively, infinite ones sampled with stratified seeded generators) and an independent oracle checks every step. "
                      "It says 'held on the executions observed', which is the strongest statement this technique family can make; the evidence "
                      "file lists how many distinct non-trivial cases were observed.")

if __name__ == "__main__":
    main()
