"""C16 — three lanes: (1) native poison differential (hooks on), (2) Miri over the reached unsafe code
(hooks off), (3) lifetime probes: safe programs that try to outlive a device with one of its terminal
references (rejected by the borrow checker => holds; compiles => run under Miri)."""
import json, os, re, sys
from concurrent.futures import ThreadPoolExecutor
import common as C

NIGHTLY = "nightly"
PROBES = os.path.join(C.ROOT, "probes", "lifetimes")
PRETTY = {
    "invert_get_terminal_1": "Invert::get_terminal_1", "invert_get_terminal_2": "Invert::get_terminal_2",
    "geartrain_get_terminal_1": "GearTrain::get_terminal_1", "geartrain_get_terminal_2": "GearTrain::get_terminal_2",
    "axle_get_terminal": "Axle::get_terminal",
    "differential_get_side_1": "Differential::get_side_1", "differential_get_side_2": "Differential::get_side_2",
    "differential_get_sum": "Differential::get_sum",
    "actuatorwrapper_get_terminal": "ActuatorWrapper::get_terminal",
    "getterstatedevicewrapper_get_terminal": "GetterStateDeviceWrapper::get_terminal",
    "pidwrapper_get_terminal": "PIDWrapper::get_terminal",
}
BORROWCK = {"E0597", "E0505", "E0515", "E0716", "E0499", "E0502", "E0521", "E0506", "E0503", "E0713", "E0712", "E0310", "E0759", "E0106", "E0621", "E0495", "E0623", "E0700", "E0726"}


def miri(pkg, target, binname, args=(), flags="", timeout=1200):
    env = C.base_env()
    env["CARGO_TARGET_DIR"] = target
    if flags:
        env["MIRIFLAGS"] = flags
    cmd = ["cargo", f"+{NIGHTLY}", "miri", "run", "--offline", "--quiet", "--bin", binname, "--"] + list(args)
    return C.run(cmd, cwd=pkg, env=env, timeout=timeout)


def ub_signature(stderr, prefix):
    """Normalise a Miri diagnostic to kind + first frame inside /repo (no line numbers)."""
    m = re.search(r"error: (Undefined Behavior|unsupported operation|memory leaked|the evaluated program [a-z ]+)[: ]*(.*)", stderr)
    if not m:
        return None, None
    head, msg = m.group(1), m.group(2)
    low = (head + " " + msg).lower()
    if "leaked" in low:
        kind = "leak"
    elif "uninit" in low:
        kind = "uninitialised-read"
    elif "dangling" in low or "use-after-free" in low or "has been freed" in low:
        kind = "dangling"
    elif "out-of-bounds" in low or "out of bounds" in low:
        kind = "out-of-bounds"
    elif "data race" in low:
        kind = "data-race"
    elif "tag" in low or "borrow" in low or "protect" in low:
        kind = "aliasing"
    elif "deadlock" in low:
        kind = "deadlock"
    else:
        kind = re.sub(r"[^a-z ]", "", low)[:40].strip().replace(" ", "-")
    frame = "?"
    fm = re.search(r"^\s*\d+: (.+)\n\s+at (/repo/src/[^:\s]+)", stderr, re.M)
    if fm:
        fn = fm.group(1)
        ty = re.search(r"rrtk::(?:[a-z_0-9]+::)*([A-Za-z_0-9]+)", fn)
        meth = re.findall(r"::([A-Za-z_0-9]+)", fn)
        name = (ty.group(1) if ty else "") + ("::" + meth[-1] if meth and (not ty or meth[-1] != ty.group(1)) else "")
        frame = fm.group(2).replace("/repo/", "") + ":" + name
    else:
        fm = re.search(r"--> (/repo/src/[^:\s]+)", stderr)
        if fm:
            frame = fm.group(1).replace("/repo/", "")
    return f"{prefix}/{kind}/{frame}", (head + ": " + msg)[:300]


def miri_lane(tier, v, flags_list, max_arity):
    target = os.path.join(C.BUILD, "miri")
    # first run doubles as the build step (serial), the rest run in parallel
    jobs = []
    nsh = 6
    for sc in ("nary-sum", "nary-product"):
        for i in range(nsh):
            jobs.append((sc, [sc, str(max_arity), str(i), str(nsh)]))
    for sc in ("terminal", "axle", "devices", "wrappers", "to_dyn"):
        jobs.append((sc, [sc, str(max_arity)]))
    total_calls = 0
    executions = 0
    diagnostics = 0
    for flags in flags_list:
        rc, out, err, to = miri(C.HARNESS, target, "c16_miri", ["terminal", "2"], flags)
        if to:
            raise C.Inconclusive("Miri build/run watchdog fired")
        if "MIRI-DONE" not in out and "Undefined Behavior" not in err:
            raise C.Inconclusive("c16_miri does not build/run under Miri against the current tree:\n" + err[-2500:])

        def one(job):
            sc, args = job
            return sc, args, miri(C.HARNESS, target, "c16_miri", args, flags)

        with ThreadPoolExecutor(max_workers=C.NCPU) as ex:
            results = list(ex.map(one, jobs))
        for sc, args, (rc, out, err, to) in results:
            mode = "tree-borrows" if "tree" in flags else "stacked-borrows"
            if to:
                v.inconclusive.append(f"Miri watchdog fired on scenario {sc}")
                continue
            executions += 1
            v.distinct.add(f"miri:{mode}:{' '.join(args)}")
            m = re.search(r"MIRI-DONE \S+ calls=(\d+) panics=(\d+)", out)
            if m:
                total_calls += int(m.group(1))
            for line in out.splitlines():
                if line.startswith("MIRI-PANIC") or line.startswith("MIRI-MISMATCH"):
                    kind = "panic" if line.startswith("MIRI-PANIC") else "mismatch"
                    v.add_violation(f"C16/miri-lane/{kind}/{sc}", line[:600], "miri", sub=sc)
            sig, msg = ub_signature(err, "C16/miri")
            if sig:
                diagnostics += 1
                v.add_violation(sig, f"scenario {' '.join(args)} ({mode}): {msg}\n" + err[-1500:], "miri", sub=sc)
            elif not m:
                v.inconclusive.append(f"Miri scenario {sc} ended without MIRI-DONE and without a diagnostic (rc={rc}): {err[-400:]}")
    v.evaluations += total_calls
    v.lanes["miri"] = {"interpreted_calls": total_calls, "processes": executions, "diagnostics": diagnostics,
                       "flags": flags_list or ["(default: stacked borrows)"], "max_arity": max_arity}
    v.samples.append({"lane": "miri", "sub": "nary-sum", "case": f"cargo +nightly miri run --bin c16_miri -- nary-sum {max_arity} 0 6  (every absent/present/error pattern of SumStream<f32|Quantity, N>, N<={max_arity})"})


def scan_accessors():
    """accessors in the current source that hand out `&'a RefCell<Terminal>`; any without a probe => inconclusive."""
    found = set()
    for rel in ("src/devices.rs", "src/devices/wrappers.rs"):
        p = os.path.join(C.REPO, rel)
        if not os.path.exists(p):
            continue
        text = open(p).read()
        cur = None
        for line in text.splitlines():
            m = re.match(r"\s*impl<[^>]*>\s+(\w+)<", line)
            if m and " for " not in line:
                cur = m.group(1)
            m = re.search(r"pub fn (\w+)\s*\(\s*&self[^)]*\)\s*->\s*&'?\w*\s*RefCell<Terminal", line)
            if m and cur:
                found.add(f"{cur}::{m.group(1)}")
    return found


# the compile error each raw-pointer probe must be rejected WITH (any other error means the probe no longer tests its point)
MUSTREJECT_CODES = {
    "mustreject_reference_from_unsafe_enum": "E0308",  # only the reflexive From<T> for T exists: mismatched types
    "mustreject_reference_into_from_unsafe_enum": "E0277",
    "mustreject_reference_from_ptr_safe_call": "E0133",
    "mustreject_unsafe_enum_borrow_safe_call": "E0133",
}


def probe_lane(v):
    tdir = os.path.join(C.BUILD, "probes")
    env = C.base_env()
    env["CARGO_TARGET_DIR"] = tdir
    rc, out, err, to = C.run(["cargo", "build", "--offline", "--bins", "--keep-going", "--message-format=json"], cwd=PROBES, env=env, timeout=1200)
    if to:
        raise C.Inconclusive("probe build watchdog fired")
    status = {}
    for line in out.splitlines():
        try:
            m = json.loads(line)
        except Exception:
            continue
        if m.get("reason") == "compiler-message" and m["message"]["level"] == "error":
            code = (m["message"].get("code") or {}).get("code")
            status.setdefault(m["target"]["name"], []).append(code or "no-code")
        if m.get("reason") == "compiler-artifact" and m["target"]["kind"] == ["bin"]:
            status.setdefault(m["target"]["name"], []).append("BUILT")
    names = sorted(f[:-3] for f in os.listdir(os.path.join(PROBES, "src", "bin")) if f.endswith(".rs"))
    if not any("BUILT" in s for s in status.values()) and "error" in err and not status:
        raise C.Inconclusive("probe crate does not build at all:\n" + err[-2000:])
    built = [n for n in names if "BUILT" in status.get(n, []) and not n.startswith("mustreject_")]
    verdicts = {}
    mtarget = os.path.join(C.BUILD, "probes-miri")
    if built:  # serial first run = build step
        miri(PROBES, mtarget, built[0])

    def one(n):
        return n, miri(PROBES, mtarget, n, timeout=600)

    with ThreadPoolExecutor(max_workers=C.NCPU) as ex:
        runs = dict(ex.map(one, built))
    for n in names:
        st = status.get(n, [])
        codes = [c for c in st if c != "BUILT"]
        ctrl = n.startswith("control_")
        if n.startswith("mustreject_"):
            want = MUSTREJECT_CODES.get(n)
            if "BUILT" in st:
                verdicts[n] = "VIOLATION compiles"
                family = "unsound-safe-constructor" if want else "unsound-auto-trait"
                v.add_violation(f"C16/{family}/{n[len('mustreject_'):]}", f"safe probe program probes/lifetimes/src/bin/{n}.rs must be rejected by the compiler (a Reference can hold an Rc / raw pointer) but it compiles", "probes", sub=n)
            elif codes and want and want not in codes:
                # rejected, but not for the reason the probe is about (renamed path, changed signature ...): vacuous
                verdicts[n] = f"inconclusive: rejected with {','.join(sorted(set(map(str, codes))))}, expected {want}"
                v.inconclusive.append(f"probe {n}: {verdicts[n]}")
            elif codes:
                verdicts[n] = "rejected by the compiler: " + ",".join(sorted(set(map(str, codes))))
            else:
                verdicts[n] = "inconclusive: not built, no diagnostics"
                v.inconclusive.append(f"probe {n}: {verdicts[n]}")
            v.evaluations += 1
            v.distinct.add("probe:" + n)
            continue
        if n in runs:
            rc, out, err, to = runs[n]
            sig, msg = ub_signature(err, "x")
            ran = re.search(r"PROBE-RAN (.*)", out)
            if to:
                verdicts[n] = "inconclusive: watchdog"
            elif n.startswith("drop_"):
                verdicts[n] = "VIOLATION dangling: " + msg if sig else ("ran clean: " + (ran.group(1) if ran else "no output"))
            elif n.startswith("move_"):
                if sig:
                    verdicts[n] = "VIOLATION dangling: " + msg
                elif ran and "ptr_eq=false" in ran.group(1):
                    verdicts[n] = "VIOLATION stale reference to moved-from storage: " + ran.group(1)
                else:
                    verdicts[n] = "ran clean: " + (ran.group(1) if ran else "no output")
            else:
                verdicts[n] = ("control ran clean" if (ran and not sig) else "CONTROL-BROKEN: " + (msg or err[-300:]))
        elif codes and all(c in BORROWCK for c in codes):
            verdicts[n] = "rejected by the borrow checker: " + ",".join(sorted(set(codes)))
        elif codes:
            verdicts[n] = "inconclusive: compile errors " + ",".join(str(c) for c in sorted(set(map(str, codes))))
        else:
            verdicts[n] = "inconclusive: not built, no diagnostics"
        # ---- fold into the verdict
        v.evaluations += 1
        v.distinct.add("probe:" + n)
        val = verdicts[n]
        if ctrl:
            expect_reject = n.startswith("control_reject")
            good = val.startswith("rejected") if expect_reject else val.startswith("control ran clean")
            if not good:
                v.inconclusive.append(f"control probe {n} did not behave as it must ({val}): the probe machinery cannot be trusted")
        elif val.startswith("VIOLATION"):
            mode, key = n.split("_", 1)
            v.add_violation(f"C16/dangling/{PRETTY.get(key, key)}/{mode}", f"safe probe program probes/lifetimes/src/bin/{n}.rs compiles under #![forbid(unsafe_code)]; {val}", "probes", sub=n)
        elif val.startswith("inconclusive"):
            v.inconclusive.append(f"probe {n}: {val}")
    unprobed = sorted(scan_accessors() - set(PRETTY.values()))
    if unprobed:
        v.inconclusive.append("terminal accessors in the source without a lifetime probe: " + ", ".join(unprobed))
    v.lanes["probes"] = {"programs": len(names), "verdicts": verdicts, "accessors_in_source": sorted(scan_accessors())}
    v.samples.append({"lane": "probes", "sub": "drop_invert_get_terminal_1", "case": open(os.path.join(PROBES, "src", "bin", "drop_invert_get_terminal_1.rs")).read()})


def run(prop, spec, tier, seed, v):
    import props
    try:
        props.native(prop, spec, tier, seed, v, binname="c16", hooks=True, lane="poison")
    except C.MonitorCrash as e:
        v.evaluations += 1
        v.add_violation(f"C16/crash/rc={e.rc}", "poison-lane monitor process died (signal / abort): memory corruption in the code under test? " + str(e), "poison")
    # the same differential in an optimized build (debug assertions off): a bounds or validity check demoted to
    # debug_assert! only shows here
    try:
        props.native(prop, spec, tier, seed + 1000003, v, binname="c16", hooks=True, lane="poison-release", release_checked=True)
    except C.MonitorCrash as e:
        v.evaluations += 1
        v.add_violation(f"C16/crash/rc={e.rc}", "poison-lane monitor process (release build) died (signal / abort): memory corruption in the code under test? " + str(e), "poison-release")
    if tier == "quick":
        miri_lane(tier, v, [""], 8)
    else:
        miri_lane(tier, v, ["", "-Zmiri-tree-borrows"], 10)
    probe_lane(v)
