#!/bin/bash
# lib/seedtest_parallel.sh <N> [ids...] -- run lib/seedtest.py --write over the seeded changes in N private sandboxes
# (/tmp/s-st<k>, see lib/sandbox.sh) in parallel, then merge their RESULTS.json into /verif/seeded/RESULTS.json and
# regenerate seeded/README.md. Never touches /repo. Sandboxes are removed afterwards.
set -e
n=${1:-4}; shift || true
cd /verif
ids="$*"; [ -n "$ids" ] || ids=$(ls seeded | grep -E '^C[0-9]+-' )
declare -a L; i=0
for s in $ids; do k=$((i % n)); L[$k]="${L[$k]} $s"; i=$((i+1)); done
pids=""
for k in $(seq 0 $((n-1))); do
  lib/sandbox.sh /tmp/s-st$k >/dev/null
  rm -f /tmp/s-st$k/verif/seeded/RESULTS.json
  ( cd /tmp/s-st$k/verif && VERIF_REPO=/tmp/s-st$k/repo python3 lib/seedtest.py --write ${L[$k]} > /tmp/seedtest-par-$k.log 2>&1 ) &
  pids="$pids $!"
done
wait $pids
python3 lib/seedtest.py --merge $(for k in $(seq 0 $((n-1))); do echo /tmp/s-st$k/verif/seeded/RESULTS.json; done)
for k in $(seq 0 $((n-1))); do rm -rf /tmp/s-st$k; done
grep -c VIOLATION seeded/README.md
