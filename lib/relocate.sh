#!/bin/bash
# lib/relocate.sh <repo-copy>  -- ONLY for background sweeps in a snapshot of /verif (vp run --with-repo):
# points every path dependency of this copy at <repo-copy> instead of /repo, so that a long sweep is not
# disturbed by (and does not disturb) mutation experiments on /repo. Refuses to run in /verif itself.
set -e
here="$(cd "$(dirname "$0")/.." && pwd)"
[ "$here" = "/verif" ] && { echo "refusing to relocate /verif itself"; exit 2; }
[ -d "$1/src" ] || { echo "usage: relocate.sh <repo copy>"; exit 2; }
for f in harness/Cargo.toml probes/lifetimes/Cargo.toml probes/downstream/Cargo.toml cfgmatrix/Cargo.toml; do
  sed -i "s|path = \"/repo\"|path = \"$1\"|" "$here/$f"
done
echo "export VERIF_REPO=$1"
