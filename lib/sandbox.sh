#!/bin/bash
# lib/sandbox.sh <dir>  -- create or refresh a private sandbox <dir>/{repo,verif}: <dir>/repo is a clone of /repo's
# HEAD (mutants may be applied there with git apply / reverted with git checkout -- .), <dir>/verif is a copy of the
# CURRENT /verif sources whose path dependencies point at <dir>/repo. Build output stays in <dir>/verif/.build.
# Use:  cd <dir>/verif && VERIF_REPO=<dir>/repo ./check C02 --tier quick
# Never needed by a registered check; it exists so that experiments never touch /repo or /verif/.build.
set -e
d="$1"; [ -n "$d" ] || { echo "usage: sandbox.sh <dir>"; exit 2; }
case "$d" in /tmp/*) ;; *) echo "sandbox must live under /tmp"; exit 2;; esac
mkdir -p "$d"
if [ ! -d "$d/repo/.git" ]; then git clone -q /repo "$d/repo"; else git -C "$d/repo" checkout -q -- . && git -C "$d/repo" pull -q --ff-only || true; fi
mkdir -p "$d/verif"
rsync -a --exclude .build --exclude .git --exclude replays --exclude evidence /verif/ "$d/verif/"
mkdir -p "$d/verif/evidence"
"$d/verif/lib/relocate.sh" "$d/repo" | tail -1
