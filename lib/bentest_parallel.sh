#!/bin/bash
# lib/bentest_parallel.sh <N> [ids...] -- run lib/bentest.py over the property-preserving refactors in N private sandboxes
# (/tmp/s-${BT_PREFIX:-bt}<k>) in parallel and merge their results into /verif/seeded/benign/RESULTS.json. Never touches /repo.
set -e
n=${1:-5}; shift || true
cd /verif
ids="$*"; [ -n "$ids" ] || ids=$(ls seeded/benign | grep -E '^C[0-9]+-')
declare -a L; i=0
for s in $ids; do k=$((i % n)); L[$k]="${L[$k]} $s"; i=$((i+1)); done
pids=""
for k in $(seq 0 $((n-1))); do
  lib/sandbox.sh /tmp/s-${BT_PREFIX:-bt}$k >/dev/null
  ( cd /tmp/s-${BT_PREFIX:-bt}$k/verif && VERIF_REPO=/tmp/s-${BT_PREFIX:-bt}$k/repo python3 lib/bentest.py ${L[$k]} > /tmp/bentest-${BT_PREFIX:-bt}-$k.log 2>&1 ) &
  pids="$pids $!"
done
wait $pids
python3 - "$n" <<'PY'
import json, os, sys
n = int(sys.argv[1])
base = '/verif/seeded/benign/RESULTS.json'
r = json.load(open(base))
for k in range(n):
    pre = os.environ.get('BT_PREFIX', 'bt')
    d = json.load(open(f'/tmp/s-{pre}{k}/verif/seeded/benign/RESULTS.json'))
    log = open(f'/tmp/bentest-{pre}-{k}.log').read()
    for bid, v in d.items():
        if bid != '_note' and (bid + ' ') in log:
            r[bid] = v
json.dump(r, open(base, 'w'), indent=1, sort_keys=True)
print({k: list(v.keys()) for k, v in r.items() if v and k != '_note'})
PY
for k in $(seq 0 $((n-1))); do rm -rf /tmp/s-${BT_PREFIX:-bt}$k; done
