#!/usr/bin/env python3
"""lib/mutsweep.py <sandbox> <mutants.jsonl> <worker> <nworkers> <out.jsonl>
Mutation testing of the monitors themselves, in a private sandbox (lib/sandbox.sh): for every mutant assigned to this
worker apply it to <sandbox>/repo, run the quick checks (first the properties anchored in the mutated file, debug lane
only; a VIOLATION kills the mutant), and for mutants that every fast check lets pass: run the crate's own suites (a mutant
they kill is not interesting) and then ALL 20 checks with all lanes. One JSON line per mutant. Never touches /repo."""
import json, os, subprocess, sys
sb, mfile, w, nw, outp = sys.argv[1], sys.argv[2], int(sys.argv[3]), int(sys.argv[4]), sys.argv[5]
REPO, VERIF = os.path.join(sb, "repo"), os.path.join(sb, "verif")
props = [json.loads(l) for l in open(os.path.join(VERIF, "properties.jsonl"))]
FAST = ["C%02d" % i for i in range(1, 21) if i not in (16, 17, 19)]
ALL = ["C%02d" % i for i in range(1, 21)]


def sh(cmd, cwd=None, env=None, timeout=3600):
    e = dict(os.environ, VERIF_REPO=REPO, CARGO_NET_OFFLINE="true")
    e.update(env or {})
    try:
        p = subprocess.run(cmd, shell=True, cwd=cwd, env=e, capture_output=True, text=True, timeout=timeout)
        return p.returncode, p.stdout + p.stderr
    except subprocess.TimeoutExpired:
        return 124, "TIMEOUT"


def order_for(path):
    first = [p["id"] for p in props if path in p["anchors"]["files"]]
    return [c for c in first if c in FAST] + [c for c in FAST if c not in first]


def run_checks(ids, env):
    for c in ids:
        rc, out = sh(f"timeout 3000 ./check {c} --tier quick", cwd=VERIF, env=env)
        last = [l for l in out.splitlines() if l.startswith(("OK ", "VIOLATION", "INCONCLUSIVE"))]
        if "does not build" in out:
            return "invalid", c, []
        if any(l.startswith("VIOLATION") for l in last):
            sigs = [l.split("signature=")[1].split()[0] for l in out.splitlines() if "signature=" in l]
            return "killed", c, sigs[:4]
        if not last or not last[-1].startswith("OK "):
            return "inconclusive", c, [out[-300:]]
    return "survived", None, []


muts = [json.loads(l) for l in open(mfile)]
with open(outp, "a") as fh:
    for k, m in enumerate(muts):
        if k % nw != w:
            continue
        path = os.path.join(REPO, m["file"])
        lines = open(path).read().split("\n")
        if lines[m["line"] - 1] != m["old"]:
            continue
        orig = list(lines)
        lines[m["line"] - 1] = m["new"]
        open(path, "w").write("\n".join(lines))
        rec = dict(m, idx=k)
        try:
            st, by, sigs = run_checks(order_for(m["file"]), {"VERIF_LANES": "debug"})
            rec.update(stage1=st, by=by, sigs=sigs)
            if st == "survived":
                rc1, o1 = sh("timeout 1500 cargo test --offline 2>&1 | tail -30", cwd=REPO)
                rc2, o2 = sh("timeout 1500 cargo test --offline --features devices 2>&1 | tail -30", cwd=REPO)
                ok = all("test result: FAILED" not in o and "test result: ok" in o and "error" not in o.split("test result")[0][-1500:].lower() for o in (o1, o2))
                rec["suites"] = "green" if ok else "red"
                if ok:
                    st2, by2, sigs2 = run_checks(ALL, {})
                    rec.update(stage2=st2, by2=by2, sigs2=sigs2)
        finally:
            open(path, "w").write("\n".join(orig))
        fh.write(json.dumps(rec) + "\n")
        fh.flush()
