"""C17 — lanes: native single-threaded model, the same under Miri, concurrent lost-update monitor
(native stress, Miri -Zmiri-many-seeds, ThreadSanitizer in the thorough tier), and the downstream
caller-feature matrix for to_dyn!."""
import json, os, re
import common as C
from lane_c16 import miri, ub_signature

DOWN = os.path.join(C.ROOT, "probes", "downstream")
CONFIGS = [("none", ""), ("alloc", "alloc"), ("std", "std"), ("alloc+std", "alloc,std")]


def parse_conc(out, v, lane, per_variant):
    n = 0
    for line in out.splitlines():
        m = re.match(r"CONC (\S+) threads=(\d+) iters=(\d+) ok=(\w+) handoffs=(\d+) interleaving=(\w+) why=(.*)", line)
        if not m:
            continue
        n += 1
        name, th, it, ok, ho, il, why = m.groups()
        d = per_variant.setdefault(name, {"runs": 0, "handoffs": 0, "interleavings": set(), "increments": 0})
        d["runs"] += 1
        d["handoffs"] += int(ho)
        d["interleavings"].add(il)
        d["increments"] += int(th) * int(it)
        v.evaluations += int(th) * int(it)
        if ok != "true":
            v.add_violation(f"C17/lost-update/{name}", f"{lane}: {line}", lane, sub=name)
    return n


def run(prop, spec, tier, seed, v):
    import props
    # ---- 1. native single-threaded model
    props.native(prop, spec, tier, seed, v, binname="c17", hooks=True, lane="native")
    target = os.path.join(C.BUILD, "miri")
    # ---- 2. the same model, small budget, under Miri (use-after-free, leaks, aliasing)
    rc, out, err, to = miri(C.HARNESS, target, "c17", ["--miri", "--seed", str(seed), "--tier", "quick"], "", timeout=1500)
    if to:
        v.inconclusive.append("Miri watchdog fired on the single-threaded C17 model")
    else:
        sig, msg = ub_signature(err, "C17/miri")
        if sig:
            v.add_violation(sig, msg + "\n" + err[-1500:], "miri-seq")
        try:
            rep = json.loads(out[out.index("{"):])
            merged = C.merge_reports([rep])
            merged["floors"] = {}
            v.add_native(merged, lane="miri-seq")
        except Exception:
            if not sig:
                raise C.Inconclusive("c17 --miri produced no report and no diagnostic:\n" + err[-2000:])
    # ---- 3. concurrent: Miri over many schedules
    per_variant = {}
    nseeds = 16 if tier == "quick" else 64
    rc, out, err, to = miri(C.HARNESS, target, "c17_conc", ["3", "12"], f"-Zmiri-many-seeds=0..{nseeds}", timeout=3000)
    if to:
        v.inconclusive.append("Miri watchdog fired on the concurrent workload")
    else:
        got = parse_conc(out, v, "miri-conc", per_variant)
        sig, msg = ub_signature(err, "C17/miri")
        if sig:
            v.add_violation(sig, msg + "\n" + err[-1500:], "miri-conc")
        elif got == 0:
            raise C.Inconclusive("c17_conc produced nothing under Miri:\n" + err[-2000:])
    miri_stats = {k: {"runs": d["runs"], "handoffs": d["handoffs"], "distinct_interleavings": len(d["interleavings"])} for k, d in per_variant.items()}
    for k, d in per_variant.items():
        for il in d["interleavings"]:
            v.distinct.add(f"interleaving:{k}:{il}")
        if len(d["interleavings"]) < 2:
            v.inconclusive.append(f"Miri explored a single interleaving for {k}")
    # ---- 4. native stress
    binpath = C.build_monitor("c17_conc", hooks=False)
    th, it, reps = (4, 20000, 2) if tier == "quick" else (8, 100000, 5)
    native = {}
    for _ in range(reps):
        rc, out, err, to = C.run([binpath, str(th), str(it)], env=C.base_env(), timeout=1200)
        if to:
            v.inconclusive.append("native stress watchdog fired (deadlock?)")
            break
        if rc != 0:
            v.add_violation(f"C17/crash/native-stress/rc={rc}", err[-800:], "native-conc")
        parse_conc(out, v, "native-conc", native)
    # ---- 5. ThreadSanitizer (thorough only: ~35 s -Zbuild-std build)
    tsan = None
    if tier == "thorough":
        tdir = os.path.join(C.BUILD, "tsan")
        rc, out, err = C.cargo_build(C.HARNESS, tdir, ["-Zbuild-std", "--target", "x86_64-unknown-linux-gnu", "--bin", "c17_conc"], rustflags="-Zsanitizer=thread", toolchain="nightly")
        if rc != 0:
            v.inconclusive.append("ThreadSanitizer build failed: " + err[-600:])
        else:
            env = C.base_env()
            env["TSAN_OPTIONS"] = "halt_on_error=1 exitcode=66"
            ts = {}
            rc, out, err, to = C.run([os.path.join(tdir, "x86_64-unknown-linux-gnu", "debug", "c17_conc"), "8", "20000"], env=env, timeout=1800)
            parse_conc(out, v, "tsan", ts)
            if rc == 66 or "WARNING: ThreadSanitizer" in err:
                fm = re.search(r"#\d+ (\S*rrtk\S*) (/repo/src/[^:\s]+)", err)
                frame = (fm.group(2).replace("/repo/", "") if fm else "?")
                v.add_violation(f"C17/tsan/data-race/{frame}", err[:2500], "tsan")
            tsan = {k: {"increments": d["increments"], "handoffs": d["handoffs"]} for k, d in ts.items()}
    v.lanes["concurrent"] = {"miri_many_seeds": nseeds, "miri": miri_stats,
                             "native_stress": {k: {"increments": d["increments"], "handoffs": d["handoffs"], "distinct_interleavings": len(d["interleavings"])} for k, d in native.items()},
                             "tsan": tsan}
    v.samples.append({"lane": "concurrent", "sub": "log-checker", "case": "each thread: loop { g = reference.borrow_mut(); g.log.push((tid, g.counter)); g.counter += 1 }; offline: log[k].seen == k for all k, per-thread counts == iterations, final counter == threads*iterations"})
    # ---- 6. to_dyn! from calling crates with and without features named alloc / std
    matrix = {}
    tdir = os.path.join(C.BUILD, "downstream")
    for cname, feats in CONFIGS:
        env = C.base_env()
        env["CARGO_TARGET_DIR"] = tdir
        rc, out, err, to = C.run(["cargo", "run", "--offline", "--quiet", "--features", feats], cwd=DOWN, env=env, timeout=900)
        if not to and "TO_DYN-DONE" not in out and "error" in err and re.search(r"originates in the macro `(\$crate::)?to_dyn`|in this macro invocation|to_dyn!", err) and not re.search(r"error(\[E\d+\])?: .*\n\s*--> src/(?!main\.rs)", err):
            # the calling crate no longer COMPILES its to_dyn! calls under this feature set (the probe's own code uses nothing
            # else of the crate but the Reference constructors): "succeeds ... regardless of which features the calling
            # crate itself declares" is broken at build time
            first = next((l for l in err.splitlines() if l.startswith("error")), "error")
            v.evaluations += 1
            v.add_violation(f"C17/to_dyn/does-not-compile/caller-{cname}", f"caller features [{feats}]: a crate calling to_dyn! does not build: {first}\n" + err[-1500:], "downstream", sub=cname)
            continue
        if to or "TO_DYN-DONE" not in out:
            raise C.Inconclusive(f"downstream probe (caller features {cname}) did not build/run:\n" + err[-2000:])
        has = set(feats.split(",")) if feats else set()
        for m in re.finditer(r"TO_DYN (\w+) (\S.*)", out):
            var, res = m.group(1), m.group(2).strip()
            if var == "DONE":
                continue
            matrix.setdefault(var, {})[cname] = res
            v.evaluations += 1
            v.distinct.add(f"to_dyn:{var}:{cname}")
            if res.startswith("panic"):
                need = {"RcRefCell": "alloc", "PtrRwLock": "std"}.get(var)
                if need and need not in has:
                    v.add_violation(f"C17/to_dyn/{var}/caller-without-feature-{need}", f"caller features [{feats}]: to_dyn!(Tr, <{var} reference>) -> {res}", "downstream", sub=cname)
                else:
                    v.add_violation(f"C17/to_dyn/{var}/panics", f"caller features [{feats}]: to_dyn!(Tr, <{var} reference>) -> {res}", "downstream", sub=cname)
            elif res.startswith("alias-broken"):
                v.add_violation(f"C17/to_dyn-not-aliasing/{var}/downstream", f"caller features [{feats}]: {res}", "downstream", sub=cname)
    for var in ("Ptr", "RcRefCell", "PtrRwLock"):
        if len(matrix.get(var, {})) != 4 and not any(x["sig"].startswith("C17/to_dyn/does-not-compile") for x in v.violations):
            v.inconclusive.append(f"downstream matrix incomplete for {var}: {matrix.get(var)}")
    v.lanes["downstream_to_dyn_matrix"] = matrix
