//! Two sections added for behaviours that short random histories cannot reach:
//! * `long_runs`  — one stream instance driven for 300..600 consecutive present samples at a fixed
//!   small step (lengths straddle 256 and 512, the natural places for a buffer cap), window longer
//!   than the whole run and window of ~100 samples; output printed every 10th step and at the end.
//! * `interference` — powf must be a pure function: consecutive ExponentStream reads over operand
//!   pairs whose bit patterns collide under XOR ((a,b),(b,a); (x,y),(x^m,y^m)), on one stream object
//!   and alternating between two; and two EWMA streams updated alternately.  Each value is printed
//!   as class P (std vs libm) and checked in-build (class S, bit-exact) against a fresh stream asked
//!   in isolation / a twin updated alone.
use crate::scalars::pick_unit;
use crate::streams::CratePow;
use crate::util::*;
use rrtk::streams::control::*;
use rrtk::streams::math::*;
use rrtk::*;

fn ulp_of(m: f32) -> f32 {
    let m = m.abs().max(f32::MIN_POSITIVE);
    let e = (m.to_bits() >> 23) as i32 - 127;
    (2.0f32).powi((e - 23).max(-149))
}
/// Compact output line(s): the value when present (class E or P), the category otherwise.
fn emit_f(tr: &mut Tr, tag: &str, o: &Out<f32>, p_mag: Option<f32>) {
    match o {
        Ok(Some(d)) => match p_mag {
            None => tr.f2(tag, ".x", 'E', d.value),
            Some(m) => tr.pm(tag, ".x", d.value, m),
        },
        Ok(None) => tr.w(tag, "none"),
        Err(e) => tr.w(tag, err_word(e)),
    }
}
fn q_to_f(o: Out<Quantity>) -> Out<f32> {
    match o {
        Ok(Some(d)) => Ok(Some(Datum::new(d.time, d.value.value))),
        Ok(None) => Ok(None),
        Err(e) => Err(e),
    }
}

// =============================================================================================
pub fn long_runs(tr: &mut Tr, g: &mut G, pw: &CratePow) {
    let n = 300 + g.usize(301); // 300..=600
    let dt = g.step(100_000, 20_000_000); // fixed step 0.1 ms .. 20 ms
    let t0 = g.range(0, 1_000_000_000_000);
    let amp = g.pos(1e-2, 1e1);
    let mut x = g.val(1e2);
    let xs: Vec<f32> = (0..n)
        .map(|_| {
            x += amp * g.uniform(-1.0, 1.0);
            x
        })
        .collect();
    let (u, _, _) = pick_unit(g);
    let printed = |k: usize| k % 10 == 9 || k + 1 == n;
    tr.i("long.n", n as i64);
    tr.i("long.dt", dt);
    // ---- MovingAverageStream: window longer than the run, and window of ~100 samples
    for (wtag, window) in [("whole", (n as i64 + 50) * dt), ("w100", 100 * dt + dt / 2)] {
        let src = Src::<f32>::new();
        let srcq = Src::<Quantity>::new();
        let (tf, tq) = (format!("long.mavg.f32.{}", wtag), format!("long.mavg.q.{}", wtag));
        guarded(tr, &tf, |tr| {
            let mut sf = MovingAverageStream::new(src.dynref(), Time(window));
            let mut sq = MovingAverageStream::new(srcq.dynref(), Time(window));
            for (k, &v) in xs.iter().enumerate() {
                let t = t0 + (k as i64 + 1) * dt;
                src.some(t, v);
                srcq.some(t, Quantity::new(v, u));
                let rf = sf.update();
                let rq = sq.update();
                if printed(k) {
                    if rf.is_err() || rq.is_err() {
                        tr.noe(&tf, ".upd", &rf);
                        tr.noe(&tq, ".upd", &rq);
                    }
                    emit_f(tr, &tf, &sf.get(), None);
                    emit_f(tr, &tq, &q_to_f(sq.get()), None);
                }
            }
            tr.out_f(&format!("{}.last", tf), &sf.get());
            tr.out_q(&format!("{}.last", tq), &sq.get());
        });
    }
    // ---- EWMAStream (class P, magnitude inflated by 1/lambda: with a constant step the same powf
    //      value is used at every update, so a 1-ulp std/libm difference in it accumulates to
    //      2*ulp*|range|/lambda) and the in-build one-step law (class S)
    {
        let lam = g.pos(0.02, 0.5) as f64;
        let dts = dt as f64 / 1e9;
        let sm = ((1.0 - (1.0 - lam).powf(1.0 / dts)) as f32).clamp(1e-6, 0.999_999);
        let src = Src::<f32>::new();
        let srcq = Src::<Quantity>::new();
        guarded(tr, "long.ewma", |tr| {
            let mut sf = EWMAStream::new(src.dynref(), sm);
            let mut sq = EWMAStream::new(srcq.dynref(), sm);
            let mut prev: [Option<f32>; 2] = [None, None];
            let mut mag = 0.0f32;
            let dtf = f32::from(Quantity::from(Time(dt)));
            let l = 1.0 - pw.powf(1.0 - sm, dtf);
            // the lambda actually in effect (the clamp on the smoothing constant can make it much
            // smaller than the target when the step is short)
            let lam_act = (1.0 - ((1.0f32 - sm) as f64).powf(dts)).max(1e-6);
            let infl = (1.0 / lam_act) as f32;
            for (k, &v) in xs.iter().enumerate() {
                let t = t0 + (k as i64 + 1) * dt;
                src.some(t, v);
                srcq.some(t, Quantity::new(v, u));
                let _ = sf.update();
                let _ = sq.update();
                mag = mag.max(v.abs());
                let outs = [sf.get(), q_to_f(sq.get())];
                for (j, tag) in ["long.ewma.f32", "long.ewma.q"].into_iter().enumerate() {
                    let got = match &outs[j] {
                        Ok(Some(d)) => d.value,
                        _ => f32::NAN,
                    };
                    if printed(k) {
                        if k == 0 {
                            emit_f(tr, tag, &outs[j], None);
                        } else {
                            emit_f(tr, tag, &outs[j], Some(mag * infl));
                        }
                        if let Some(px) = prev[j] {
                            let want = px * (1.0 - l) + v * l;
                            let ok = (got - want).abs() <= 8.0 * ulp_of(px.abs().max(v.abs()));
                            tr.s(&format!("{}.law", tag), ok, got, want);
                        }
                    }
                    prev[j] = if got.is_nan() { None } else { Some(got) };
                }
            }
        });
    }
    // ---- IntegralStream
    {
        let srcq = Src::<Quantity>::new();
        guarded(tr, "long.integral", |tr| {
            let mut s = IntegralStream::new(srcq.dynref());
            for (k, &v) in xs.iter().enumerate() {
                srcq.some(t0 + (k as i64 + 1) * dt, Quantity::new(v, u));
                let _ = s.update();
                if printed(k) {
                    emit_f(tr, "long.integral", &q_to_f(s.get()), None);
                }
            }
            tr.out_q("long.integral.last", &s.get());
        });
    }
    // ---- PIDControllerStream
    {
        let k3 = PIDKValues::new(g.val(10.0), g.val(10.0), g.val(1.0));
        let sp = g.val(1e2);
        let src = Src::<f32>::new();
        guarded(tr, "long.pid", |tr| {
            let mut s = PIDControllerStream::new(src.dynref(), sp, k3);
            for (k, &v) in xs.iter().enumerate() {
                src.some(t0 + (k as i64 + 1) * dt, v);
                let _ = s.update();
                if printed(k) {
                    emit_f(tr, "long.pid", &s.get(), None);
                }
            }
            tr.out_f("long.pid.last", &s.get());
        });
    }
    // ---- CommandPID
    {
        let kv = PositionDerivativeDependentPIDKValues::new(
            PIDKValues::new(g.val(10.0), g.val(10.0), g.val(1.0)),
            PIDKValues::new(g.val(10.0), g.val(10.0), g.val(1.0)),
            PIDKValues::new(g.val(10.0), g.val(10.0), g.val(1.0)),
        );
        let c = g.cmd(1e2);
        let src = Src::<State>::new();
        guarded(tr, "long.cmdpid", |tr| {
            let mut s = CommandPID::new(src.dynref(), c, kv);
            for (k, &v) in xs.iter().enumerate() {
                let pv = if k == 0 { v } else { xs[k - 1] };
                src.some(t0 + (k as i64 + 1) * dt, State::new_raw(v, v - pv, amp));
                let _ = s.update();
                if printed(k) {
                    emit_f(tr, "long.cmdpid", &s.get(), None);
                }
            }
            tr.out_f("long.cmdpid.last", &s.get());
        });
    }
}

// =============================================================================================
type DynExp = ExponentStream<dyn Getter<f32, E>, dyn Getter<f32, E>, E>;
struct Exp {
    b: Src<f32>,
    e: Src<f32>,
    s: DynExp,
}
impl Exp {
    fn new() -> Self {
        let (b, e) = (Src::<f32>::new(), Src::<f32>::new());
        let s = ExponentStream::new(b.dynref(), e.dynref());
        Exp { b, e, s }
    }
    fn ask(&self, x: f32, y: f32) -> f32 {
        self.b.some(0, x);
        self.e.some(0, y);
        match self.s.get() {
            Ok(Some(d)) => d.value,
            _ => f32::NAN,
        }
    }
}
/// The value a FRESH stream returns for (x, y) when asked in isolation, after an unrelated call.
fn isolated(x: f32, y: f32) -> f32 {
    let fresh = Exp::new();
    let tag = x.to_bits() ^ y.to_bits();
    let (mut w1, mut w2) = (1.7f32, 0.3f32);
    if w1.to_bits() ^ w2.to_bits() == tag {
        w1 = 2.9;
        w2 = 0.6;
    }
    let _ = fresh.ask(w1, w2);
    fresh.ask(x, y)
}
fn moderate_pair(x: f32, y: f32) -> bool {
    x.is_finite() && y.is_finite() && x >= 1e-3 && x <= 1e2 && y >= 1e-3 && y <= 8.0
}
/// (x2, y2) = (x ^ m, y ^ m) on the bit patterns, both positive, finite and moderate.
fn xor_partner(g: &mut G, x: f32, y: f32) -> (f32, f32) {
    for k in 0..24 {
        let r = g.below(1 << 32) as u32;
        // mostly masks on the low exponent bits and the mantissa; sometimes anything
        let m = if k % 3 == 2 { r } else { r & 0x03FF_FFFF };
        if m == 0 {
            continue;
        }
        let (x2, y2) = (f32::from_bits(x.to_bits() ^ m), f32::from_bits(y.to_bits() ^ m));
        if moderate_pair(x2, y2) {
            return (x2, y2);
        }
    }
    // exponent lsb flip: scales each operand by 2 or 1/2
    let m = 0x0080_0000u32;
    (f32::from_bits(x.to_bits() ^ m), f32::from_bits(y.to_bits() ^ m))
}
/// dt in seconds that survives the crate's ns -> f32 seconds conversion exactly: j / 2^q.
fn dt_exact(dt: f32) -> Option<i64> {
    let ns = dt as f64 * 1e9;
    if ns < 1e5 || ns > 6.4e10 || ns.fract() != 0.0 {
        return None;
    }
    let ns = ns as i64;
    if (ns as f32) as f64 != ns as f64 || (ns as f32) / 1_000_000_000.0 != dt {
        return None;
    }
    Some(ns)
}
/// Two (base, dt) pairs with bits(b1)^bits(dt1) == bits(b2)^bits(dt2), realisable as EWMA
/// (smoothing = 1 - base exactly, dt an exact number of ns).  Falls back to the textbook collision.
fn ewma_collision(g: &mut G) -> ((f32, i64), (f32, i64)) {
    for _ in 0..32 {
        let b1 = g.range(1, 63) as f32 / 64.0;
        let dt1 = g.range(1, 8) as f32 / (1u32 << g.range(0, 9)) as f32;
        let m = (g.range(1, 7) as u32) << 23;
        let b2 = f32::from_bits(b1.to_bits() ^ m);
        let dt2 = f32::from_bits(dt1.to_bits() ^ m);
        let ok = b2 > 0.0 && b2 < 1.0 && 1.0 - (1.0 - b2) == b2 && 1.0 - (1.0 - b1) == b1 && (b1, dt1) != (b2, dt2);
        if let (true, Some(n1), Some(n2)) = (ok, dt_exact(dt1), dt_exact(dt2)) {
            return ((b1, n1), (b2, n2));
        }
    }
    ((0.5, 750_000_000), (0.125, 187_500_000))
}

pub fn interference(tr: &mut Tr, g: &mut G) {
    let a = g.pos(0.05, 8.0);
    let b = g.pos(0.05, 8.0);
    let x = g.pos(1e-2, 5e1);
    let y = g.pos(1e-2, 4.0);
    let (x2, y2) = xor_partner(g, x, y);
    let seqs: [(&str, Vec<(f32, f32)>); 3] = [
        ("pow.seq.swap", vec![(a, b), (b, a), (a, b), (a, a), (b, b), (b, a)]),
        ("pow.seq.xor", vec![(x, y), (x2, y2), (x, y), (x2, y2)]),
        ("pow.seq.scaled", vec![(0.5, 0.75), (0.125, 0.1875), (0.5, 0.75), (0.25, 0.375), (0.125, 0.1875)]),
    ];
    guarded(tr, "pow.seq", |tr| {
        for (tag, seq) in &seqs {
            // same stream object re-fed
            let one = Exp::new();
            let got: Vec<f32> = seq.iter().map(|&(p, q)| one.ask(p, q)).collect();
            // alternating between two stream objects
            let (s1, s2) = (Exp::new(), Exp::new());
            let got2: Vec<f32> = seq.iter().enumerate().map(|(i, &(p, q))| if i % 2 == 0 { s1.ask(p, q) } else { s2.ask(p, q) }).collect();
            for (mode, vals) in [(".one", &got), (".two", &got2)] {
                let t = format!("{}{}", tag, mode);
                for (i, &(p, q)) in seq.iter().enumerate() {
                    tr.pm(&t, ".x", vals[i], vals[i]);
                    let want = isolated(p, q);
                    tr.s(&format!("{}.pure", t), cbits(vals[i]) == cbits(want), vals[i], want);
                }
            }
        }
    });
    // ---- two EWMA streams updated alternately vs twins updated alone
    let ((b1, n1), (b2, n2)) = ewma_collision(g);
    let rounds = 4;
    let va: Vec<f32> = (0..=rounds).map(|_| g.val(1e3)).collect();
    let vb: Vec<f32> = (0..=rounds).map(|_| g.val(1e3)).collect();
    let (ta0, tb0) = (g.range(0, 1_000_000_000_000), g.range(0, 1_000_000_000_000));
    guarded(tr, "ewma.alt", |tr| {
        let mk = |sm: f32| {
            let src = Src::<f32>::new();
            let s = EWMAStream::new(src.dynref(), sm);
            (src, s)
        };
        let val = |o: Out<f32>| match o {
            Ok(Some(d)) => d.value,
            _ => f32::NAN,
        };
        let (sa, sb) = (1.0 - b1, 1.0 - b2);
        // alternately: A, B, A, B, ...
        let (srca, mut ea) = mk(sa);
        let (srcb, mut eb) = mk(sb);
        let mut alt_a = Vec::new();
        let mut alt_b = Vec::new();
        for k in 0..=rounds {
            srca.some(ta0 + k as i64 * n1, va[k]);
            let _ = ea.update();
            alt_a.push(val(ea.get()));
            srcb.some(tb0 + k as i64 * n2, vb[k]);
            let _ = eb.update();
            alt_b.push(val(eb.get()));
        }
        // twins, each updated alone
        let (srca2, mut ea2) = mk(sa);
        let alone_a: Vec<f32> = (0..=rounds)
            .map(|k| {
                srca2.some(ta0 + k as i64 * n1, va[k]);
                let _ = ea2.update();
                val(ea2.get())
            })
            .collect();
        let (srcb2, mut eb2) = mk(sb);
        let alone_b: Vec<f32> = (0..=rounds)
            .map(|k| {
                srcb2.some(tb0 + k as i64 * n2, vb[k]);
                let _ = eb2.update();
                val(eb2.get())
            })
            .collect();
        let mut mag = 0.0f32;
        for k in 0..=rounds {
            mag = mag.max(va[k].abs()).max(vb[k].abs());
            if k == 0 {
                tr.f("ewma.alt.a.first", alt_a[0]);
                tr.f("ewma.alt.b.first", alt_b[0]);
            } else {
                // up to `rounds` powf-dependent updates accumulate (2 ulp of magnitude each at most)
                let sc = ((k as u32 + 1) / 2).max(1).next_power_of_two() as f32;
                tr.pm("ewma.alt.a", ".x", alt_a[k], mag * sc);
                tr.pm("ewma.alt.b", ".x", alt_b[k], mag * sc);
            }
            tr.s("ewma.alt.a.twin", cbits(alt_a[k]) == cbits(alone_a[k]), alt_a[k], alone_a[k]);
            tr.s("ewma.alt.b.twin", cbits(alt_b[k]) == cbits(alone_b[k]), alt_b[k], alone_b[k]);
        }
    });
}
