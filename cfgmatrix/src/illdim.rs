//! Ill-dimensioned programs.  Executed ONLY when dimension checking is compiled out
//! (`size_of::<Unit>() == 0`): no unit mismatch may panic or be rejected, and every result must be
//! the plain f32 arithmetic on the values.  Every line is class U:
//! `<prog> <tag> U ok <value> expect=<value>` | `... U panic` | `... U rejected`.
use crate::scalars::{build_profile, gen_profile, observe_profile, profile_times};
use crate::util::*;
use core::cmp::Ordering;
use rrtk::devices::GearTrain;
use rrtk::streams::converters::*;
use rrtk::streams::math::*;
use rrtk::*;

/// A unit different from (m, s) by construction.
fn unit_not(g: &mut G, m: i8, s: i8) -> Unit {
    let mut m2 = g.range(-2, 2) as i8;
    let s2 = g.range(-2, 2) as i8;
    if m2 == m && s2 == s {
        m2 += 1;
    }
    Unit::new(m2, s2)
}
fn ord_code(o: Option<Ordering>) -> i64 {
    match o {
        Some(Ordering::Less) => -1,
        Some(Ordering::Equal) => 0,
        Some(Ordering::Greater) => 1,
        None => 2,
    }
}
fn uf(tr: &mut Tr, tag: &str, f: impl FnOnce() -> f32, expect: f32) {
    match catch(f) {
        None => tr.u_word(tag, "", "panic"),
        Some(v) => tr.u_f(tag, "", v, expect),
    }
}
fn ui(tr: &mut Tr, tag: &str, f: impl FnOnce() -> i64, expect: i64) {
    match catch(f) {
        None => tr.u_word(tag, "", "panic"),
        Some(v) => tr.u_i(tag, "", v, expect),
    }
}
fn secs(t: Time) -> f32 {
    // the crate's own Time -> seconds conversion (what it must be, to within two ulps, is C18's business; a benign
    // refactor that computes it through f64 raised a false alarm against a hard-coded `ns as f32 / 1e9` here)
    Quantity::from(t).value
}

pub fn illdim(tr: &mut Tr, g: &mut G) {
    let m1 = g.range(-2, 2) as i8;
    let s1 = g.range(-2, 2) as i8;
    let u1 = Unit::new(m1, s1);
    let u2 = unit_not(g, m1, s1);
    let a = g.val(1e4);
    let b = if g.chance(0.15) { a } else { g.val(1e4) };
    let (qa, qb) = (Quantity::new(a, u1), Quantity::new(b, u2));
    // ---- Quantity additive operators and comparisons with mismatched units
    uf(tr, "ill.q.add", || (qa + qb).value, a + b);
    uf(tr, "ill.q.sub", || (qa - qb).value, a - b);
    uf(tr, "ill.q.add_assign", || { let mut x = qa; x += qb; x.value }, a + b);
    uf(tr, "ill.q.sub_assign", || { let mut x = qa; x -= qb; x.value }, a - b);
    ui(tr, "ill.q.lt", || (qa < qb) as i64, (a < b) as i64);
    ui(tr, "ill.q.gt", || (qa > qb) as i64, (a > b) as i64);
    ui(tr, "ill.q.le", || (qa <= qb) as i64, (a <= b) as i64);
    ui(tr, "ill.q.ge", || (qa >= qb) as i64, (a >= b) as i64);
    ui(tr, "ill.q.partial_cmp", || ord_code(qa.partial_cmp(&qb)), ord_code(a.partial_cmp(&b)));
    ui(tr, "ill.q.eq", || (qa == qb) as i64, (a == b) as i64);
    ui(tr, "ill.q.ne", || (qa != qb) as i64, (a != b) as i64);
    ui(tr, "ill.q.eq.zeros", || (Quantity::new(0.0, u1) == Quantity::new(-0.0, u2)) as i64, 1);
    ui(tr, "ill.q.eq.nan", || (Quantity::new(f32::NAN, u1) == Quantity::new(f32::NAN, u2)) as i64, 0);
    // ---- Unit-level operators
    ui(tr, "ill.unit.add", || { let _ = u1 + u2; 0 }, 0);
    ui(tr, "ill.unit.sub", || { let _ = u1 - u2; 0 }, 0);
    ui(tr, "ill.unit.add_assign", || { let mut w = u1; w += u2; 0 }, 0);
    ui(tr, "ill.unit.sub_assign", || { let mut w = u1; w -= u2; 0 }, 0);
    ui(tr, "ill.unit.assert_eq_assume_ok", || { u1.assert_eq_assume_ok(&u2); 0 }, 0);
    ui(tr, "ill.unit.eq_assume_true", || u1.eq_assume_true(&u2) as i64, 1);
    ui(tr, "ill.unit.eq_assume_false", || u1.eq_assume_false(&u2) as i64, 0);
    // ---- mixed additive operators: Time wants seconds, DimensionlessInteger wants dimensionless
    let t = Time(g.range(-(1i64 << 40), 1i64 << 40));
    let n = DimensionlessInteger(g.range(-1000, 1000));
    let q_ns = Quantity::new(a, unit_not(g, 0, 1));
    let q_nd = Quantity::new(b, unit_not(g, 0, 0));
    uf(tr, "ill.mix.q_add_t", || (q_ns + t).value, a + secs(t));
    uf(tr, "ill.mix.q_sub_t", || (q_ns - t).value, a - secs(t));
    uf(tr, "ill.mix.t_add_q", || (t + q_ns).value, secs(t) + a);
    uf(tr, "ill.mix.t_sub_q", || (t - q_ns).value, secs(t) - a);
    uf(tr, "ill.mix.q_add_assign_t", || { let mut x = q_ns; x += t; x.value }, a + secs(t));
    uf(tr, "ill.mix.q_sub_assign_t", || { let mut x = q_ns; x -= t; x.value }, a - secs(t));
    uf(tr, "ill.mix.q_add_n", || (q_nd + n).value, b + n.0 as f32);
    uf(tr, "ill.mix.q_sub_n", || (q_nd - n).value, b - n.0 as f32);
    uf(tr, "ill.mix.n_add_q", || (n + q_nd).value, n.0 as f32 + b);
    uf(tr, "ill.mix.n_sub_q", || (n - q_nd).value, n.0 as f32 - b);
    uf(tr, "ill.mix.q_add_assign_n", || { let mut x = q_nd; x += n; x.value }, b + n.0 as f32);
    uf(tr, "ill.mix.q_sub_assign_n", || { let mut x = q_nd; x -= n; x.value }, b - n.0 as f32);
    // ---- State setters and constructor with wrong units
    let s0 = g.st(1e3);
    let x = g.val(1e3);
    for (tag, which) in [("ill.state.set_acc", 0), ("ill.state.set_vel", 1), ("ill.state.set_pos", 2)] {
        let wrong = match which {
            0 => unit_not(g, 1, -2),
            1 => unit_not(g, 1, -1),
            _ => unit_not(g, 1, 0),
        };
        let q = Quantity::new(x, wrong);
        let r = catch(|| {
            let mut s = s0;
            let r = match which {
                0 => s.set_constant_acceleration(q),
                1 => s.set_constant_velocity(q),
                _ => s.set_constant_position(q),
            };
            (r, s)
        });
        match r {
            None => tr.u_word(tag, "", "panic"),
            Some((Err(()), _)) => tr.u_word(tag, "", "rejected"),
            Some((Ok(()), s)) => {
                let want = match which {
                    0 => State::new_raw(s0.position, s0.velocity, x),
                    1 => State::new_raw(s0.position, x, 0.0),
                    _ => State::new_raw(x, 0.0, 0.0),
                };
                tr.u_f(tag, ".p", s.position, want.position);
                tr.u_f(tag, ".v", s.velocity, want.velocity);
                tr.u_f(tag, ".a", s.acceleration, want.acceleration);
            }
        }
    }
    {
        let (w0, w1, w2) = (unit_not(g, 1, 0), unit_not(g, 1, -1), unit_not(g, 1, -2));
        match catch(|| State::new(Quantity::new(s0.position, w0), Quantity::new(s0.velocity, w1), Quantity::new(s0.acceleration, w2))) {
            None => tr.u_word("ill.state.new", "", "panic"),
            Some(s) => {
                tr.u_f("ill.state.new", ".p", s.position, s0.position);
                tr.u_f("ill.state.new", ".v", s.velocity, s0.velocity);
                tr.u_f("ill.state.new", ".a", s.acceleration, s0.acceleration);
            }
        }
    }
    // ---- TryFrom with wrong units
    let xs = g.val(1e5);
    let xd = g.val(1e6);
    {
        let q = Quantity::new(xs, unit_not(g, 0, 1));
        match catch(|| Time::try_from(q)) {
            None => tr.u_word("ill.time_try_from", "", "panic"),
            Some(Err(())) => tr.u_word("ill.time_try_from", "", "rejected"),
            // (the conversion is specified as value*1e9 "to within one f32 rounding and 1 ns of truncation": whether the
            // fractional nanosecond is dropped or rounded is not fixed, so one f32 rounding of the product (|e| * 2^-22) plus 1 ns either way counts as the plain result)
            Some(Ok(t)) => { let e = (xs * 1_000_000_000.0) as i64; tr.u_i("ill.time_try_from", "", t.0, if ((t.0 - e).abs() as f64) <= 1.0 + (e.abs() as f64) / 4194304.0 { t.0 } else { e }) }
        }
        let q = Quantity::new(xd, unit_not(g, 0, 0));
        match catch(|| DimensionlessInteger::try_from(q)) {
            None => tr.u_word("ill.int_try_from", "", "panic"),
            Some(Err(())) => tr.u_word("ill.int_try_from", "", "rejected"),
            Some(Ok(n)) => tr.u_i("ill.int_try_from", "", n.0, xd as i64),
        }
    }
    // ---- to-state converters fed wrongly dimensioned quantities; expectation = the same build's
    //      stream fed the same values with the right unit (plain arithmetic is unit-blind)
    let h = history(g, 6, |g| g.val(1e3));
    for (tag, right, m, s) in [
        ("ill.acc_to_state", MILLIMETER_PER_SECOND_SQUARED, 1i8, -2i8),
        ("ill.vel_to_state", MILLIMETER_PER_SECOND, 1, -1),
        ("ill.pos_to_state", MILLIMETER, 1, 0),
    ] {
        let wrong = unit_not(g, m, s);
        let run = |unit: Unit| -> Option<Vec<Out<State>>> {
            catch(|| {
                let src = Src::<Quantity>::new();
                let mut outs = Vec::new();
                macro_rules! go {
                    ($s:expr) => {{
                        let mut st = $s;
                        for ev in &h {
                            src.set(match ev {
                                Ev::Some(t, x) => Ok(Some(Datum::new(Time(*t), Quantity::new(*x, unit)))),
                                Ev::None => Ok(None),
                                Ev::Err(e) => Err(Error::Other(*e)),
                            });
                            let _ = st.update();
                            outs.push(st.get());
                        }
                    }};
                }
                match m * 10 + s {
                    8 => go!(AccelerationToState::new(src.dynref())),
                    9 => go!(VelocityToState::new(src.dynref())),
                    _ => go!(PositionToState::new(src.dynref())),
                }
                outs
            })
        };
        let want = run(right);
        let got = run(wrong);
        match (got, want) {
            (None, _) => tr.u_word(tag, "", "panic"),
            (Some(_), None) => tr.u_word(tag, ".twin", "panic"),
            (Some(got), Some(want)) => {
                for (o, w) in got.iter().zip(want.iter()) {
                    match (o, w) {
                        (Ok(Some(d)), Ok(Some(e))) => {
                            tr.u_i(tag, ".t", d.time.0, e.time.0);
                            tr.u_f(tag, ".p", d.value.position, e.value.position);
                            tr.u_f(tag, ".v", d.value.velocity, e.value.velocity);
                            tr.u_f(tag, ".a", d.value.acceleration, e.value.acceleration);
                        }
                        (o, w) => {
                            let cat = |x: &Out<State>| match x {
                                Ok(Some(_)) => 0i64,
                                Ok(None) => 1,
                                Err(_) => 2,
                            };
                            tr.u_i(tag, ".cat", cat(o), cat(w));
                        }
                    }
                }
            }
        }
    }
    // ---- sums of mismatched quantities through the streams
    {
        let (x, y) = (Src::<Quantity>::new(), Src::<Quantity>::new());
        x.some(10, qa);
        y.some(20, qb);
        uf(
            tr,
            "ill.sum_stream",
            || match SumStream::new([x.dynref(), y.dynref()]).get() {
                Ok(Some(d)) => d.value.value,
                _ => f32::NAN,
            },
            a + b,
        );
        uf(
            tr,
            "ill.sum2",
            || match Sum2::new(x.dynref(), y.dynref()).get() {
                Ok(Some(d)) => d.value.value,
                _ => f32::NAN,
            },
            a + b,
        );
        uf(
            tr,
            "ill.difference",
            || match DifferenceStream::new(x.dynref(), y.dynref()).get() {
                Ok(Some(d)) => d.value.value,
                _ => f32::NAN,
            },
            a - b,
        );
    }
    // ---- GearTrain::with_ratio with a non-dimensionless quantity: ratio = the plain value
    {
        let r = g.nz(1e2);
        let s = g.st(1e3);
        let wrong = unit_not(g, 0, 0);
        let run = |dev: &mut GearTrain<'_, E>| -> State {
            let t1 = dev.get_terminal_1();
            let t2 = dev.get_terminal_2();
            let _ = <Terminal<E> as Settable<Datum<State>, E>>::set(&mut t1.borrow_mut(), Datum::new(Time(5), s));
            let _ = dev.update();
            match <Terminal<E> as Settable<Datum<State>, E>>::get_last_request(&t2.borrow()) {
                Some(d) => d.value,
                None => State::new_raw(f32::NAN, f32::NAN, f32::NAN),
            }
        };
        let want = catch(|| run(&mut GearTrain::<E>::with_ratio_raw(r))).unwrap_or(State::new_raw(f32::NAN, f32::NAN, f32::NAN));
        match catch(|| {
            let mut dev = GearTrain::<E>::with_ratio(Quantity::new(r, wrong));
            run(&mut dev)
        }) {
            None => tr.u_word("ill.gear_train.with_ratio", "", "panic"),
            Some(got) => {
                tr.u_f("ill.gear_train.with_ratio", ".p", got.position, want.position);
                tr.u_f("ill.gear_train.with_ratio", ".v", got.velocity, want.velocity);
                tr.u_f("ill.gear_train.with_ratio", ".a", got.acceleration, want.acceleration);
            }
        }
    }
    // ---- MotionProfile::new with wrongly dimensioned limits: same profile as with the right units
    {
        let c = gen_profile(g);
        let times = profile_times(g, &c);
        let (wv, wa) = (unit_not(g, 1, -1), unit_not(g, 1, -2));
        let want = build_profile(&c);
        let got = catch(|| MotionProfile::new(c.start, c.end, Quantity::new(c.max_vel, wv), Quantity::new(c.max_acc, wa)));
        match (got, want) {
            (None, None) => tr.u_i("ill.motion_profile.new", "", 0, 0), // infeasible move: panics with right units too
            (None, Some(_)) => tr.u_word("ill.motion_profile.new", "", "panic"),
            (Some(_), None) => tr.u_i("ill.motion_profile.new", "", 1, 0),
            (Some(got), Some(want)) => {
                // compare the two through the accessors, on a scratch trace
                let mut t1 = Tr::new();
                let mut t2 = Tr::new();
                let r1 = catch(|| observe_profile(&mut t1, "x", &got, &times));
                let r2 = catch(|| observe_profile(&mut t2, "x", &want, &times));
                if r1.is_none() && r2.is_some() {
                    tr.u_word("ill.motion_profile.accessors", "", "panic");
                } else {
                    tr.u_i("ill.motion_profile.accessors", "", (t1.buf == t2.buf) as i64, 1);
                }
            }
        }
    }
}

/// The same comparisons, conversions and setters as api.rs, with wrong units, on the edge pools.
pub fn illdim_edges(tr: &mut Tr, g: &mut G, full: bool) {
    use crate::api::{eq_mask, f32_conv_pool, f32_edge_pool, f32_pairs, ord_mask};
    let m1 = g.range(-2, 2) as i8;
    let s1 = g.range(-2, 2) as i8;
    let u1 = Unit::new(m1, s1);
    let u2 = unit_not(g, m1, s1);
    for (p, q) in f32_pairs(g, full) {
        let (qa, qb) = (Quantity::new(p, u1), Quantity::new(q, u2));
        ui(tr, "ill.cmp.eq", || eq_mask(&qa, &qb), eq_mask(&p, &q));
        ui(tr, "ill.cmp.ord", || ord_mask(&qa, &qb), ord_mask(&p, &q));
        let (da, db) = (Datum::new(Time(3), qa), Datum::new(Time(3), qb));
        ui(tr, "ill.cmp.datum_eq", || eq_mask(&da, &db), eq_mask(&p, &q));
    }
    let (wd, ws) = (unit_not(g, 0, 0), unit_not(g, 0, 1));
    for x in f32_conv_pool(g, full) {
        // "never rejected on a unit mismatch" can only be observed for values the conversion accepts with the RIGHT unit:
        // finite and well inside the i64 range (an implementation may refuse NaN / values at or beyond 2^63 whatever
        // the unit - a benign refactor doing exactly that raised a false alarm here)
        if !(x.is_finite() && x.abs() < 9.0e9) {
            continue;
        }
        match catch(|| DimensionlessInteger::try_from(Quantity::new(x, wd))) {
            None => tr.u_word("ill.edge.int_try_from", "", "panic"),
            Some(Err(())) => tr.u_word("ill.edge.int_try_from", "", "rejected"),
            Some(Ok(n)) => tr.u_i("ill.edge.int_try_from", "", n.0, x as i64),
        }
        match catch(|| Time::try_from(Quantity::new(x, ws))) {
            None => tr.u_word("ill.edge.time_try_from", "", "panic"),
            Some(Err(())) => tr.u_word("ill.edge.time_try_from", "", "rejected"),
            Some(Ok(t)) => { let e = (x * 1_000_000_000.0) as i64; tr.u_i("ill.edge.time_try_from", "", t.0, if ((t.0 - e).abs() as f64) <= 1.0 + (e.abs() as f64) / 4194304.0 { t.0 } else { e }) }
        }
    }
    let s0 = g.st(1e3);
    let wrong = [unit_not(g, 1, -2), unit_not(g, 1, -1), unit_not(g, 1, 0)];
    for x in f32_edge_pool(g, full) {
        for (which, tag) in ["ill.edge.set_acc", "ill.edge.set_vel", "ill.edge.set_pos"].into_iter().enumerate() {
            let q = Quantity::new(x, wrong[which]);
            let r = catch(|| {
                let mut s = s0;
                let r = match which {
                    0 => s.set_constant_acceleration(q),
                    1 => s.set_constant_velocity(q),
                    _ => s.set_constant_position(q),
                };
                (r, s)
            });
            match r {
                None => tr.u_word(tag, "", "panic"),
                Some((Err(()), _)) => tr.u_word(tag, "", "rejected"),
                Some((Ok(()), s)) => {
                    let want = match which {
                        0 => State::new_raw(s0.position, s0.velocity, x),
                        1 => State::new_raw(s0.position, x, 0.0),
                        _ => State::new_raw(x, 0.0, 0.0),
                    };
                    tr.u_f(tag, ".p", s.position, want.position);
                    tr.u_f(tag, ".v", s.velocity, want.velocity);
                    tr.u_f(tag, ".a", s.acceleration, want.acceleration);
                }
            }
        }
    }
}
