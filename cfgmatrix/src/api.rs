//! Edge pools over the value types' public API: every comparison / equality trait, every
//! From / Into / TryFrom conversion, every State / Command setter and accessor, on pools that include
//! bit-equal values, +-0, neighbours one ulp apart, values closer than f32::EPSILON in absolute terms,
//! NaN / infinities, and integers / floats around 2^24, 2^31, 2^32, 2^53, 2^62, 2^63, 1e12.
//! All lines are class E (bit-identical in all seven builds) unless said otherwise.
//!
//! Coverage audit of src/dimensions.rs, state.rs, command.rs, datum.rs (grep `impl .* for` / `pub fn`):
//! * arithmetic operator impls (Add/Sub/Mul/Div/Neg and the *Assign forms, incl. every cell of the three
//!   mixed Quantity/Time/DimensionlessInteger tables, State, Command, Datum<T>, Datum<State|Command> x f32):
//!   scalars.rs sections A-D on moderate random values; re-run here on the edge pool for Quantity, State, Command.
//! * PartialEq / PartialOrd / Eq / Ord (hand-written for Quantity, derived elsewhere): section `compare` below.
//! * From / Into / TryFrom: section `convert` below (Command::try_from(Quantity) and
//!   PositionDerivative::try_from(Unit) exist only with checking: class C lines in scalars.rs and here).
//! * constructors, setters, accessors (`Quantity::{new,dimensionless,abs}`, `Time::new`,
//!   `DimensionlessInteger::new`, `State::{new,new_raw,update,set_constant_*,set_constant_*_raw,get_*,get_value}`,
//!   `Command::{new,get_position,get_velocity,get_acceleration}`, `Datum::{new,replace_if_older_than}`,
//!   `OptionDatumExt`): scalars.rs + section `setters` below.
//! * `Unit::{new,eq_assume_true,assert_eq_assume_ok}` and the Unit operators: scalars.rs (outcome only: a unit
//!   is never printed); `Unit::{const_eq,const_assert_eq}`, `Unit: PartialEq` exist only with checking (class C).
//! Deliberately left out:
//! * `Unit::eq_assume_false` / `assert_eq_assume_not_ok` on well-dimensioned operands as class E: they are
//!   DOCUMENTED to differ between checked and unchecked builds (checked: behave like const_eq; unchecked: always
//!   false / always panic).  They are observed as class C (checked) and class U (unchecked, expected false).
//! * `Debug` of Unit, Quantity, Datum<Quantity>, MotionProfile: the text contains the unit fields, which do not
//!   exist in unchecked builds (documented representation difference, not a number).  Debug of the unit-free
//!   types is compared (hashed).
//! * equality of quantities with DIFFERENT units in the well-dimensioned section: ill-dimensioned by
//!   definition (class U covers it in the unchecked builds: plain f32 equality).
//! * integer arithmetic that overflows i64, integer division by zero, `-i64::MIN`: the debug build panics on
//!   overflow by language rule (overflow checks), which is not a feature-configuration difference.
use crate::scalars::pick_unit;
use crate::util::*;
use core::cmp::Ordering;
use rrtk::*;

fn ord_code(o: Option<Ordering>) -> i64 {
    match o {
        Some(Ordering::Less) => 0,
        Some(Ordering::Equal) => 1,
        Some(Ordering::Greater) => 2,
        None => 3,
    }
}
/// eq | ne<<1
pub fn eq_mask<T: PartialEq>(a: &T, b: &T) -> i64 {
    (a == b) as i64 | ((a != b) as i64) << 1
}
/// lt | le<<1 | gt<<2 | ge<<3 | partial_cmp<<4
pub fn ord_mask<T: PartialOrd>(a: &T, b: &T) -> i64 {
    (a < b) as i64 | ((a <= b) as i64) << 1 | ((a > b) as i64) << 2 | ((a >= b) as i64) << 3 | ord_code(a.partial_cmp(b)) << 4
}
fn fnv(s: &str) -> i64 {
    let mut h: u64 = 0xcbf29ce484222325;
    for b in s.bytes() {
        h = (h ^ b as u64).wrapping_mul(0x100000001b3);
    }
    (h >> 1) as i64
}

/// The fixed part of every pool gives the same answer in every program, so only every 8th program
/// (`full`) runs it completely; the others draw `keep` of the fixed entries at random and always add
/// the entries derived from random values.
fn thin<T: Copy>(g: &mut G, full: bool, fixed: Vec<T>, random: Vec<T>, keep: usize) -> Vec<T> {
    let mut v: Vec<T> = if full { fixed } else { (0..keep).map(|_| fixed[g.usize(fixed.len())]).collect() };
    v.extend(random);
    v
}
/// Pairs of f32 for comparisons: the fixed edge pairs plus pairs derived from random values.
pub fn f32_pairs(g: &mut G, full: bool) -> Vec<(f32, f32)> {
    let v = g.nz(1e4);
    let w = g.val(1e4);
    let s = g.pos(1e-10, 1e-7);
    let near1 = 1.0 + g.uniform(-0.5, 0.5);
    let fixed = vec![
        (1.0, 1.0),
        (0.0, -0.0),
        (1.0, 1.0 - f32::EPSILON / 2.0),
        (1e-8, 2e-8),
        (0.0, 1e-9),
        (-3e-8, 3e-8),
        (0.1, 0.1f32.next_up()),
        (0.0, f32::MIN_POSITIVE / 4.0),
        (f32::MAX, f32::MAX.next_down()),
        (f32::INFINITY, f32::INFINITY),
        (f32::NEG_INFINITY, f32::INFINITY),
        (f32::NAN, 1.0),
        (f32::NAN, f32::NAN),
    ];
    let random = vec![(v, v), (v, v.next_up()), (v, w), (v, -v), (s, s * 1.5), (-s, s), (near1, near1 + 5e-8), (near1, near1.next_down())];
    thin(g, full, fixed, random, 3)
}
pub fn i64_pairs(g: &mut G, full: bool) -> Vec<(i64, i64)> {
    let i = g.stamp_any();
    let j = g.range(-1_000_000, 1_000_000);
    let fixed = vec![(0, 0), (i64::MIN, i64::MAX), (i64::MAX, i64::MAX), (1 << 31, (1 << 31) - 1), (-1, 1)];
    let random = vec![(i, i), (i, i + 1), (i, -i), (j, j - 1), (i, j)];
    thin(g, full, fixed, random, 1)
}
/// f32 values for float -> integer conversions.
pub fn f32_conv_pool(g: &mut G, full: bool) -> Vec<f32> {
    let big = g.pos(1.0, 1e19) * if g.chance(0.5) { 1.0 } else { -1.0 };
    let mid = g.pos(1e9, 1e10) * if g.chance(0.5) { 1.0 } else { -1.0 };
    let frac = g.uniform(-1e4, 1e4);
    let p31 = 2147483648.0f32;
    let fixed = vec![
        p31,
        -p31,
        p31.next_down(),
        p31.next_up(),
        -p31.next_up(),
        3e9,
        -3e9,
        4294967296.0,
        9007199254740992.0,
        4.611686e18,
        9.223372e18,
        -9.223372e18,
        1e12,
        -1e12,
        1e19,
        -1e19,
        0.5,
        -0.5,
        1.5,
        -2.5,
        0.999,
        -0.0,
        1e-9,
        16777216.0,
        16777218.0,
        f32::NAN,
        f32::INFINITY,
        f32::NEG_INFINITY,
        f32::MAX,
    ];
    thin(g, full, fixed, vec![big, mid, frac], 4)
}
/// i64 values for integer -> float conversions and integer round trips.
pub fn i64_conv_pool(g: &mut G, full: bool) -> Vec<i64> {
    let fixed = vec![
        0,
        1,
        -1,
        (1 << 24) + 1,
        999_999_999,
        1_000_000_001,
        (1 << 31) - 1,
        1 << 31,
        -(1 << 31),
        1 << 32,
        (1 << 53) - 1,
        1 << 53,
        (1 << 53) + 1,
        1 << 62,
        -(1 << 62),
        1_000_000_000_000,
        -1_000_000_000_000,
        i64::MAX,
        i64::MIN,
    ];
    let random = vec![g.stamp_any(), g.range(-(1 << 40), 1 << 40), g.range(-(1 << 33), 1 << 33)];
    thin(g, full, fixed, random, 3)
}
/// f32 values handed to setters / constructors.
pub fn f32_edge_pool(g: &mut G, full: bool) -> Vec<f32> {
    let fixed = vec![0.0, -0.0, 1e-9, 2147483648.0, -1e30, f32::MAX, f32::NAN, f32::NEG_INFINITY];
    let random = vec![g.val(1e4)];
    thin(g, full, fixed, random, 2)
}

// =============================================================================================
// (a) comparisons
// =============================================================================================
pub fn compare(tr: &mut Tr, g: &mut G, full: bool) {
    let pairs = f32_pairs(g, full);
    let (u, _, _) = pick_unit(g);
    let c = g.val(1e3);
    let pd = g.pd();
    let pd2 = g.pd();
    let (t1, t2) = (g.range(-1000, 1000), g.range(-1000, 1000));
    guarded(tr, "cmp.f32", |tr| {
        for &(p, q) in &pairs {
            let (qa, qb) = (Quantity::new(p, u), Quantity::new(q, u));
            tr.i("cmp.quantity.eq", eq_mask(&qa, &qb));
            tr.i("cmp.quantity.ord", ord_mask(&qa, &qb));
            tr.i("cmp.quantity.ord.rev", ord_mask(&qb, &qa));
            // State: one differing component at a time
            tr.i(
                "cmp.state.eq",
                eq_mask(&State::new_raw(p, c, c), &State::new_raw(q, c, c))
                    | eq_mask(&State::new_raw(c, p, c), &State::new_raw(c, q, c)) << 2
                    | eq_mask(&State::new_raw(c, c, p), &State::new_raw(c, c, q)) << 4,
            );
            tr.i("cmp.command.eq", eq_mask(&Command::new(pd, p), &Command::new(pd, q)) | eq_mask(&Command::new(pd, p), &Command::new(pd2, p)) << 2);
            // Datum<T>: same and different stamps
            let (ta, tb) = (Time(t1), Time(t2));
            tr.i("cmp.datum_f32.eq", eq_mask(&Datum::new(ta, p), &Datum::new(ta, q)) | eq_mask(&Datum::new(ta, p), &Datum::new(tb, p)) << 2);
            tr.i("cmp.datum_quantity.eq", eq_mask(&Datum::new(ta, qa), &Datum::new(ta, qb)) | eq_mask(&Datum::new(ta, qa), &Datum::new(tb, qa)) << 2);
            tr.i(
                "cmp.opt_datum_quantity.eq",
                eq_mask(&Some(Datum::new(ta, qa)), &Some(Datum::new(ta, qb))) | eq_mask(&Some(Datum::new(ta, qa)), &None) << 2,
            );
            tr.i("cmp.datum_state.eq", eq_mask(&Datum::new(ta, State::new_raw(p, c, c)), &Datum::new(ta, State::new_raw(q, c, c))));
            tr.i("cmp.datum_command.eq", eq_mask(&Datum::new(ta, Command::new(pd, p)), &Datum::new(ta, Command::new(pd, q))));
            tr.i("cmp.pid_k_values.eq", eq_mask(&PIDKValues::new(p, c, c), &PIDKValues::new(q, c, c)));
            tr.i(
                "cmp.terminal_data.eq",
                eq_mask(
                    &TerminalData { time: ta, command: Some(Command::new(pd, p)), state: Some(State::new_raw(c, p, c)) },
                    &TerminalData { time: ta, command: Some(Command::new(pd, q)), state: Some(State::new_raw(c, q, c)) },
                ),
            );
        }
    });
    let ipairs = i64_pairs(g, full);
    guarded(tr, "cmp.i64", |tr| {
        for &(a, b) in &ipairs {
            let (ta, tb) = (Time(a), Time(b));
            let (na, nb) = (DimensionlessInteger(a), DimensionlessInteger(b));
            tr.i("cmp.time.eq", eq_mask(&ta, &tb));
            tr.i("cmp.time.ord", ord_mask(&ta, &tb) | ord_code(Some(ta.cmp(&tb))) << 6);
            tr.i("cmp.time.max_min", ta.max(tb).0 / 2 + ta.min(tb).0 / 2);
            tr.i("cmp.int.eq", eq_mask(&na, &nb));
            tr.i("cmp.int.ord", ord_mask(&na, &nb) | ord_code(Some(na.cmp(&nb))) << 6);
            tr.i("cmp.datum_time.eq", eq_mask(&Datum::new(ta, 1u8), &Datum::new(tb, 1u8)));
        }
        for a in PDS {
            if !full {
                break;
            }
            for b in PDS {
                tr.i("cmp.position_derivative.eq", eq_mask(&a, &b));
            }
        }
        tr.i("cmp.piece.eq", eq_mask(&MotionProfilePiece::Complete, &MotionProfilePiece::BeforeStart) | eq_mask(&MotionProfilePiece::Complete, &MotionProfilePiece::Complete) << 2);
        tr.i("cmp.error.eq", eq_mask(&Error::<E>::Other(1), &Error::Other(2)) | eq_mask(&Error::<E>::FromNone, &Error::FromNone) << 2 | eq_mask(&Error::<E>::FromNone, &Error::Other(1)) << 4);
    });
    // MotionProfile equality: profiles planned from states that differ in one start component
    let end = 5.0 + g.uniform(0.0, 5.0);
    guarded(tr, "cmp.motion_profile", |tr| {
        if !full {
            return;
        }
        let plan = |p0: f32, v0: f32| {
            MotionProfile::new(
                State::new_raw(p0, v0, 0.0),
                State::new_raw(end, 0.0, 0.0),
                Quantity::new(1.0, MILLIMETER_PER_SECOND),
                Quantity::new(1.0, MILLIMETER_PER_SECOND_SQUARED),
            )
        };
        for (a, b) in [(0.0f32, 1e-9f32), (1e-8, 2e-8), (0.0, 0.0), (0.0, -0.0), (0.0, 1.0), (0.25, 0.25 + 2e-8)] {
            tr.i("cmp.motion_profile.eq.start_pos", eq_mask(&plan(a, 0.0), &plan(b, 0.0)));
            tr.i("cmp.motion_profile.eq.start_vel", eq_mask(&plan(0.0, a), &plan(0.0, b)));
        }
    });
    // Debug of the unit-free types (text hashed)
    guarded(tr, "dbg", |tr| {
        tr.i("dbg.time", fnv(&format!("{:?}", Time(t1))));
        tr.i("dbg.int", fnv(&format!("{:?}", DimensionlessInteger(t2))));
        tr.i("dbg.state", fnv(&format!("{:?}", State::new_raw(c, 1.0, -0.0))));
        tr.i("dbg.command", fnv(&format!("{:?}", Command::new(pd, c))));
        tr.i("dbg.datum", fnv(&format!("{:?}", Datum::new(Time(t1), c))));
        tr.i("dbg.pd_piece", fnv(&format!("{:?}{:?}{:?}", pd, MotionProfilePiece::EndAcceleration, Error::<E>::Other(2))));
    });
}

// =============================================================================================
// (b) conversions
// =============================================================================================
pub fn convert(tr: &mut Tr, g: &mut G, full: bool) {
    let fpool = f32_conv_pool(g, full);
    let ipool = i64_conv_pool(g, full);
    let rot = g.usize(3);
    guarded(tr, "conv.edge.f32", |tr| {
        for (ix, &x) in fpool.iter().enumerate() {
            match DimensionlessInteger::try_from(Quantity::dimensionless(x)) {
                Ok(n) => tr.i("conv.edge.int_try_from_q", n.0),
                Err(()) => tr.w("conv.edge.int_try_from_q", "rejected"),
            }
            let r: Result<DimensionlessInteger, ()> = Quantity::new(x, DIMENSIONLESS).try_into();
            match r {
                Ok(n) => tr.i("conv.edge.q_try_into_int", n.0),
                Err(()) => tr.w("conv.edge.q_try_into_int", "rejected"),
            }
            match Time::try_from(Quantity::new(x, SECOND)) {
                Ok(t) => tr.i("conv.edge.time_try_from_q", t.0),
                Err(()) => tr.w("conv.edge.time_try_from_q", "rejected"),
            }
            let r: Result<Time, ()> = Quantity::new(x, SECOND).try_into();
            match r {
                Ok(t) => tr.i("conv.edge.q_try_into_time", t.0),
                Err(()) => tr.w("conv.edge.q_try_into_time", "rejected"),
            }
            tr.f("conv.edge.f32_from_q", f32::from(Quantity::dimensionless(x)));
            let y: f32 = Quantity::new(x, SECOND).into();
            tr.f("conv.edge.q_into_f32", y);
            // one command kind per value, rotating (all three kinds are hit by every pool value over three
            // consecutive positions of the pool / programs)
            for pd in [PDS[(ix + rot) % 3]] {
                let c = Command::new(pd, x);
                tr.f("conv.edge.f32_from_command", f32::from(c));
                tr.f("conv.edge.q_from_command", Quantity::from(c).value);
                let q: Quantity = c.into();
                tr.q("conv.edge.command_into_q", q + State::default().get_value(pd));
                tr.w("conv.edge.pd_from_command", pd_word(c.into()));
            }
        }
    });
    guarded(tr, "conv.edge.i64", |tr| {
        for &i in &ipool {
            tr.q("conv.edge.q_from_time", Quantity::from(Time(i)));
            let q: Quantity = Time(i).into();
            tr.q("conv.edge.time_into_q", q + Quantity::new(0.0, SECOND));
            tr.q("conv.edge.q_from_int", Quantity::from(DimensionlessInteger(i)));
            let q: Quantity = DimensionlessInteger(i).into();
            tr.q("conv.edge.int_into_q", q + Quantity::dimensionless(0.0));
            tr.i("conv.edge.i64_from_time", i64::from(Time::from(i)) / 2 + i64::from(Time::new(i)) / 2);
            tr.i("conv.edge.i64_from_int", i64::from(DimensionlessInteger::from(i)) / 2 + i64::from(DimensionlessInteger::new(i)) / 2);
            let t: Time = i.into();
            let n: DimensionlessInteger = i.into();
            let (a, b): (i64, i64) = (t.into(), n.into());
            tr.i("conv.edge.i64_into", a / 2 + b / 2);
            // round trips through f32 seconds / f32 counts
            match Time::try_from(Quantity::from(Time(i))) {
                Ok(t) => tr.i("conv.edge.time_roundtrip", t.0),
                Err(()) => tr.w("conv.edge.time_roundtrip", "rejected"),
            }
            match DimensionlessInteger::try_from(Quantity::from(DimensionlessInteger(i))) {
                Ok(n) => tr.i("conv.edge.int_roundtrip", n.0),
                Err(()) => tr.w("conv.edge.int_roundtrip", "rejected"),
            }
        }
    });
    // State -> Command on zero / tiny / NaN patterns
    let comp = [0.0f32, -0.0, 1e-9, -3.0, f32::NAN, f32::MIN_POSITIVE / 2.0];
    let pats: Vec<State> = (0..10).map(|_| State::new_raw(comp[g.usize(6)], comp[g.usize(6)], comp[g.usize(6)])).collect();
    guarded(tr, "conv.edge.state", |tr| {
        for s in &pats {
            tr.cmd("conv.edge.command_from_state", Command::from(*s));
            let c: Command = (*s).into();
            tr.cmd("conv.edge.state_into_command", c);
        }
        for piece in [
            MotionProfilePiece::BeforeStart,
            MotionProfilePiece::InitialAcceleration,
            MotionProfilePiece::ConstantVelocity,
            MotionProfilePiece::EndAcceleration,
            MotionProfilePiece::Complete,
        ] {
            let r: Result<PositionDerivative, ()> = piece.try_into();
            tr.w("conv.edge.piece_try_into_pd", r.map(pd_word).unwrap_or("rejected"));
            let r: Result<Unit, ()> = piece.try_into();
            match (r, PositionDerivative::try_from(piece)) {
                (Ok(u), Ok(pd)) => tr.q("conv.edge.piece_try_into_unit", Quantity::new(1.0, u) + State::default().get_value(pd)),
                (Err(()), Err(())) => tr.w("conv.edge.piece_try_into_unit", "rejected"),
                _ => tr.w("conv.edge.piece_try_into_unit", "inconsistent"),
            }
        }
        for pd in PDS {
            let u: Unit = pd.into();
            tr.q("conv.edge.pd_into_unit", Quantity::new(2.0, u) + State::new_raw(1.0, 1.0, 1.0).get_value(pd));
        }
    });
    #[cfg(any(feature = "dim_check_release", all(debug_assertions, feature = "dim_check_debug")))]
    guarded(tr, "chk.conv.edge", |tr| {
        for (ix, &x) in fpool.iter().enumerate() {
            for pd in [PDS[(ix + rot) % 3]] {
                match Command::try_from(Quantity::new(x, Unit::from(pd))) {
                    Ok(c) => tr.cmd2("chk.conv.edge.cmd_try_from_q", "", 'C', c),
                    Err(()) => tr.w2("chk.conv.edge.cmd_try_from_q", "", 'C', "rejected"),
                }
            }
        }
    });
}

// =============================================================================================
// (c) setters, accessors, Neg and assign operators on the edge pool
// =============================================================================================
pub fn setters(tr: &mut Tr, g: &mut G, full: bool) {
    let pool = f32_edge_pool(g, full);
    let s0 = g.st(1e3);
    let k = g.nz(1e2);
    let rot = g.usize(3);
    guarded(tr, "set.edge", |tr| {
        for (ix, &x) in pool.iter().enumerate() {
            let mut s = s0;
            let r = s.set_constant_acceleration(Quantity::new(x, MILLIMETER_PER_SECOND_SQUARED));
            tr.w("set.edge.acc", if r.is_ok() { "ok" } else { "rejected" });
            tr.state("set.edge.acc", s);
            let mut s = s0;
            let r = s.set_constant_velocity(Quantity::new(x, MILLIMETER_PER_SECOND));
            tr.w("set.edge.vel", if r.is_ok() { "ok" } else { "rejected" });
            tr.state("set.edge.vel", s);
            let mut s = s0;
            let r = s.set_constant_position(Quantity::new(x, MILLIMETER));
            tr.w("set.edge.pos", if r.is_ok() { "ok" } else { "rejected" });
            tr.state("set.edge.pos", s);
            let mut s = s0;
            s.set_constant_acceleration_raw(x);
            s.set_constant_velocity_raw(x);
            tr.state("set.edge.raw_vel", s);
            s.set_constant_position_raw(x);
            tr.state("set.edge.raw_pos", s);
            let n = State::new(Quantity::new(x, MILLIMETER), Quantity::new(-x, MILLIMETER_PER_SECOND), Quantity::new(x, MILLIMETER_PER_SECOND_SQUARED));
            tr.state("set.edge.state_new", n);
            tr.q("set.edge.get_position", n.get_position() + Quantity::new(0.0, MILLIMETER));
            tr.q("set.edge.get_velocity", n.get_velocity() + Quantity::new(0.0, MILLIMETER_PER_SECOND));
            tr.q("set.edge.get_acceleration", n.get_acceleration() + Quantity::new(0.0, MILLIMETER_PER_SECOND_SQUARED));
            for pd in PDS {
                tr.q("set.edge.get_value", n.get_value(pd));
            }
            for pd in [PDS[(ix + rot) % 3]] {
                let c = Command::new(pd, x);
                tr.optq("set.edge.cmd_get_position", c.get_position());
                tr.optq("set.edge.cmd_get_velocity", c.get_velocity());
                tr.q("set.edge.cmd_get_acceleration", c.get_acceleration());
                tr.cmd("set.edge.cmd_neg", -c);
                let mut m = c;
                m += Command::new(pd, k);
                m -= Command::new(pd, x);
                m *= k;
                m /= k;
                tr.cmd("set.edge.cmd_assign_chain", m);
            }
            tr.state("set.edge.state_neg", -n);
            let mut m = n;
            m += s0;
            m -= n;
            m *= k;
            m /= k;
            tr.state("set.edge.state_assign_chain", m);
            let qx = Quantity::new(x, MILLIMETER);
            tr.q("set.edge.q_neg", -qx);
            tr.q("set.edge.q_abs", qx.abs());
            let mut qm = qx;
            qm += Quantity::new(k, MILLIMETER);
            qm -= qx;
            qm *= Quantity::dimensionless(k);
            qm /= Quantity::dimensionless(k);
            tr.q("set.edge.q_assign_chain", qm);
        }
    });
    // update(dt) over a pool of steps (|dt| <= 1e15 ns keeps everything finite for moderate states)
    let dts = [0i64, 1, -1, 1_000_000_000, -1_000_000_000, 1 << 31, (1 << 53) + 1, 1_000_000_000_000_000, g.range(-(1 << 40), 1 << 40)];
    guarded(tr, "set.edge.update", |tr| {
        for dt in dts {
            let mut s = s0;
            s.update(Time(dt));
            tr.state("set.edge.update", s);
        }
        let mut s = State::new_raw(f32::MAX, -0.0, 1e-9);
        s.update(Time(1_000_000_000));
        tr.state("set.edge.update.extreme", s);
    });
}
