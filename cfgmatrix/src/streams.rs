//! Every stream in rrtk::streams (and the getter adapters of the crate root) driven by scripted
//! histories of present / absent / Err(1) / Err(2) events.
use crate::scalars::{build_profile, gen_profile, pick_unit};
use crate::util::*;
use rrtk::streams::control::*;
use rrtk::streams::converters::*;
use rrtk::streams::flow::*;
use rrtk::streams::logic::*;
use rrtk::streams::math::*;
use rrtk::streams::*;
use rrtk::*;

/// The build's own powf, reached through the public ExponentStream on constant inputs.
pub struct CratePow {
    b: Src<f32>,
    e: Src<f32>,
    s: ExponentStream<dyn Getter<f32, E>, dyn Getter<f32, E>, E>,
}
impl CratePow {
    pub fn new() -> Self {
        let (b, e) = (Src::<f32>::new(), Src::<f32>::new());
        let s = ExponentStream::new(b.dynref(), e.dynref());
        CratePow { b, e, s }
    }
    pub fn powf(&self, x: f32, y: f32) -> f32 {
        self.b.some(0, x);
        self.e.some(0, y);
        match self.s.get() {
            Ok(Some(d)) => d.value,
            _ => f32::NAN,
        }
    }
}
fn ulp_of(m: f32) -> f32 {
    // spacing of f32 at magnitude m (m finite); smallest normal spacing below the normal range
    let m = m.abs().max(f32::MIN_POSITIVE);
    let e = (m.to_bits() >> 23) as i32 - 127;
    (2.0f32).powi((e - 23).max(-149))
}
fn n_events(g: &mut G) -> usize {
    4 + g.usize(5)
}
fn fval(g: &mut G) -> f32 {
    g.val(1e3)
}

/// Drive a one-input stream over a history: per event set the source, update, read.
fn drive<T: Clone + 'static, O, S: Getter<O, E> + Updatable<E> + ?Sized>(
    tr: &mut Tr,
    tag: &str,
    src: &Src<T>,
    hist: &[Ev<T>],
    s: &mut S,
    emit: impl Fn(&mut Tr, &str, &Out<O>),
) {
    for ev in hist {
        src.ev(ev);
        let r = s.update();
        tr.noe(tag, ".upd", &r);
        emit(tr, tag, &s.get());
    }
}
/// Drive a two-input stream.
fn drive2<T1: Clone + 'static, T2: Clone + 'static, O, S: Getter<O, E> + Updatable<E> + ?Sized>(
    tr: &mut Tr,
    tag: &str,
    s1: &Src<T1>,
    h1: &[Ev<T1>],
    s2: &Src<T2>,
    h2: &[Ev<T2>],
    s: &mut S,
    emit: impl Fn(&mut Tr, &str, &Out<O>),
) {
    for (e1, e2) in h1.iter().zip(h2.iter()) {
        s1.ev(e1);
        s2.ev(e2);
        let r = s.update();
        tr.noe(tag, ".upd", &r);
        emit(tr, tag, &s.get());
    }
}

// =============================================================================================
// control
// =============================================================================================
pub fn control(tr: &mut Tr, g: &mut G, pw: &CratePow) {
    // ---- PIDControllerStream
    {
        let n = n_events(g);
        let h = history(g, n + 2, fval);
        let k = PIDKValues::new(g.val(10.0), g.val(10.0), g.val(10.0));
        let sp = fval(g);
        let src = Src::<f32>::new();
        guarded(tr, "pid", |tr| {
            let mut s = PIDControllerStream::new(src.dynref(), sp, k);
            drive(tr, "pid", &src, &h, &mut s, |tr, t, o| tr.out_f(t, o));
            tr.f("pid.kvalues.evaluate", k.evaluate(sp, 1.5, -0.25));
        });
    }
    // ---- CommandPID
    {
        let n = n_events(g);
        let h = history(g, n + 3, |g| g.st(1e3));
        let kv = PositionDerivativeDependentPIDKValues::new(
            PIDKValues::new(g.val(10.0), g.val(10.0), g.val(10.0)),
            PIDKValues::new(g.val(10.0), g.val(10.0), g.val(10.0)),
            PIDKValues::new(g.val(10.0), g.val(10.0), g.val(10.0)),
        );
        let c0 = g.cmd(1e3);
        // scripted command changes: (step index, command)
        let mut sets = Vec::new();
        for i in 0..h.len() {
            if g.chance(0.15) {
                let c = if g.chance(0.4) { c0 } else { g.cmd(1e3) };
                sets.push((i, c));
            }
        }
        let src = Src::<State>::new();
        guarded(tr, "cmdpid", |tr| {
            let mut s = CommandPID::new(src.dynref(), c0, kv);
            for (i, ev) in h.iter().enumerate() {
                for (j, c) in &sets {
                    if *j == i {
                        let r = s.set(*c);
                        tr.noe("cmdpid", ".set", &r);
                    }
                }
                src.ev(ev);
                let r = s.update();
                tr.noe("cmdpid", ".upd", &r);
                tr.out_f("cmdpid", &s.get());
            }
            match s.get_last_request() {
                None => tr.w("cmdpid.last_request", "none"),
                Some(c) => tr.cmd("cmdpid.last_request", c),
            }
            for pd in PDS {
                tr.f("cmdpid.kvalues.evaluate", kv.evaluate(pd, 1.0, 0.5, -2.0));
                tr.f("cmdpid.kvalues.get", kv.get_k_values(pd).kd);
            }
        });
    }
    // ---- EWMAStream, f32 and Quantity, same history; class P after powf, class S self-check
    {
        let n = n_events(g);
        let h = history(g, n + 1, fval);
        // smoothing strictly inside (0,1): powf(1-s, 0) == 1 exactly in all three float back-ends,
        // so the first sample of a run is exact (class E)
        let sm = if g.chance(0.3) { (2.0f32).powi(-(g.range(1, 8) as i32)) } else { g.uniform(0.02, 0.98) };
        let (u, _, _) = pick_unit(g);
        let src = Src::<f32>::new();
        let srcq = Src::<Quantity>::new();
        guarded(tr, "ewma", |tr| {
            let mut sf = EWMAStream::new(src.dynref(), sm);
            let mut sq = EWMAStream::new(srcq.dynref(), sm);
            // monitor state: previous output and stamp of the current run, largest |input| of the run
            let mut prev: Option<(i64, f32)> = None;
            let mut prevq: Option<(i64, f32)> = None;
            let mut mag = 0.0f32;
            // powf-dependent updates so far in the current run: a 1-ulp std/libm difference in powf
            // moves each update by at most 2 ulp of the run's magnitude and these add up, so the
            // magnitude handed to the driver is scaled by the next power of two >= steps/2
            let mut steps = 0u32;
            let scale = |steps: u32| ((steps + 1) / 2).max(1).next_power_of_two() as f32;
            for ev in &h {
                src.ev(ev);
                srcq.set(match ev {
                    Ev::Some(t, x) => Ok(Some(Datum::new(Time(*t), Quantity::new(*x, u)))),
                    Ev::None => Ok(None),
                    Ev::Err(e) => Err(Error::Other(*e)),
                });
                let rf = sf.update();
                let rq = sq.update();
                tr.noe("ewma.f32", ".upd", &rf);
                tr.noe("ewma.q", ".upd", &rq);
                let of = sf.get();
                let oq: Out<f32> = match sq.get() {
                    Ok(Some(d)) => Ok(Some(Datum::new(d.time, d.value.value))),
                    Ok(None) => Ok(None),
                    Err(e) => Err(e),
                };
                match ev {
                    Ev::Err(_) => {
                        prev = None;
                        prevq = None;
                        mag = 0.0;
                        steps = 0;
                        tr.out_f("ewma.f32", &of);
                        tr.out_f("ewma.q", &oq);
                    }
                    Ev::None => {
                        // absent input: whatever the stream says carries no new arithmetic
                        match prev {
                            None => tr.out_f("ewma.f32", &of),
                            Some(_) => tr.out_f_p("ewma.f32", &of, mag * scale(steps)),
                        }
                        match prevq {
                            None => tr.out_f("ewma.q", &oq),
                            Some(_) => tr.out_f_p("ewma.q", &oq, mag * scale(steps)),
                        }
                    }
                    Ev::Some(t, x) => {
                        mag = mag.max(x.abs());
                        if prev.is_some() {
                            steps += 1;
                        }
                        for (tag, o, pv) in [("ewma.f32", &of, &mut prev), ("ewma.q", &oq, &mut prevq)] {
                            match *pv {
                                None => {
                                    // first sample of a run: exact
                                    tr.out_f(tag, o);
                                }
                                Some((pt, px)) => {
                                    tr.out_f_p(tag, o, mag * scale(steps));
                                    // in-build law: prev*(1-L)+new*L, L = 1 - powf(1-s, dt), same powf
                                    let dt = f32::from(Quantity::from(Time(*t - pt)));
                                    let l = 1.0 - pw.powf(1.0 - sm, dt);
                                    let want = px * (1.0 - l) + *x * l;
                                    let got = match o {
                                        Ok(Some(d)) => d.value,
                                        _ => f32::NAN,
                                    };
                                    let tol = 8.0 * ulp_of(px.abs().max(x.abs()));
                                    let ok = (got - want).abs() <= tol || (got.is_nan() && want.is_nan());
                                    tr.s(&format!("{}.law", tag), ok, got, want);
                                }
                            }
                            *pv = match o {
                                Ok(Some(d)) => Some((d.time.0, d.value)),
                                _ => None,
                            };
                        }
                    }
                }
            }
        });
    }
    // ---- MovingAverageStream, f32 and Quantity
    {
        let n = n_events(g);
        let h = history(g, n + 2, fval);
        let window = Time(g.step(1_000_000, 30_000_000_000));
        let (u, _, _) = pick_unit(g);
        let src = Src::<f32>::new();
        let srcq = Src::<Quantity>::new();
        let hq: Vec<Ev<Quantity>> = h
            .iter()
            .map(|e| match e {
                Ev::Some(t, x) => Ev::Some(*t, Quantity::new(*x, u)),
                Ev::None => Ev::None,
                Ev::Err(c) => Ev::Err(*c),
            })
            .collect();
        guarded(tr, "mavg.f32", |tr| {
            let mut s = MovingAverageStream::new(src.dynref(), window);
            drive(tr, "mavg.f32", &src, &h, &mut s, |tr, t, o| tr.out_f(t, o));
        });
        guarded(tr, "mavg.q", |tr| {
            let mut s = MovingAverageStream::new(srcq.dynref(), window);
            drive(tr, "mavg.q", &srcq, &hq, &mut s, |tr, t, o| tr.out_q(t, o));
            // output keeps the input's unit
            if let Ok(Some(d)) = s.get() {
                tr.q("mavg.q.unit_sum", d.value + Quantity::new(1.0, u));
            }
        });
    }
}

// =============================================================================================
// converters
// =============================================================================================
pub fn converters(tr: &mut Tr, g: &mut G) {
    let n = n_events(g);
    let h = history(g, n, fval);
    let src = Src::<f32>::new();
    let clock = TSrc::new(0);
    let nv = fval(g);
    guarded(tr, "none_to_error", |tr| {
        let mut s = NoneToError::new(src.dynref());
        drive(tr, "none_to_error", &src, &h, &mut s, |tr, t, o| tr.out_f(t, o));
    });
    guarded(tr, "none_to_value", |tr| {
        let mut s = NoneToValue::new(src.dynref(), clock.dynref(), nv);
        for (i, ev) in h.iter().enumerate() {
            src.ev(ev);
            if i % 4 == 3 {
                clock.err(2);
            } else {
                clock.set(1000 + i as i64);
            }
            tr.noe("none_to_value", ".upd", &s.update());
            tr.out_f("none_to_value", &s.get());
        }
    });
    // to-state converters: correctly dimensioned quantities
    let hq = history(g, n + 3, |g| g.val(1e3));
    for (tag, unit) in [
        ("acc_to_state", MILLIMETER_PER_SECOND_SQUARED),
        ("vel_to_state", MILLIMETER_PER_SECOND),
        ("pos_to_state", MILLIMETER),
    ] {
        let srcq = Src::<Quantity>::new();
        let hq: Vec<Ev<Quantity>> = hq
            .iter()
            .map(|e| match e {
                Ev::Some(t, x) => Ev::Some(*t, Quantity::new(*x, unit)),
                Ev::None => Ev::None,
                Ev::Err(c) => Ev::Err(*c),
            })
            .collect();
        guarded(tr, tag, |tr| match tag {
            "acc_to_state" => {
                let mut s = AccelerationToState::new(srcq.dynref());
                drive(tr, tag, &srcq, &hq, &mut s, |tr, t, o| tr.out_state(t, o));
            }
            "vel_to_state" => {
                let mut s = VelocityToState::new(srcq.dynref());
                drive(tr, tag, &srcq, &hq, &mut s, |tr, t, o| tr.out_state(t, o));
            }
            _ => {
                let mut s = PositionToState::new(srcq.dynref());
                drive(tr, tag, &srcq, &hq, &mut s, |tr, t, o| tr.out_state(t, o));
            }
        });
    }
    // float <-> quantity
    let (u, _, _) = pick_unit(g);
    guarded(tr, "float_to_quantity", |tr| {
        let mut s = FloatToQuantity::new(u, src.typed());
        drive(tr, "float_to_quantity", &src, &h, &mut s, |tr, t, o| tr.out_q(t, o));
        if let Ok(Some(d)) = s.get() {
            tr.q("float_to_quantity.unit_sum", d.value + Quantity::new(1.0, u));
        }
    });
    guarded(tr, "quantity_to_float", |tr| {
        let srcq = Src::<Quantity>::new();
        let mut s = QuantityToFloat::new(srcq.dynref());
        for ev in &h {
            srcq.set(match ev {
                Ev::Some(t, x) => Ok(Some(Datum::new(Time(*t), Quantity::new(*x, u)))),
                Ev::None => Ok(None),
                Ev::Err(e) => Err(Error::Other(*e)),
            });
            tr.noe("quantity_to_float", ".upd", &s.update());
            tr.out_f("quantity_to_float", &s.get());
        }
    });
}

// =============================================================================================
// flow + logic
// =============================================================================================
pub fn flow_logic(tr: &mut Tr, g: &mut G) {
    let n = n_events(g);
    let hc = history(g, n, |g| g.chance(0.5));
    let hc2 = history(g, n, |g| g.chance(0.5));
    let hx = history(g, n, fval);
    let hy = history(g, n, fval);
    let (c, c2, x, y) = (Src::<bool>::new(), Src::<bool>::new(), Src::<f32>::new(), Src::<f32>::new());
    guarded(tr, "if", |tr| {
        let mut s = IfStream::new(c.dynref(), x.dynref());
        drive2(tr, "if", &c, &hc, &x, &hx, &mut s, |tr, t, o| tr.out_f(t, o));
    });
    guarded(tr, "if_else", |tr| {
        let mut s = IfElseStream::new(c.dynref(), x.dynref(), y.dynref());
        for ((ec, ex), ey) in hc.iter().zip(hx.iter()).zip(hy.iter()) {
            c.ev(ec);
            x.ev(ex);
            y.ev(ey);
            tr.noe("if_else", ".upd", &s.update());
            tr.out_f("if_else", &s.get());
        }
    });
    guarded(tr, "freeze", |tr| {
        let mut s = FreezeStream::new(c.dynref(), x.dynref());
        drive2(tr, "freeze", &c, &hc, &x, &hx, &mut s, |tr, t, o| tr.out_f(t, o));
    });
    guarded(tr, "and", |tr| {
        let mut s = AndStream::new(c.dynref(), c2.dynref());
        drive2(tr, "and", &c, &hc, &c2, &hc2, &mut s, |tr, t, o| tr.out_b(t, o));
    });
    guarded(tr, "or", |tr| {
        let mut s = OrStream::new(c.dynref(), c2.dynref());
        drive2(tr, "or", &c, &hc, &c2, &hc2, &mut s, |tr, t, o| tr.out_b(t, o));
    });
    guarded(tr, "not", |tr| {
        let mut s = NotStream::new(c.dynref());
        drive(tr, "not", &c, &hc, &mut s, |tr, t, o| tr.out_b(t, o));
    });
}

// =============================================================================================
// math
// =============================================================================================
pub fn math(tr: &mut Tr, g: &mut G) {
    let n = n_events(g);
    let hx = history(g, n, fval);
    let hy = history(g, n, |g| g.nz(1e3));
    let hz = history(g, n, fval);
    let (x, y, z) = (Src::<f32>::new(), Src::<f32>::new(), Src::<f32>::new());
    let step3 = |i: usize| {
        x.ev(&hx[i]);
        y.ev(&hy[i]);
        z.ev(&hz[i]);
    };
    guarded(tr, "sum3", |tr| {
        let mut s = SumStream::new([x.dynref(), y.dynref(), z.dynref()]);
        for i in 0..n {
            step3(i);
            tr.noe("sum3", ".upd", &s.update());
            tr.out_f("sum3", &s.get());
        }
    });
    guarded(tr, "product3", |tr| {
        let mut s = ProductStream::new([x.dynref(), y.dynref(), z.dynref()]);
        for i in 0..n {
            step3(i);
            tr.noe("product3", ".upd", &s.update());
            tr.out_f("product3", &s.get());
        }
    });
    guarded(tr, "sum2", |tr| {
        let mut s = Sum2::new(x.dynref(), y.dynref());
        drive2(tr, "sum2", &x, &hx, &y, &hy, &mut s, |tr, t, o| tr.out_f(t, o));
    });
    guarded(tr, "difference", |tr| {
        let mut s = DifferenceStream::new(x.dynref(), y.dynref());
        drive2(tr, "difference", &x, &hx, &y, &hy, &mut s, |tr, t, o| tr.out_f(t, o));
    });
    guarded(tr, "product2", |tr| {
        let mut s = Product2::new(x.dynref(), y.dynref());
        drive2(tr, "product2", &x, &hx, &y, &hy, &mut s, |tr, t, o| tr.out_f(t, o));
    });
    guarded(tr, "quotient", |tr| {
        let mut s = QuotientStream::new(x.dynref(), y.dynref());
        drive2(tr, "quotient", &x, &hx, &y, &hy, &mut s, |tr, t, o| tr.out_f(t, o));
    });
    // Quantity payloads: sums need equal units, products multiply them
    let (u, _, _) = pick_unit(g);
    let (u2, _, _) = pick_unit(g);
    let toq = |h: &[Ev<f32>], u: Unit| -> Vec<Ev<Quantity>> {
        h.iter()
            .map(|e| match e {
                Ev::Some(t, v) => Ev::Some(*t, Quantity::new(*v, u)),
                Ev::None => Ev::None,
                Ev::Err(c) => Ev::Err(*c),
            })
            .collect()
    };
    let (qx, qy) = (Src::<Quantity>::new(), Src::<Quantity>::new());
    guarded(tr, "sum.q", |tr| {
        let (h1, h2) = (toq(&hx, u), toq(&hy, u));
        let mut s = SumStream::new([qx.dynref(), qy.dynref()]);
        drive2(tr, "sum.q", &qx, &h1, &qy, &h2, &mut s, |tr, t, o| tr.out_q(t, o));
        let mut s = Sum2::new(qx.dynref(), qy.dynref());
        drive2(tr, "sum2.q", &qx, &h1, &qy, &h2, &mut s, |tr, t, o| tr.out_q(t, o));
        let mut s = DifferenceStream::new(qx.dynref(), qy.dynref());
        drive2(tr, "difference.q", &qx, &h1, &qy, &h2, &mut s, |tr, t, o| tr.out_q(t, o));
    });
    guarded(tr, "product.q", |tr| {
        let (h1, h2) = (toq(&hx, u), toq(&hy, u2));
        let mut s = ProductStream::new([qx.dynref(), qy.dynref()]);
        drive2(tr, "product.q", &qx, &h1, &qy, &h2, &mut s, |tr, t, o| tr.out_q(t, o));
        let mut s = Product2::new(qx.dynref(), qy.dynref());
        drive2(tr, "product2.q", &qx, &h1, &qy, &h2, &mut s, |tr, t, o| tr.out_q(t, o));
        let mut s = QuotientStream::new(qx.dynref(), qy.dynref());
        drive2(tr, "quotient.q", &qx, &h1, &qy, &h2, &mut s, |tr, t, o| tr.out_q(t, o));
    });
    // ---- ExponentStream: positive bases, exponents in +-4 (finite results); class P
    let hb = history(g, n, |g| g.pos(1e-3, 1e2));
    let he = history(g, n, |g| if g.chance(0.2) { g.range(-3, 3) as f32 } else { g.uniform(-4.0, 4.0) });
    guarded(tr, "exponent", |tr| {
        let mut s = ExponentStream::new(x.dynref(), y.dynref());
        for (eb, ee) in hb.iter().zip(he.iter()) {
            x.ev(eb);
            y.ev(ee);
            tr.noe("exponent", ".upd", &s.update());
            let o = s.get();
            match (eb, ee) {
                // both present: the value went through powf
                (Ev::Some(..), Ev::Some(..)) => {
                    let m = match &o {
                        Ok(Some(d)) => d.value,
                        _ => 0.0,
                    };
                    tr.out_f_p("exponent", &o, m);
                }
                _ => tr.out_f("exponent", &o),
            }
        }
    });
    // ---- DerivativeStream / IntegralStream (strictly increasing stamps)
    let hq = toq(&history(g, n + 2, fval), u);
    guarded(tr, "derivative", |tr| {
        let mut s = DerivativeStream::new(qx.dynref());
        drive(tr, "derivative", &qx, &hq, &mut s, |tr, t, o| tr.out_q(t, o));
        if let Ok(Some(d)) = s.get() {
            tr.q("derivative.unit_sum", d.value + Quantity::new(1.0, u / SECOND));
        }
    });
    guarded(tr, "integral", |tr| {
        let mut s = IntegralStream::new(qx.dynref());
        drive(tr, "integral", &qx, &hq, &mut s, |tr, t, o| tr.out_q(t, o));
        if let Ok(Some(d)) = s.get() {
            tr.q("integral.unit_sum", d.value + Quantity::new(1.0, u * SECOND));
        }
    });
}

// =============================================================================================
// Latest, Expirer and the adapters of the crate root
// =============================================================================================
pub fn adapters(tr: &mut Tr, g: &mut G) {
    let n = n_events(g);
    let hx = history(g, n, fval);
    let hy = history(g, n, fval);
    let hz = history(g, n, fval);
    let (x, y, z) = (Src::<f32>::new(), Src::<f32>::new(), Src::<f32>::new());
    guarded(tr, "latest_stream", |tr| {
        let mut s = Latest::new([x.dynref(), y.dynref(), z.dynref()]);
        for i in 0..n {
            x.ev(&hx[i]);
            y.ev(&hy[i]);
            z.ev(&hz[i]);
            tr.noe("latest_stream", ".upd", &s.update());
            tr.out_f("latest_stream", &s.get());
        }
    });
    let clock = TSrc::new(0);
    let limit = g.step(1_000_000, 20_000_000_000);
    let lags: Vec<i64> = (0..n).map(|_| g.step(1, 40_000_000_000)).collect();
    guarded(tr, "expirer", |tr| {
        let mut s = Expirer::new(x.dynref(), clock.dynref(), Time(limit));
        for (i, ev) in hx.iter().enumerate() {
            x.ev(ev);
            match ev {
                Ev::Some(t, _) => clock.set(*t + if i % 3 == 0 { limit } else { lags[i] }),
                _ => clock.set(lags[i]),
            }
            if i % 5 == 4 {
                clock.err(1);
            }
            tr.noe("expirer", ".upd", &s.update());
            tr.out_f("expirer", &s.get());
        }
    });
    // ---- ConstantGetter: get, set, follow
    let v0 = fval(g);
    let v1 = fval(g);
    guarded(tr, "constant_getter", |tr| {
        clock.set(77);
        let mut s = ConstantGetter::new(clock.typed(), v0);
        tr.out_f("constant_getter", &s.get());
        tr.noe("constant_getter", ".set", &s.set(v1));
        tr.out_f("constant_getter", &s.get());
        match s.get_last_request() {
            None => tr.w("constant_getter.last_request", "none"),
            Some(v) => tr.f("constant_getter.last_request", v),
        }
        s.follow(x.dynref());
        for ev in &hx {
            x.ev(ev);
            tr.noe("constant_getter", ".upd", &s.update());
            tr.out_f("constant_getter", &s.get());
        }
        s.stop_following();
        x.some(5, v0);
        tr.noe("constant_getter", ".upd", &s.update());
        clock.err(2);
        tr.out_f("constant_getter", &s.get());
        // a Time is its own clock
        let t = rc(Time(1234));
        let s2 = ConstantGetter::<f32, Time, E>::new(Reference::from_rc_ref_cell(t.clone()), v0);
        tr.out_f("constant_getter.time_clock", &s2.get());
        tr.i("time_as_time_getter", <Time as TimeGetter<E>>::get(&Time(99)).map(|t| t.0).unwrap_or(-1));
        tr.noe("time_as_time_getter", ".upd", &<Time as Updatable<E>>::update(&mut Time(99)));
    });
    guarded(tr, "time_getter_from_getter", |tr| {
        let mut s = TimeGetterFromGetter::new(x.typed());
        for ev in &hx {
            x.ev(ev);
            tr.noe("time_getter_from_getter", ".upd", &s.update());
            match s.get() {
                Ok(t) => tr.i("time_getter_from_getter", t.0),
                Err(e) => tr.w("time_getter_from_getter", err_word(&e)),
            }
        }
        let mut ng = NoneGetter::new();
        tr.out_f("none_getter", &<NoneGetter as Getter<f32, E>>::get(&ng));
        tr.noe("none_getter", ".upd", &<NoneGetter as Updatable<E>>::update(&mut ng));
    });
    // ---- GetterFromHistory over a MotionProfile
    let pc = {
        // a comfortable profile (construction is not what is observed here)
        let mut c = gen_profile(g);
        let mut k = 0;
        while !c.comfortable && k < 8 {
            c = gen_profile(g);
            k += 1;
        }
        c
    };
    let t_now = g.range(0, 50_000_000_000);
    let start = g.range(-1_000_000_000, 20_000_000_000);
    let delta = g.range(-5_000_000_000, 5_000_000_000);
    let steps: Vec<i64> = (0..5).map(|_| g.step(1_000_000, 20_000_000_000)).collect();
    guarded(tr, "getter_from_history", |tr| {
        let mut mp = match build_profile(&pc) {
            Some(mp) => mp,
            None => {
                tr.w("getter_from_history.profile", "panic");
                return;
            }
        };
        clock.set(t_now);
        for ctor in 0..4 {
            clock.set(t_now);
            let mut gfh: GetterFromHistory<'_, Command, TCell, E> = match ctor {
                0 => GetterFromHistory::new_no_delta(&mut mp, clock.typed()),
                1 => match GetterFromHistory::new_start_at_zero(&mut mp, clock.typed()) {
                    Ok(x) => x,
                    Err(e) => {
                        tr.w("getter_from_history.ctor", err_word(&e));
                        continue;
                    }
                },
                2 => match GetterFromHistory::new_custom_start(&mut mp, clock.typed(), Time(start)) {
                    Ok(x) => x,
                    Err(e) => {
                        tr.w("getter_from_history.ctor", err_word(&e));
                        continue;
                    }
                },
                _ => GetterFromHistory::new_custom_delta(&mut mp, clock.typed(), Time(delta)),
            };
            let mut now = t_now;
            for (i, st) in steps.iter().enumerate() {
                now += st;
                clock.set(now);
                if i == 3 {
                    clock.err(1);
                }
                tr.noe("getter_from_history", ".upd", &gfh.update());
                tr.out_cmd("getter_from_history", &gfh.get());
                if i == 1 {
                    gfh.set_delta(Time(delta));
                }
                if i == 2 || i == 3 {
                    tr.noe("getter_from_history", ".set_time", &gfh.set_time(Time(start)));
                }
            }
        }
    });
}

// =============================================================================================
// Exact points of the power function (class E in every float back-end)
// =============================================================================================
/// std, libm and micromath are all *exact* at x^0 = 1 (every finite x, 0^0 = 1 included), 1^y = 1
/// and 0^1 = 0, so observations that reach powf only at such points are bit-comparable across all
/// seven builds even though micromath is otherwise only a coarse approximation.
/// * `pow.special.*`: ExponentStream on constant inputs at those points.
/// * `ewma.{f32,q}.exact*`: EWMA histories whose lambda is exact by construction: repeated
///   timestamps (dt = 0 => powf(1-s, 0) = 1 => lambda = 0, the output keeps the previous value, for
///   every s including 1.0 where the base is 0), smoothing 0.0 with dt > 0 (powf(1, dt) = 1,
///   lambda = 0), and smoothing 1.0 with dt >= 1 s (powf(0, dt) is 0 or far below 2^-25, lambda
///   rounds to exactly 1, the output is the new value).
pub fn exact_points(tr: &mut Tr, g: &mut G, pw: &CratePow) {
    // ---- ExponentStream at the exact points
    let xs = [
        0.0f32,
        -0.0,
        1.0,
        g.pos(1e-3, 1e3),
        g.pos(1e-3, 1e3),
        g.val(1e4),
        -g.pos(1e-3, 1e3),
        -g.pos(1e-3, 1e3),
    ];
    let ys = [g.uniform(-50.0, 50.0), g.val(1e3), -g.pos(1e-3, 1e2), g.pos(1e-3, 1e2)];
    guarded(tr, "pow.special", |tr| {
        for x in xs {
            tr.f("pow.special.x0", pw.powf(x, 0.0));
        }
        for y in ys {
            tr.f("pow.special.1y", pw.powf(1.0, y));
        }
        tr.f("pow.special.01", pw.powf(0.0, 1.0));
        tr.f("pow.special.00", pw.powf(0.0, 0.0));
    });
    // ---- EWMA with exact lambdas, f32 and Quantity variants on the same history
    let (u, _, _) = pick_unit(g);
    let s_mid = g.uniform(0.02, 0.98);
    for (si, sm) in [0.0f32, 1.0, s_mid].into_iter().enumerate() {
        let t0 = g.range(0, 1_000_000_000_000);
        let dt_long = g.step(1_000_000_000, 10_000_000_000);
        let dt_any = g.step(1_000_000, 10_000_000_000);
        let v: Vec<f32> = (0..8).map(|_| g.nz(1e3)).collect();
        // (stamp, value, sub-tag); None = absent, Err = error event
        #[derive(Clone, Copy)]
        enum Step {
            S(i64, f32, &'static str),
            Absent,
            Fail(u8),
        }
        let mut steps = vec![
            Step::S(t0, v[0], ".first"),
            Step::S(t0, v[1], ".same_stamp"),
            Step::S(t0, v[2], ".same_stamp"),
        ];
        let mut t = t0;
        if si == 0 {
            // no weight on new data at all: every later sample keeps the first value
            t += dt_any;
            steps.push(Step::S(t, v[3], ".s0_dt"));
            t += dt_long;
            steps.push(Step::S(t, v[4], ".s0_dt"));
        } else if si == 1 {
            // all weight on new data once dt >= 1 s
            t += dt_long;
            steps.push(Step::S(t, v[3], ".s1_dt"));
            steps.push(Step::S(t, v[4], ".same_stamp"));
        }
        steps.push(Step::Absent);
        steps.push(Step::Fail(1 + (si as u8 % 2)));
        steps.push(Step::Absent);
        t += dt_any;
        steps.push(Step::S(t, v[5], ".first"));
        steps.push(Step::S(t, v[6], ".same_stamp"));
        let src = Src::<f32>::new();
        let srcq = Src::<Quantity>::new();
        guarded(tr, "ewma.exact", |tr| {
            let mut sf = EWMAStream::new(src.dynref(), sm);
            let mut sq = EWMAStream::new(srcq.dynref(), sm);
            for st in &steps {
                let suf = match *st {
                    Step::S(t, x, suf) => {
                        src.some(t, x);
                        srcq.some(t, Quantity::new(x, u));
                        suf
                    }
                    Step::Absent => {
                        src.set(Ok(None));
                        srcq.set(Ok(None));
                        ".absent"
                    }
                    Step::Fail(e) => {
                        src.set(Err(Error::Other(e)));
                        srcq.set(Err(Error::Other(e)));
                        ".error"
                    }
                };
                let rf = sf.update();
                let rq = sq.update();
                let (tf, tq) = (format!("ewma.f32.exact{}", suf), format!("ewma.q.exact{}", suf));
                tr.noe(&tf, ".upd", &rf);
                tr.noe(&tq, ".upd", &rq);
                tr.out_f(&tf, &sf.get());
                tr.out_q(&tq, &sq.get());
            }
            if let Ok(Some(d)) = sq.get() {
                tr.q("ewma.q.exact.unit_sum", d.value + Quantity::new(1.0, u));
            }
        });
    }
}
