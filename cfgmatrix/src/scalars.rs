//! Well-dimensioned programs over the value types: Quantity / Time / DimensionlessInteger / Unit,
//! State, Command, Datum, latest(), MotionProfile.
use crate::util::*;
use core::cmp::Ordering;
use rrtk::*;

/// Unit with small exponents (products and quotients of two of them stay far inside i8).
pub fn pick_unit(g: &mut G) -> (Unit, i8, i8) {
    let mm = g.range(-1, 1) as i8;
    let s = g.range(-2, 1) as i8;
    (Unit::new(mm, s), mm, s)
}
fn ord_code(o: Option<Ordering>) -> i64 {
    match o {
        Some(Ordering::Less) => -1,
        Some(Ordering::Equal) => 0,
        Some(Ordering::Greater) => 1,
        None => 2,
    }
}

// =============================================================================================
// A. quantities, times, integers, units
// =============================================================================================
pub fn quantities(tr: &mut Tr, g: &mut G) {
    let a = g.val(1e4);
    let b = if g.chance(0.15) { a } else { g.val(1e4) };
    let c = g.nz(1e4);
    let (u1, m1, s1) = pick_unit(g);
    let (u2, m2, s2) = pick_unit(g);
    let qa = Quantity::new(a, u1);
    let qb = Quantity::new(b, u1);
    let qc = Quantity::new(c, u2);
    guarded(tr, "q.arith", |tr| {
        tr.q("q.add", qa + qb);
        tr.q("q.sub", qa - qb);
        tr.q("q.mul", qa * qc);
        tr.q("q.div", qa / qc);
        tr.q("q.neg", -qa);
        let mut x = qa;
        x += qb;
        tr.q("q.add_assign", x);
        x -= qa;
        tr.q("q.sub_assign", x);
        x *= qc;
        tr.q("q.mul_assign", x);
        x /= qc;
        tr.q("q.div_assign", x);
        // back in u1: must still add to a u1 quantity in a checked build
        tr.q("q.roundtrip_add", x + qa);
        tr.f("q.into_f32", f32::from(qa));
        tr.q("q.dimensionless", Quantity::dimensionless(a) + Quantity::new(b, DIMENSIONLESS));
    });
    guarded(tr, "q.cmp", |tr| {
        tr.b("q.lt", qa < qb);
        tr.b("q.gt", qa > qb);
        tr.b("q.le", qa <= qb);
        tr.b("q.ge", qa >= qb);
        tr.i("q.partial_cmp", ord_code(qa.partial_cmp(&qb)));
        tr.b("q.eq", qa == qb);
        tr.b("q.ne", qa != qb);
        tr.b("q.eq.self", qa == qa);
        tr.b("q.le.self", qa <= qa);
        // "compared as f32 values": +0 == -0, NaN != NaN
        tr.b("q.eq.zeros", Quantity::new(0.0, u1) == Quantity::new(-0.0, u1));
        tr.b("q.eq.nan", Quantity::new(f32::NAN, u1) == Quantity::new(f32::NAN, u1));
        tr.i("q.partial_cmp.nan", ord_code(Quantity::new(f32::NAN, u1).partial_cmp(&qa)));
    });
    guarded(tr, "q.abs", |tr| {
        // std uses f32::abs, no_std the manual branch
        tr.q("q.abs.any", qa.abs());
        tr.q("q.abs.negzero", Quantity::new(-0.0, u1).abs());
        tr.q("q.abs.zero", Quantity::new(0.0, u2).abs());
        tr.q("q.abs.neg", Quantity::new(-c.abs(), u2).abs());
        tr.q("q.abs.pos", Quantity::new(c.abs(), u2).abs());
        tr.q("q.abs.sum", (qa - qb).abs() + qb.abs());
    });
    // ---- mixed Time / DimensionlessInteger / Quantity (integers far from i64 overflow)
    let t = Time(g.range(-(1i64 << 40), 1i64 << 40));
    let t2 = Time(g.range_nz(1i64 << 40));
    let n = DimensionlessInteger(g.range(-1000, 1000));
    let n2 = DimensionlessInteger(g.range_nz(1000));
    let qs = Quantity::new(a, SECOND);
    let qd = Quantity::dimensionless(b);
    guarded(tr, "mix.additive", |tr| {
        tr.q("mix.q_add_t", qs + t);
        tr.q("mix.q_sub_t", qs - t);
        tr.q("mix.t_add_q", t + qs);
        tr.q("mix.t_sub_q", t - qs);
        let mut x = qs;
        x += t;
        tr.q("mix.q_add_assign_t", x);
        x -= t2;
        tr.q("mix.q_sub_assign_t", x);
        tr.q("mix.q_add_n", qd + n);
        tr.q("mix.q_sub_n", qd - n);
        tr.q("mix.n_add_q", n + qd);
        tr.q("mix.n_sub_q", n - qd);
        let mut y = qd;
        y += n;
        tr.q("mix.q_add_assign_n", y);
        y -= n2;
        tr.q("mix.q_sub_assign_n", y);
    });
    guarded(tr, "mix.multiplicative", |tr| {
        tr.q("mix.q_mul_t", qa * t);
        tr.q("mix.q_div_t", qa / t2);
        tr.q("mix.t_mul_q", t * qa);
        tr.q("mix.t_div_q", t / qc);
        let mut x = qa;
        x *= t;
        tr.q("mix.q_mul_assign_t", x);
        x /= t2;
        tr.q("mix.q_div_assign_t", x);
        tr.q("mix.q_mul_n", qa * n);
        tr.q("mix.q_div_n", qa / n2);
        tr.q("mix.n_mul_q", n * qa);
        tr.q("mix.n_div_q", n / qc);
        let mut y = qa;
        y *= n;
        tr.q("mix.q_mul_assign_n", y);
        y /= n2;
        tr.q("mix.q_div_assign_n", y);
        tr.q("mix.t_mul_t", t * t2);
        tr.q("mix.t_div_t", t / t2);
        tr.q("mix.n_div_t", n / t2);
        // a product of two times is in seconds squared: adding a SECOND_SQUARED quantity is well-dimensioned
        tr.q("mix.t_mul_t_add", t * t2 + Quantity::new(b, SECOND_SQUARED));
        tr.q("mix.t_div_t_add", t / t2 + Quantity::dimensionless(b));
        tr.q("mix.n_div_t_add", n / t2 + Quantity::new(b, INVERSE_SECOND));
    });
    guarded(tr, "int.arith", |tr| {
        tr.i("int.t_mul_n", (t * n).0);
        tr.i("int.t_div_n", (t / n2).0);
        tr.i("int.n_mul_t", (n * t).0);
        let mut x = t;
        x *= n2;
        tr.i("int.t_mul_assign_n", x.0);
        x /= n2;
        tr.i("int.t_div_assign_n", x.0);
        tr.i("int.t_add", (t + t2).0);
        tr.i("int.t_sub", (t - t2).0);
        tr.i("int.t_neg", (-t).0);
        x += t2;
        tr.i("int.t_add_assign", x.0);
        x -= t;
        tr.i("int.t_sub_assign", x.0);
        tr.i("int.n_add", (n + n2).0);
        tr.i("int.n_sub", (n - n2).0);
        tr.i("int.n_mul", (n * n2).0);
        tr.i("int.n_div", (n / n2).0);
        tr.i("int.n_neg", (-n).0);
        let mut y = n;
        y += n2;
        tr.i("int.n_add_assign", y.0);
        y -= n;
        tr.i("int.n_sub_assign", y.0);
        y *= n;
        tr.i("int.n_mul_assign", y.0);
        y /= n2;
        tr.i("int.n_div_assign", y.0);
        tr.b("int.t_lt", t < t2);
        tr.b("int.n_eq", n == n2);
        tr.i("int.t_default", Time::default().0 + DimensionlessInteger::default().0);
    });
    // ---- conversions
    let xs = g.val(1e5);
    let xd = g.val(1e6);
    guarded(tr, "conv", |tr| {
        match Time::try_from(Quantity::new(xs, SECOND)) {
            Ok(t) => {
                tr.w("conv.time_try_from_q", "ok");
                tr.i("conv.time_try_from_q.x", t.0);
            }
            Err(()) => tr.w("conv.time_try_from_q", "rejected"),
        }
        match DimensionlessInteger::try_from(Quantity::dimensionless(xd)) {
            Ok(n) => {
                tr.w("conv.int_try_from_q", "ok");
                tr.i("conv.int_try_from_q.x", n.0);
            }
            Err(()) => tr.w("conv.int_try_from_q", "rejected"),
        }
        tr.q("conv.q_from_time", Quantity::from(t));
        tr.q("conv.q_from_time.sum", Quantity::from(t) + qs);
        tr.q("conv.q_from_int", Quantity::from(n));
        tr.q("conv.q_from_int.sum", Quantity::from(n) + qd);
        tr.i("conv.i64_from_time", i64::from(t));
        tr.i("conv.i64_from_int", i64::from(n));
        tr.i("conv.time_from_i64", Time::from(t.0).0 + Time::new(1).0);
        tr.i("conv.int_from_i64", DimensionlessInteger::from(n.0).0 + DimensionlessInteger::new(1).0);
        let tq: Quantity = Time(g_small(t.0)).into();
        tr.q("conv.q_from_time.small", tq);
        for pd in PDS {
            let c = Command::new(pd, a);
            let q = Quantity::from(c);
            tr.f("conv.q_from_command", q.value);
            // the unit must be the command's own: adding the matching State accessor is well-dimensioned
            let s = State::new_raw(b, b, b);
            tr.q("conv.q_from_command.sum", q + s.get_value(pd));
        }
    });
    // ---- units (no numbers; outcomes only)
    guarded(tr, "unit", |tr| {
        tr.b("unit.eq_assume_true.same", u1.eq_assume_true(&u1));
        tr.b("unit.eq_assume_true.const", MILLIMETER_PER_SECOND.eq_assume_true(&Unit::new(1, -1)));
        u1.assert_eq_assume_ok(&Unit::new(m1, s1));
        let mut w = u1 * u2;
        w /= u2;
        let _ = w + u1;
        let _ = w - u1;
        w += u1;
        w -= u1;
        w *= u2;
        let w2 = w / u1;
        let _ = -w2 + u2;
        tr.w("unit.arith", "ok");
        for pd in PDS {
            let u = Unit::from(pd);
            // unit of the matching State accessor
            let _ = Quantity::new(a, u) + State::default().get_value(pd);
        }
        tr.w("unit.from_pd", "ok");
        for (i, piece) in [
            MotionProfilePiece::BeforeStart,
            MotionProfilePiece::InitialAcceleration,
            MotionProfilePiece::ConstantVelocity,
            MotionProfilePiece::EndAcceleration,
            MotionProfilePiece::Complete,
        ]
        .into_iter()
        .enumerate()
        {
            let _ = i;
            tr.w("unit.try_from_piece", if Unit::try_from(piece).is_ok() { "ok" } else { "rejected" });
            match PositionDerivative::try_from(piece) {
                Ok(pd) => tr.w("pd.try_from_piece", pd_word(pd)),
                Err(()) => tr.w("pd.try_from_piece", "rejected"),
            }
        }
    });
    // ---- items that exist only when dimension checking is compiled in (class C)
    #[cfg(any(feature = "dim_check_release", all(debug_assertions, feature = "dim_check_debug")))]
    guarded(tr, "chk", |tr| {
        tr.i2("chk.unit_eq.same", "", 'C', (u1 == Unit::new(m1, s1)) as i64);
        tr.i2("chk.unit_eq.other", "", 'C', (u1 == u2) as i64);
        tr.i2("chk.unit_const_eq", "", 'C', u1.const_eq(&u2) as i64);
        tr.i2("chk.unit_eq_assume_false", "", 'C', u1.eq_assume_false(&u2) as i64);
        tr.i2("chk.unit_mul", "", 'C', ((u1 * u2) == Unit::new(m1 + m2, s1 + s2)) as i64);
        tr.i2("chk.unit_div", "", 'C', ((u1 / u2) == Unit::new(m1 - m2, s1 - s2)) as i64);
        u1.const_assert_eq(&Unit::new(m1, s1));
        tr.i2("chk.q_eq_derived", "", 'C', (qa == qb) as i64);
        for pd in PDS {
            let u = Unit::from(pd);
            match PositionDerivative::try_from(u) {
                Ok(p) => tr.w2("chk.pd_try_from_unit", "", 'C', pd_word(p)),
                Err(()) => tr.w2("chk.pd_try_from_unit", "", 'C', "rejected"),
            }
            match Command::try_from(Quantity::new(a, u)) {
                Ok(c) => tr.cmd2("chk.cmd_try_from_q", "", 'C', c),
                Err(()) => tr.w2("chk.cmd_try_from_q", "", 'C', "rejected"),
            }
        }
        match PositionDerivative::try_from(u1) {
            Ok(p) => tr.w2("chk.pd_try_from_unit.any", "", 'C', pd_word(p)),
            Err(()) => tr.w2("chk.pd_try_from_unit.any", "", 'C', "rejected"),
        }
        match Command::try_from(qa) {
            Ok(c) => tr.cmd2("chk.cmd_try_from_q.any", "", 'C', c),
            Err(()) => tr.w2("chk.cmd_try_from_q.any", "", 'C', "rejected"),
        }
    });
    let _ = (m1, m2, s1, s2);
}
/// A small nanosecond count derived from a big one (covers values an f32 represents exactly and not).
fn g_small(t: i64) -> i64 {
    t % 100_000_007
}

// =============================================================================================
// B. State
// =============================================================================================
pub fn states(tr: &mut Tr, g: &mut G) {
    let (p, v, a) = (g.val(1e3), g.val(1e3), g.val(1e2));
    let s0 = match catch(|| {
        State::new(
            Quantity::new(p, MILLIMETER),
            Quantity::new(v, MILLIMETER_PER_SECOND),
            Quantity::new(a, MILLIMETER_PER_SECOND_SQUARED),
        )
    }) {
        Some(s) => {
            tr.w("state.new.outcome", "ok");
            s
        }
        None => {
            tr.w("state.new.outcome", "panic");
            State::new_raw(p, v, a)
        }
    };
    let dts = [
        g.range(-100_000_000_000, 100_000_000_000),
        g.step(1, 10_000_000_000),
        0,
        -g.step(1, 1_000_000_000),
    ];
    guarded(tr, "state.update", |tr| {
        tr.state("state.new", s0);
        tr.b("state.new_raw_eq", s0 == State::new_raw(p, v, a));
        let mut s = s0;
        for dt in dts {
            s.update(Time(dt));
            tr.state("state.update", s);
        }
    });
    let (x1, x2, x3) = (g.val(1e3), g.val(1e3), g.val(1e3));
    guarded(tr, "state.set", |tr| {
        let mut s = s0;
        let r = s.set_constant_acceleration(Quantity::new(x1, MILLIMETER_PER_SECOND_SQUARED));
        tr.w("state.set_acc", if r.is_ok() { "ok" } else { "rejected" });
        tr.state("state.set_acc", s);
        let r = s.set_constant_velocity(Quantity::new(x2, MILLIMETER_PER_SECOND));
        tr.w("state.set_vel", if r.is_ok() { "ok" } else { "rejected" });
        tr.state("state.set_vel", s);
        s.set_constant_acceleration_raw(x1);
        let r = s.set_constant_position(Quantity::new(x3, MILLIMETER));
        tr.w("state.set_pos", if r.is_ok() { "ok" } else { "rejected" });
        tr.state("state.set_pos", s);
        let mut s = s0;
        s.set_constant_acceleration_raw(x3);
        tr.state("state.set_acc_raw", s);
        s.set_constant_velocity_raw(x1);
        tr.state("state.set_vel_raw", s);
        s.set_constant_acceleration_raw(x3);
        s.set_constant_position_raw(x2);
        tr.state("state.set_pos_raw", s);
    });
    let s1 = g.st(1e3);
    let k = g.nz(1e2);
    guarded(tr, "state.ops", |tr| {
        tr.q("state.get_position", s0.get_position() + Quantity::new(x1, MILLIMETER));
        tr.q("state.get_velocity", s0.get_velocity() + Quantity::new(x1, MILLIMETER_PER_SECOND));
        tr.q("state.get_acceleration", s0.get_acceleration() + Quantity::new(x1, MILLIMETER_PER_SECOND_SQUARED));
        for pd in PDS {
            tr.q("state.get_value", s0.get_value(pd));
        }
        tr.state("state.neg", -s0);
        tr.state("state.add", s0 + s1);
        tr.state("state.sub", s0 - s1);
        tr.state("state.mul", s0 * k);
        tr.state("state.div", s0 / k);
        let mut s = s0;
        s += s1;
        tr.state("state.add_assign", s);
        s -= s0;
        tr.state("state.sub_assign", s);
        s *= k;
        tr.state("state.mul_assign", s);
        s /= k;
        tr.state("state.div_assign", s);
        tr.b("state.eq", s0 == s1);
        tr.state("state.default", State::default());
    });
}

// =============================================================================================
// C. Command
// =============================================================================================
pub fn commands(tr: &mut Tr, g: &mut G) {
    let x = g.val(1e3);
    let y = g.val(1e3);
    let k = g.nz(1e2);
    let zero_pat = g.below(8);
    let z = |bit: u64, v: f32, g_neg: bool| -> f32 {
        if zero_pat & bit != 0 {
            if g_neg {
                -0.0
            } else {
                0.0
            }
        } else {
            v
        }
    };
    let negz = g.chance(0.5);
    let s = State::new_raw(z(1, x, negz), z(2, y, !negz), z(4, k, negz));
    guarded(tr, "cmd", |tr| {
        for pd in PDS {
            let c = Command::new(pd, x);
            tr.cmd("cmd.new", c);
            tr.optq("cmd.get_position", c.get_position());
            tr.optq("cmd.get_velocity", c.get_velocity());
            tr.q("cmd.get_acceleration", c.get_acceleration());
            tr.w("cmd.pd_from", pd_word(PositionDerivative::from(c)));
            tr.f("cmd.into_f32", f32::from(c));
            let d = Command::new(pd, y);
            tr.cmd("cmd.add", c + d);
            tr.cmd("cmd.sub", c - d);
            tr.cmd("cmd.mul", c * k);
            tr.cmd("cmd.div", c / k);
            tr.cmd("cmd.neg", -c);
            let mut m = c;
            m += d;
            tr.cmd("cmd.add_assign", m);
            m -= c;
            tr.cmd("cmd.sub_assign", m);
            m *= k;
            tr.cmd("cmd.mul_assign", m);
            m /= k;
            tr.cmd("cmd.div_assign", m);
            tr.b("cmd.eq", c == d);
            // accessor units: adding the matching quantity is well-dimensioned
            if let Some(p) = c.get_position() {
                tr.q("cmd.get_position.sum", p + Quantity::new(y, MILLIMETER));
            }
            if let Some(v) = c.get_velocity() {
                tr.q("cmd.get_velocity.sum", v + Quantity::new(y, MILLIMETER_PER_SECOND));
            }
            tr.q("cmd.get_acceleration.sum", c.get_acceleration() + Quantity::new(y, MILLIMETER_PER_SECOND_SQUARED));
        }
        tr.cmd("cmd.from_state", Command::from(s));
        tr.cmd("cmd.from_state.default", Command::from(State::default()));
    });
}

// =============================================================================================
// D. Datum operators, latest(), replace helpers
// =============================================================================================
pub fn data(tr: &mut Tr, g: &mut G) {
    let t1 = if g.chance(0.3) { g.stamp_any() } else { g.range(-1_000_000, 1_000_000) };
    let t2 = if g.chance(0.2) { t1 } else if g.chance(0.3) { g.stamp_any() } else { g.range(-1_000_000, 1_000_000) };
    let (a, b) = (g.val(1e4), g.nz(1e4));
    let da = Datum::new(Time(t1), a);
    let db = Datum::new(Time(t2), b);
    fn df(tr: &mut Tr, tag: &str, d: Datum<f32>) {
        tr.i2(tag, ".t", 'E', d.time.0);
        tr.f2(tag, ".x", 'E', d.value);
    }
    guarded(tr, "datum.f32", |tr| {
        df(tr, "datum.neg", -da);
        df(tr, "datum.add", da + db);
        df(tr, "datum.add_t", da + b);
        df(tr, "datum.sub", da - db);
        df(tr, "datum.sub_t", da - b);
        df(tr, "datum.mul", da * db);
        df(tr, "datum.mul_t", da * b);
        df(tr, "datum.div", da / db);
        df(tr, "datum.div_t", da / b);
        let mut m = da;
        m += db;
        df(tr, "datum.add_assign", m);
        m += b;
        df(tr, "datum.add_assign_t", m);
        m -= db;
        df(tr, "datum.sub_assign", m);
        m -= b;
        df(tr, "datum.sub_assign_t", m);
        m *= db;
        df(tr, "datum.mul_assign", m);
        m *= b;
        df(tr, "datum.mul_assign_t", m);
        m /= db;
        df(tr, "datum.div_assign", m);
        m /= b;
        df(tr, "datum.div_assign_t", m);
        let nb = !Datum::new(Time(t1), a > b);
        tr.i("datum.not.t", nb.time.0);
        tr.b("datum.not.x", nb.value);
        tr.b("datum.eq", Datum::new(Time(t1), 1i32) == Datum::new(Time(t2), 1i32));
        df(tr, "latest", latest(da, db));
        df(tr, "latest.rev", latest(db, da));
        let mut r = da;
        tr.b("datum.replace_if_older_than", r.replace_if_older_than(db));
        df(tr, "datum.replace_if_older_than.v", r);
        let mut o: Option<Datum<f32>> = None;
        tr.b("datum.opt_replace.none", o.replace_if_none_or_older_than(da));
        tr.b("datum.opt_replace.some", o.replace_if_none_or_older_than(db));
        tr.b("datum.opt_replace.opt_none", o.replace_if_none_or_older_than_option(None));
        tr.b("datum.opt_replace.opt_some", o.replace_if_none_or_older_than_option(Some(da)));
        df(tr, "datum.opt_replace.v", o.unwrap());
    });
    // Quantity payloads
    let (u, _, _) = pick_unit(g);
    let (u2, _, _) = pick_unit(g);
    let qa = Datum::new(Time(t1), Quantity::new(a, u));
    let qb = Datum::new(Time(t2), Quantity::new(b, u));
    let qc = Datum::new(Time(t2), Quantity::new(b, u2));
    fn dq(tr: &mut Tr, tag: &str, d: Datum<Quantity>) {
        tr.i2(tag, ".t", 'E', d.time.0);
        tr.f2(tag, ".x", 'E', d.value.value);
    }
    guarded(tr, "datum.q", |tr| {
        dq(tr, "datum.q.neg", -qa);
        dq(tr, "datum.q.add", qa + qb);
        dq(tr, "datum.q.sub", qa - qb);
        dq(tr, "datum.q.mul", qa * qc);
        dq(tr, "datum.q.div", qa / qc);
        dq(tr, "datum.q.add_t", qa + qb.value);
        dq(tr, "datum.q.mul_t", qa * qc.value);
        let mut m = qa;
        m += qb;
        m -= qb.value;
        m *= qc;
        m /= qc.value;
        dq(tr, "datum.q.assign_chain", m);
    });
    // State and Command payloads
    let (s1, s2) = (g.st(1e3), g.st(1e3));
    let ds1 = Datum::new(Time(t1), s1);
    let ds2 = Datum::new(Time(t2), s2);
    let c1 = g.cmd(1e3);
    let dc1 = Datum::new(Time(t1), c1);
    let dc2 = Datum::new(Time(t2), Command::new(PositionDerivative::from(c1), a));
    fn dst(tr: &mut Tr, tag: &str, d: Datum<State>) {
        tr.i2(tag, ".t", 'E', d.time.0);
        tr.state(tag, d.value);
    }
    fn dcm(tr: &mut Tr, tag: &str, d: Datum<Command>) {
        tr.i2(tag, ".t", 'E', d.time.0);
        tr.cmd(tag, d.value);
    }
    guarded(tr, "datum.state", |tr| {
        dst(tr, "datum.state.neg", -ds1);
        dst(tr, "datum.state.add", ds1 + ds2);
        dst(tr, "datum.state.sub", ds1 - ds2);
        dst(tr, "datum.state.add_t", ds1 + s2);
        dst(tr, "datum.state.mul_df", ds1 * db);
        dst(tr, "datum.state.mul_f", ds1 * b);
        dst(tr, "datum.state.div_df", ds1 / db);
        dst(tr, "datum.state.div_f", ds1 / b);
        let mut m = ds1;
        m += ds2;
        m -= s1;
        m *= db;
        m *= b;
        m /= db;
        m /= b;
        dst(tr, "datum.state.assign_chain", m);
        dst(tr, "latest.state", latest(ds1, ds2));
    });
    guarded(tr, "datum.cmd", |tr| {
        dcm(tr, "datum.cmd.neg", -dc1);
        dcm(tr, "datum.cmd.add", dc1 + dc2);
        dcm(tr, "datum.cmd.sub", dc1 - dc2);
        dcm(tr, "datum.cmd.mul_df", dc1 * db);
        dcm(tr, "datum.cmd.mul_f", dc1 * b);
        dcm(tr, "datum.cmd.div_df", dc1 / db);
        dcm(tr, "datum.cmd.div_f", dc1 / b);
        let mut m = dc1;
        m += dc2;
        m -= dc2.value;
        m *= db;
        m *= b;
        m /= db;
        m /= b;
        dcm(tr, "datum.cmd.assign_chain", m);
    });
}

// =============================================================================================
// E. MotionProfile
// =============================================================================================
/// Inputs of one profile.  By construction every duration the constructor can compute stays below
/// ~2.1e6 s (2.1e15 ns), so no i64 time arithmetic inside the accessors can overflow (an overflow
/// would panic in the debug build only, which is not the property's subject):
/// max_acc = max_vel / t_acc with t_acc in [1e-2, 1e2] s, speeds <= 2 max_vel, |dp| <= 2e4, max_vel >= 1e-2.
pub struct ProfileCase {
    pub start: State,
    pub end: State,
    pub max_vel: f32,
    pub max_acc: f32,
    pub comfortable: bool,
}
pub fn gen_profile(g: &mut G) -> ProfileCase {
    let comfortable = g.chance(0.6);
    let max_vel = g.pos(1e-2, 1e3);
    let t_acc = g.pos(1e-2, 1e2);
    let max_acc = max_vel / t_acc;
    let sign = if g.chance(0.5) { 1.0f32 } else { -1.0 };
    let p0 = g.val(1e4);
    if comfortable {
        // speeds inside the limit along the direction of travel, displacement well above the
        // accelerate + decelerate distances
        let v0 = max_vel * g.uniform(0.0, 0.95) * sign;
        let v1 = if g.chance(0.5) { 0.0 } else { max_vel * g.uniform(0.0, 0.95) * sign };
        let a1 = if g.chance(0.7) { 0.0 } else { g.val(10.0) };
        let need = 2.0 * max_vel * t_acc;
        let dp = (need * g.uniform(1.2, 4.0) + 1e-2).min(9000.0).max(need * 1.1 + 1e-3);
        let p0 = p0.clamp(-1000.0, 1000.0);
        ProfileCase {
            start: State::new_raw(p0, v0, if g.chance(0.5) { 0.0 } else { g.val(10.0) }),
            end: State::new_raw(p0 + sign * dp, v1, a1),
            max_vel: if g.chance(0.3) { -max_vel } else { max_vel },
            max_acc: if g.chance(0.3) { -max_acc } else { max_acc },
            comfortable,
        }
    } else {
        let v0 = max_vel * g.uniform(-2.0, 2.0);
        let v1 = if g.chance(0.4) { 0.0 } else { max_vel * g.uniform(-2.0, 2.0) };
        let p1 = if g.chance(0.1) { p0 } else { g.val(1e4) };
        ProfileCase {
            start: State::new_raw(p0, v0, g.val(10.0)),
            end: State::new_raw(p1, v1, if g.chance(0.6) { 0.0 } else { g.val(10.0) }),
            max_vel: if g.chance(0.3) { -max_vel } else { max_vel },
            max_acc: if g.chance(0.3) { -max_acc } else { max_acc },
            comfortable,
        }
    }
}
pub fn profile_times(g: &mut G, c: &ProfileCase) -> Vec<i64> {
    // rough duration from the inputs (f64; only used to place query times)
    let vm = c.max_vel.abs() as f64;
    let am = c.max_acc.abs() as f64;
    let dur = (2.0 * vm / am + ((c.end.position - c.start.position).abs() as f64) / vm + 1e-3).min(2.0e6);
    let dur_ns = (dur * 1e9) as i64;
    let mut ts = vec![-1_000_000_000, -1, 0, 1];
    for _ in 0..6 {
        ts.push(g.range(0, dur_ns.max(1)));
    }
    ts.push(g.range(dur_ns, 2 * dur_ns + 1));
    ts.push(1i64 << 52);
    ts
}
pub fn observe_profile(tr: &mut Tr, tag: &str, mp: &MotionProfile, times: &[i64]) {
    for &t in times {
        let t = Time(t);
        match mp.get_mode(t) {
            None => tr.w2(tag, ".mode", 'E', "none"),
            Some(pd) => tr.w2(tag, ".mode", 'E', pd_word(pd)),
        }
        tr.w2(
            tag,
            ".piece",
            'E',
            match mp.get_piece(t) {
                MotionProfilePiece::BeforeStart => "before",
                MotionProfilePiece::InitialAcceleration => "initial",
                MotionProfilePiece::ConstantVelocity => "constant",
                MotionProfilePiece::EndAcceleration => "end",
                MotionProfilePiece::Complete => "complete",
            },
        );
        for (suf, v) in [
            (".acc", mp.get_acceleration(t)),
            (".vel", mp.get_velocity(t)),
            (".pos", mp.get_position(t)),
        ] {
            match v {
                None => tr.w2(tag, suf, 'E', "none"),
                Some(q) => tr.f2(tag, suf, 'E', q.value),
            }
        }
        match <MotionProfile as History<Command, E>>::get(mp, t) {
            None => tr.w2(tag, ".hist", 'E', "none"),
            Some(d) => {
                tr.i2(tag, ".hist.t", 'E', d.time.0);
                tr.cmd2(tag, ".hist", 'E', d.value);
            }
        }
    }
}
pub fn build_profile(c: &ProfileCase) -> Option<MotionProfile> {
    catch(|| {
        MotionProfile::new(
            c.start,
            c.end,
            Quantity::new(c.max_vel, MILLIMETER_PER_SECOND),
            Quantity::new(c.max_acc, MILLIMETER_PER_SECOND_SQUARED),
        )
    })
}
pub fn profiles(tr: &mut Tr, g: &mut G) {
    let c = gen_profile(g);
    let times = profile_times(g, &c);
    let tag = if c.comfortable { "mp.comfortable" } else { "mp.arbitrary" };
    match build_profile(&c) {
        None => tr.w2(tag, ".new", 'E', "panic"),
        Some(mut mp) => {
            tr.w2(tag, ".new", 'E', "ok");
            guarded(tr, tag, |tr| {
                observe_profile(tr, tag, &mp, &times);
                tr.b("mp.eq_clone", mp == mp.clone());
                tr.noe("mp.update", "", &<MotionProfile as Updatable<E>>::update(&mut mp));
                // accessor units: well-dimensioned sums
                let t = Time(times[5]);
                if let (Some(p), Some(v), Some(a)) = (mp.get_position(t), mp.get_velocity(t), mp.get_acceleration(t)) {
                    let s = State::new(p, v, a);
                    tr.state("mp.state_from_accessors", s);
                }
            });
        }
    }
}

// =============================================================================================
// F. signed zeros reaching a case split
// =============================================================================================
/// Profiles whose start / end positions come from {+0.0, -0.0, x, -x} (displacements of exactly +0.0
/// and -0.0 included) with start / end velocities from {+0.0, -0.0, +max_vel, -max_vel, +-v}: whether
/// the constructor accepts, and the accessors at 0, at fractions of 4*max_vel/max_acc (the duration
/// of a there-and-back excursion) and far beyond.  Plus the other places where a sign or a comparison
/// with zero decides something: Quantity::abs, comparisons, Command::from(State), State setters,
/// CommandPID's "same command?" test.  Everything is printed through canonical bits (the statement
/// compares "as f32 values": +0.0 and -0.0 are the same value), and nothing here divides by a zero
/// whose sign is unspecified.
pub fn signed_zero(tr: &mut Tr, g: &mut G, full: bool) {
    let vm = g.pos(1e-1, 1e2);
    let t_acc = g.pos(1e-1, 1e1);
    let am = vm / t_acc;
    let x = g.pos(1e-2, 1e2);
    let v = vm * g.uniform(0.1, 0.9);
    let pos = [0.0f32, -0.0, x, -x];
    let vel = [0.0f32, -0.0, vm, -vm, v, -v];
    // position combinations: the zero-displacement ones always, the rest in full programs / at random
    let mut pcs: Vec<(f32, f32)> = vec![(0.0, 0.0), (0.0, -0.0), (-0.0, 0.0), (-0.0, -0.0), (x, x), (-x, -x)];
    if full {
        for a in pos {
            for b in pos {
                if !pcs.iter().any(|&(p, q)| p.to_bits() == a.to_bits() && q.to_bits() == b.to_bits()) {
                    pcs.push((a, b));
                }
            }
        }
    } else {
        pcs.push((pos[g.usize(4)], pos[g.usize(4)]));
    }
    // duration of the excursion and probe times
    let big_t = (4.0 * (vm as f64) / (am as f64) * 1e9) as i64;
    let times_full = [0i64, 1, big_t / 4, big_t / 2, (big_t / 4) * 3, big_t - 1000, big_t + 1000, 4 * big_t + 1_000_000_000];
    let times_reduced = [0i64, big_t / 4, (big_t / 4) * 3, big_t + 1000, 4 * big_t + 1_000_000_000];
    let times: &[i64] = if full { &times_full } else { &times_reduced };
    // piece / mode / acceleration / velocity / position (the History view repeats mode + value)
    let probe = |tr: &mut Tr, tag: &str, mp: &MotionProfile| {
        for &t in times {
            let t = Time(t);
            tr.w2(tag, ".mode", 'E', mp.get_mode(t).map(pd_word).unwrap_or("none"));
            tr.i2(tag, ".piece", 'E', mp.get_piece(t) as i64);
            for (suf, v) in [(".acc", mp.get_acceleration(t)), (".vel", mp.get_velocity(t)), (".pos", mp.get_position(t))] {
                match v {
                    None => tr.w2(tag, suf, 'E', "none"),
                    Some(q) => tr.f2(tag, suf, 'E', q.value),
                }
            }
        }
    };
    for (pi, &(p0, p1)) in pcs.iter().enumerate() {
        // velocity pairs: both feasible zero-displacement pairs always, plus random ones (all 36 in full
        // programs for the signed-zero position pairs)
        let mut vcs: Vec<(f32, f32)> = vec![(vm, vm), (-vm, -vm)];
        if full && pi < 4 {
            for a in vel {
                for b in vel {
                    if !((a == vm && b == vm) || (a == -vm && b == -vm)) {
                        vcs.push((a, b));
                    }
                }
            }
        } else {
            for _ in 0..(if full { 3 } else { 1 }) {
                vcs.push((vel[g.usize(6)], vel[g.usize(6)]));
            }
        }
        for (v0, v1) in vcs {
            let tag = if p0 == p1 { "mp.zero_displacement" } else { "mp.signed_positions" };
            let c = ProfileCase {
                start: State::new_raw(p0, v0, 0.0),
                end: State::new_raw(p1, v1, 0.0),
                max_vel: vm,
                max_acc: am,
                comfortable: false,
            };
            match build_profile(&c) {
                None => tr.w2(tag, ".new", 'E', "panic"),
                Some(mp) => {
                    tr.w2(tag, ".new", 'E', "ok");
                    guarded(tr, tag, |tr| {
                        if full {
                            observe_profile(tr, tag, &mp, times);
                        } else {
                            probe(tr, tag, &mp);
                        }
                    });
                }
            }
        }
    }
    // ---- the other sign / zero decisions
    let zs = [0.0f32, -0.0];
    let (u, _, _) = pick_unit(g);
    let y = g.nz(1e3);
    guarded(tr, "zero.scalar", |tr| {
        for a in zs {
            let qa = Quantity::new(a, u);
            tr.q("zero.abs", qa.abs());
            tr.q("zero.abs.sum", qa.abs() + Quantity::new(y, u));
            tr.q("zero.abs.mul", qa.abs() * Quantity::new(y, u));
            tr.q("zero.neg_abs", (-qa).abs());
            for b in zs {
                let qb = Quantity::new(b, u);
                tr.b("zero.eq", qa == qb);
                tr.b("zero.lt", qa < qb);
                tr.b("zero.le", qa <= qb);
                tr.b("zero.ge", qa >= qb);
                tr.i("zero.partial_cmp", ord_code(qa.partial_cmp(&qb)));
                tr.b("zero.state_eq", State::new_raw(a, b, a) == State::new_raw(b, a, b));
                tr.b("zero.command_eq", Command::Position(a) == Command::Position(b));
                tr.q("zero.sum", qa + qb);
                tr.q("zero.product", qa * Quantity::new(y, u) + qb * Quantity::new(-y, u));
            }
        }
        // Command::from(State): every pattern of {+0, -0, y} ("lowest non-zero derivative")
        let comp = [0.0f32, -0.0, y];
        for p in comp {
            for v in comp {
                for a in comp {
                    tr.cmd("zero.command_from_state", Command::from(State::new_raw(p, v, a)));
                }
            }
        }
        // setters with signed zeros
        for a in zs {
            let mut s = State::new_raw(y, y, y);
            let r = s.set_constant_position(Quantity::new(a, MILLIMETER));
            tr.w("zero.set_pos", if r.is_ok() { "ok" } else { "rejected" });
            tr.state("zero.set_pos", s);
            let mut s = State::new_raw(y, y, y);
            let r = s.set_constant_velocity(Quantity::new(a, MILLIMETER_PER_SECOND));
            tr.w("zero.set_vel", if r.is_ok() { "ok" } else { "rejected" });
            tr.state("zero.set_vel", s);
            let mut s = State::new_raw(a, -a, a);
            s.update(Time(1_500_000_000));
            tr.state("zero.update", s);
            tr.cmd("zero.command_after_update", Command::from(s));
        }
    });
    // CommandPID: setting Position(-0.0) over Position(+0.0) is the same command (no restart)
    let samples: Vec<f32> = (0..5).map(|_| g.val(1e2)).collect();
    guarded(tr, "zero.cmdpid", |tr| {
        use rrtk::streams::control::CommandPID;
        let kv = PositionDerivativeDependentPIDKValues::new(PIDKValues::new(1.0, 0.5, 0.25), PIDKValues::new(1.0, 0.5, 0.25), PIDKValues::new(1.0, 0.5, 0.25));
        for (c0, c1) in [(Command::Position(0.0), Command::Position(-0.0)), (Command::Velocity(-0.0), Command::Velocity(0.0)), (Command::Acceleration(0.0), Command::Acceleration(-0.0))] {
            let src = Src::<State>::new();
            let mut s = CommandPID::new(src.dynref(), c0, kv);
            for (k, &x) in samples.iter().enumerate() {
                if k == 3 {
                    tr.noe("zero.cmdpid", ".set", &s.set(c1));
                }
                src.some(1_000_000_000 * (k as i64 + 1), State::new_raw(x, -x, x * 0.5));
                tr.noe("zero.cmdpid", ".upd", &s.update());
                tr.out_f("zero.cmdpid", &s.get());
            }
        }
    });
}
