//! cfgmatrix — C19: "feature configuration changes only whether units are checked, never the numbers".
//!
//! One seeded workload over rrtk's whole public API, printed as a canonical trace on stdout.  The
//! same source is built under every feature configuration of rrtk; /verif/lib/lane_c19.py diffs the
//! traces.  Usage: cfgmatrix --seed S --programs N --first K
//!
//! Trace: header `#config checked=<bool> cfg=<bool> float=<std|libm|micromath>`, then one line per
//! observation `<program> <tag> <class> <payload>` (see util::Tr).  Units are never printed: they do
//! not exist in unchecked builds.  Whether checking is compiled in is detected at run time from
//! `size_of::<Unit>()`; items that exist only with checking are cfg-gated on rrtk's own expression.
#![allow(dead_code)]
#[path = "../../harness/src/rng.rs"]
mod rng;
mod api;
mod devices;
mod illdim;
mod longrun;
mod scalars;
mod streams;
mod util;
use std::io::Write;
use util::*;

const CHECKED_CFG: bool = cfg!(any(feature = "dim_check_release", all(debug_assertions, feature = "dim_check_debug")));

fn arg(name: &str, default: u64) -> u64 {
    let a: Vec<String> = std::env::args().collect();
    for i in 0..a.len() {
        if a[i] == name && i + 1 < a.len() {
            return a[i + 1].parse().unwrap_or_else(|_| {
                eprintln!("bad value for {}", name);
                std::process::exit(64)
            });
        }
    }
    default
}

fn main() {
    let seed = arg("--seed", 1);
    let programs = arg("--programs", 1);
    let first = arg("--first", 0);
    silence_panics();
    let checked = core::mem::size_of::<rrtk::Unit>() != 0;
    let float = if cfg!(feature = "std") {
        "std"
    } else if cfg!(feature = "libm") {
        "libm"
    } else {
        "micromath"
    };
    let stdout = std::io::stdout();
    let mut out = std::io::BufWriter::with_capacity(1 << 20, stdout.lock());
    writeln!(out, "#config checked={} cfg={} float={}", checked, CHECKED_CFG, float).unwrap();
    let mut tr = Tr::new();
    let pw = streams::CratePow::new();
    for i in first..first + programs {
        tr.prog = i;
        // ---- section 1: the well-dimensioned program
        let mut g = G::new(seed, 1901, i);
        // (every rrtk call inside the sections is under panic capture already; the outer guard only
        // turns an escape into an observation instead of a dead process)
        let pwr = &pw;
        // the fixed edge pools give the same answer in every program: complete only in every 8th
        let full = i % 8 == 1;
        let sections: [(&str, &dyn Fn(&mut Tr, &mut G)); 20] = [
            ("section.quantities", &scalars::quantities),
            ("section.states", &scalars::states),
            ("section.commands", &scalars::commands),
            ("section.data", &scalars::data),
            ("section.profiles", &scalars::profiles),
            ("section.control", &move |tr: &mut Tr, g: &mut G| streams::control(tr, g, pwr)),
            ("section.converters", &streams::converters),
            ("section.flow_logic", &streams::flow_logic),
            ("section.math", &streams::math),
            ("section.adapters", &streams::adapters),
            ("section.terminals", &devices::terminals),
            ("section.two_terminal", &devices::two_terminal),
            ("section.three_terminal", &devices::three_terminal),
            ("section.wrappers", &devices::wrappers),
            ("section.exact_points", &move |tr: &mut Tr, g: &mut G| streams::exact_points(tr, g, pwr)),
            ("section.interference", &longrun::interference),
            ("section.api.compare", &move |tr: &mut Tr, g: &mut G| api::compare(tr, g, full)),
            ("section.api.convert", &move |tr: &mut Tr, g: &mut G| api::convert(tr, g, full)),
            ("section.api.setters", &move |tr: &mut Tr, g: &mut G| api::setters(tr, g, full)),
            ("section.signed_zero", &move |tr: &mut Tr, g: &mut G| scalars::signed_zero(tr, g, full)),
        ];
        for (name, f) in sections {
            guarded(&mut tr, name, |tr| f(tr, &mut g));
        }
        // long-running streams: every 8th program, own generator stream
        if i % 8 == 0 {
            let mut g3 = G::new(seed, 1903, i);
            guarded(&mut tr, "section.long_runs", |tr| longrun::long_runs(tr, &mut g3, pwr));
            g.acc ^= g3.acc;
        }
        // every input drawn so far, hashed: differs between builds only if the harness itself is
        // not deterministic (the driver then says INCONCLUSIVE, not VIOLATION)
        tr.i("zz.inputs", (g.acc >> 1) as i64);
        // ---- section 2: ill-dimensioned programs, only where units do not exist
        if !checked {
            let mut g2 = G::new(seed, 1902, i);
            if catch(|| illdim::illdim(&mut tr, &mut g2)).is_none() {
                tr.u_word("ill.section", "", "panic");
            }
            if catch(|| illdim::illdim_edges(&mut tr, &mut g2, full)).is_none() {
                tr.u_word("ill.section.edges", "", "panic");
            }
        }
        if tr.buf.len() > (1 << 19) {
            out.write_all(tr.buf.as_bytes()).unwrap();
            tr.buf.clear();
        }
    }
    out.write_all(tr.buf.as_bytes()).unwrap();
    out.flush().unwrap();
}
