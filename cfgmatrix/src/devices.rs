//! Terminals and every device, a few rounds each: write states / commands (increasing stamps) on
//! external terminals linked to the device and on its own terminals, update, read everything back.
use crate::util::*;
use rrtk::devices::wrappers::{ActuatorWrapper, GetterStateDeviceWrapper, PIDWrapper};
use rrtk::devices::*;
use rrtk::*;
use std::cell::RefCell;

type Term<'a> = RefCell<Terminal<'a, E>>;

fn set_state(t: &Term<'_>, d: Datum<State>) {
    let _ = <Terminal<E> as Settable<Datum<State>, E>>::set(&mut t.borrow_mut(), d);
}
fn set_command(t: &Term<'_>, d: Datum<Command>) {
    let _ = <Terminal<E> as Settable<Datum<Command>, E>>::set(&mut t.borrow_mut(), d);
}
fn own_state(t: &Term<'_>) -> Option<Datum<State>> {
    <Terminal<E> as Settable<Datum<State>, E>>::get_last_request(&t.borrow())
}
fn own_command(t: &Term<'_>) -> Option<Datum<Command>> {
    <Terminal<E> as Settable<Datum<Command>, E>>::get_last_request(&t.borrow())
}
/// All reads of one terminal: own slots, combined state (mean with partner), newest command, terminal data.
fn read_all(tr: &mut Tr, tag: &str, t: &Term<'_>) {
    tr.opt_dstate(&format!("{}.own_state", tag), &own_state(t));
    tr.opt_dcmd(&format!("{}.own_cmd", tag), &own_command(t));
    tr.out_state(&format!("{}.get_state", tag), &<Terminal<E> as Getter<State, E>>::get(&t.borrow()));
    tr.out_cmd(&format!("{}.get_cmd", tag), &<Terminal<E> as Getter<Command, E>>::get(&t.borrow()));
    tr.out_td(&format!("{}.get_td", tag), &<Terminal<E> as Getter<TerminalData, E>>::get(&t.borrow()));
}
/// Random writes of one round onto a set of terminals; stamps strictly increase across the case.
struct Clock {
    t: i64,
}
impl Clock {
    fn new(g: &mut G) -> Self {
        Clock { t: g.range(0, 1_000_000_000_000) }
    }
    fn tick(&mut self, g: &mut G) -> i64 {
        self.t += g.step(1_000_000, 10_000_000_000);
        self.t
    }
}
#[derive(Clone, Copy)]
enum Write {
    S(usize, i64, State),
    C(usize, i64, Command),
}
fn gen_writes(g: &mut G, clk: &mut Clock, nterm: usize, p_state: f64, p_cmd: f64, mag: f64) -> Vec<Write> {
    let mut v = Vec::new();
    for i in 0..nterm {
        if g.chance(p_state) {
            let t = clk.tick(g);
            v.push(Write::S(i, t, g.st(mag)));
        }
        if g.chance(p_cmd) {
            let t = clk.tick(g);
            v.push(Write::C(i, t, g.cmd(mag)));
        }
    }
    v
}
fn apply(ws: &[Write], terms: &[&Term<'_>]) {
    for w in ws {
        match *w {
            Write::S(i, t, s) => set_state(terms[i], Datum::new(Time(t), s)),
            Write::C(i, t, c) => set_command(terms[i], Datum::new(Time(t), c)),
        }
    }
}
const ROUNDS: usize = 3;

// =============================================================================================
pub fn terminals(tr: &mut Tr, g: &mut G) {
    let mut clk = Clock::new(g);
    let w1 = gen_writes(g, &mut clk, 3, 0.7, 0.6, 1e3);
    let w2 = gen_writes(g, &mut clk, 3, 0.6, 0.6, 1e3);
    let w3 = gen_writes(g, &mut clk, 3, 0.5, 0.5, 1e3);
    let td = TerminalData {
        time: Time(clk.tick(g)),
        command: if g.chance(0.5) { Some(g.cmd(1e3)) } else { None },
        state: if g.chance(0.5) { Some(g.st(1e3)) } else { None },
    };
    guarded(tr, "terminal", |tr| {
        let a: Term<'_> = Terminal::new();
        let b: Term<'_> = Terminal::new();
        let c: Term<'_> = Terminal::new();
        let ts = [&a, &b, &c];
        apply(&w1, &ts);
        read_all(tr, "terminal.unlinked", &a);
        connect(&a, &b);
        read_all(tr, "terminal.linked.a", &a);
        read_all(tr, "terminal.linked.b", &b);
        apply(&w2, &ts);
        read_all(tr, "terminal.linked.a", &a);
        // re-link: a-c (b is released), then connect the already connected pair again
        connect(&a, &c);
        read_all(tr, "terminal.relinked.a", &a);
        read_all(tr, "terminal.relinked.b", &b);
        read_all(tr, "terminal.relinked.c", &c);
        connect(&c, &a);
        apply(&w3, &ts);
        tr.noe("terminal", ".upd", &a.borrow_mut().update());
        read_all(tr, "terminal.relinked.c", &c);
        c.borrow_mut().disconnect();
        read_all(tr, "terminal.disconnected.a", &a);
        b.borrow_mut().disconnect();
        read_all(tr, "terminal.disconnected.b", &b);
        // TerminalData conversions
        match Datum::<Command>::try_from(td) {
            Ok(d) => {
                tr.i("terminal_data.to_cmd.t", d.time.0);
                tr.cmd("terminal_data.to_cmd", d.value);
            }
            Err(()) => tr.w("terminal_data.to_cmd", "rejected"),
        }
        match Datum::<State>::try_from(td) {
            Ok(d) => {
                tr.i("terminal_data.to_state.t", d.time.0);
                tr.state("terminal_data.to_state", d.value);
            }
            Err(()) => tr.w("terminal_data.to_state", "rejected"),
        }
    });
}

// =============================================================================================
/// Common driver: link the external terminals to the device's own ones, then per round apply the
/// writes (indices: externals first, then own terminals), update, read every own terminal back.
fn run_dev<'a, D: Device<E>>(
    tr: &mut Tr,
    tag: &str,
    dev: &mut D,
    own: &[&'a Term<'a>],
    ext: &[&'a Term<'a>],
    linked: &[bool],
    rounds: &[Vec<Write>],
) {
    for i in 0..own.len() {
        if linked[i] {
            // alternate the argument order of connect()
            if i % 2 == 0 {
                connect(ext[i], own[i]);
            } else {
                connect(own[i], ext[i]);
            }
        }
    }
    let mut ts: Vec<&Term<'a>> = Vec::new();
    ts.extend_from_slice(ext);
    ts.extend_from_slice(own);
    for ws in rounds {
        apply(ws, &ts);
        tr.noe(tag, ".upd", &dev.update());
        for (i, t) in own.iter().enumerate() {
            read_all(tr, &format!("{}.t{}", tag, i), t);
        }
    }
    tr.noe(tag, ".upd_terminals", &dev.update_terminals());
}

/// Two-terminal devices: Invert and GearTrain (three constructors).
pub fn two_terminal(tr: &mut Tr, g: &mut G) {
    let kind = g.below(4);
    let ratio = g.nz(1e2);
    let teeth: [f32; 3] = [g.pos(5.0, 60.0).round(), g.pos(5.0, 60.0).round(), g.pos(5.0, 60.0).round()];
    let mut clk = Clock::new(g);
    // terminals 0,1 = external partners of term1/term2; 2,3 = the device's own terminals
    let rounds: Vec<Vec<Write>> = (0..ROUNDS)
        .map(|r| {
            let mut w = gen_writes(g, &mut clk, 2, if r == 0 { 0.7 } else { 0.5 }, 0.4, 1e3);
            if g.chance(0.3) {
                w.extend(gen_writes(g, &mut clk, 4, 0.2, 0.2, 1e3));
            }
            w
        })
        .collect();
    let linked = [g.chance(0.85), g.chance(0.85)];
    let tag = ["invert", "gear_train.raw", "gear_train.quantity", "gear_train.teeth"][kind as usize];
    guarded(tr, tag, |tr| {
        let e1: Term<'_> = Terminal::new();
        let e2: Term<'_> = Terminal::new();
        if kind == 0 {
            let mut dev = Invert::<E>::new();
            let own = [dev.get_terminal_1(), dev.get_terminal_2()];
            run_dev(tr, tag, &mut dev, &own, &[&e1, &e2], &linked, &rounds);
        } else {
            let mut dev = match kind {
                1 => GearTrain::<E>::with_ratio_raw(ratio),
                2 => GearTrain::<E>::with_ratio(Quantity::dimensionless(ratio)),
                _ => GearTrain::<E>::new(teeth),
            };
            let own = [dev.get_terminal_1(), dev.get_terminal_2()];
            run_dev(tr, tag, &mut dev, &own, &[&e1, &e2], &linked, &rounds);
        }
    });
}

// =============================================================================================
/// Three-terminal devices: Axle<3> and Differential in its four modes (+ new()).
pub fn three_terminal(tr: &mut Tr, g: &mut G) {
    let kind = g.below(6);
    let mut clk = Clock::new(g);
    let rounds: Vec<Vec<Write>> = (0..ROUNDS)
        .map(|r| {
            let mut w = gen_writes(g, &mut clk, 3, if r == 0 { 0.8 } else { 0.5 }, 0.4, 1e3);
            if g.chance(0.3) {
                w.extend(gen_writes(g, &mut clk, 6, 0.15, 0.15, 1e3));
            }
            w
        })
        .collect();
    let linked = [true, true, g.chance(0.9)];
    let tag = ["axle", "differential.side1", "differential.side2", "differential.sum", "differential.equal", "differential.new"][kind as usize];
    guarded(tr, tag, |tr| {
        let e0: Term<'_> = Terminal::new();
        let e1: Term<'_> = Terminal::new();
        let e2: Term<'_> = Terminal::new();
        if kind == 0 {
            let mut dev = Axle::<3, E>::new();
            let own = [dev.get_terminal(0), dev.get_terminal(1), dev.get_terminal(2)];
            run_dev(tr, tag, &mut dev, &own, &[&e0, &e1, &e2], &linked, &rounds);
        } else {
            let mut dev = match kind {
                1 => Differential::<E>::with_distrust(DifferentialDistrust::Side1),
                2 => Differential::<E>::with_distrust(DifferentialDistrust::Side2),
                3 => Differential::<E>::with_distrust(DifferentialDistrust::Sum),
                4 => Differential::<E>::with_distrust(DifferentialDistrust::Equal),
                _ => Differential::<E>::new(),
            };
            let own = [dev.get_side_1(), dev.get_side_2(), dev.get_sum()];
            run_dev(tr, tag, &mut dev, &own, &[&e0, &e1, &e2], &linked, &rounds);
        }
    });
}

// =============================================================================================
/// Wrappers: ActuatorWrapper, GetterStateDeviceWrapper, PIDWrapper.
pub fn wrappers(tr: &mut Tr, g: &mut G) {
    // ---- ActuatorWrapper: what reaches the inner settable
    {
        let mut clk = Clock::new(g);
        let rounds: Vec<Vec<Write>> = (0..ROUNDS).map(|_| gen_writes(g, &mut clk, 2, 0.5, 0.6, 1e3)).collect();
        guarded(tr, "actuator", |tr| {
            let ext: Term<'_> = Terminal::new();
            let log = rc(Vec::<TerminalData>::new());
            let mut w = ActuatorWrapper::new(Rec::new(log.clone()));
            let term = w.get_terminal();
            connect(term, &ext);
            let ts = [&ext, term];
            for ws in &rounds {
                apply(ws, &ts);
                let before = log.borrow().len();
                tr.noe("actuator", ".upd", &w.update());
                let l = log.borrow();
                tr.i("actuator.sets", (l.len() - before) as i64);
                for d in &l[before..] {
                    tr.td("actuator.set", d);
                }
            }
            tr.noe("actuator", ".upd_terminals", &w.update_terminals());
        });
    }
    // ---- GetterStateDeviceWrapper: inner scripted getter, terminal's own state slot afterwards
    {
        let n = 4 + g.usize(3);
        let h = history(g, n, |g| g.st(1e3));
        guarded(tr, "getter_state_wrapper", |tr| {
            let ext: Term<'_> = Terminal::new();
            let src = Src::<State>::new();
            let mut w = GetterStateDeviceWrapper::new(SrcG(src.0.clone()));
            let term = w.get_terminal();
            connect(&ext, term);
            for ev in &h {
                src.ev(ev);
                tr.noe("getter_state_wrapper", ".upd", &w.update());
                tr.opt_dstate("getter_state_wrapper.own_state", &own_state(term));
                tr.out_state("getter_state_wrapper.ext_get", &<Terminal<E> as Getter<State, E>>::get(&ext.borrow()));
            }
            tr.noe("getter_state_wrapper", ".upd_terminals", &w.update_terminals());
        });
    }
    // ---- PIDWrapper: what reaches the inner motor
    {
        let mut clk = Clock::new(g);
        let t0 = clk.tick(g);
        let s0 = g.st(1e3);
        let c0 = g.cmd(1e3);
        let kv = PositionDerivativeDependentPIDKValues::new(
            PIDKValues::new(g.val(10.0), g.val(10.0), g.val(10.0)),
            PIDKValues::new(g.val(10.0), g.val(10.0), g.val(10.0)),
            PIDKValues::new(g.val(10.0), g.val(10.0), g.val(10.0)),
        );
        let nr = 4 + g.usize(3);
        // a fresh state in (almost) every round so that the PID sees strictly increasing stamps
        let rounds: Vec<Vec<Write>> = (0..nr)
            .map(|r| gen_writes(g, &mut clk, 1, if r < 2 { 1.0 } else { 0.9 }, if r == 0 { 0.8 } else { 0.25 }, 1e3))
            .collect();
        guarded(tr, "pid_wrapper", |tr| {
            let ext: Term<'_> = Terminal::new();
            let log = rc(Vec::<f32>::new());
            let mut w = PIDWrapper::new(Rec::new(log.clone()), Time(t0), s0, c0, kv);
            let term = w.get_terminal();
            connect(term, &ext);
            let ts = [&ext];
            for ws in &rounds {
                apply(ws, &ts);
                let before = log.borrow().len();
                tr.noe("pid_wrapper", ".upd", &w.update());
                let l = log.borrow();
                tr.i("pid_wrapper.sets", (l.len() - before) as i64);
                for x in &l[before..] {
                    tr.f("pid_wrapper.set", *x);
                }
            }
            tr.noe("pid_wrapper", ".upd_terminals", &w.update_terminals());
        });
    }
}
