//! Trace writer, seeded generator wrapper, scripted getters, panic capture.
use crate::rng::Rng;
use rrtk::*;
use std::cell::RefCell;
use std::fmt::Write as _;
use std::panic::{catch_unwind, AssertUnwindSafe};
use std::rc::Rc;

pub type E = u8;
pub type Out<T> = Output<T, E>;

// ---------------------------------------------------------------------------------------------
// canonical values
// ---------------------------------------------------------------------------------------------
/// Canonical bits: -0 == +0, every NaN == 7fc00000 ("compared as f32 values").
#[inline]
pub fn cbits(x: f32) -> u32 {
    if x.is_nan() {
        0x7fc0_0000
    } else if x == 0.0 {
        0
    } else {
        x.to_bits()
    }
}
pub fn err_word(e: &Error<E>) -> &'static str {
    match e {
        Error::Other(1) => "err1",
        Error::Other(2) => "err2",
        Error::FromNone => "errFromNone",
        _ => "errOther",
    }
}
pub fn pd_word(pd: PositionDerivative) -> &'static str {
    match pd {
        PositionDerivative::Position => "pos",
        PositionDerivative::Velocity => "vel",
        PositionDerivative::Acceleration => "acc",
    }
}
pub const PDS: [PositionDerivative; 3] = [
    PositionDerivative::Position,
    PositionDerivative::Velocity,
    PositionDerivative::Acceleration,
];

// ---------------------------------------------------------------------------------------------
// trace
// ---------------------------------------------------------------------------------------------
/// One line per observation: `<program> <tag> <class> <payload>`.
/// Classes: E exact in every configuration; P downstream of powf; S in-build EWMA law self-check;
/// C exists only when dimension checking is compiled in (compared among the checked builds);
/// U ill-dimensioned operation in an unchecked build.  A unit is never printed.
pub struct Tr {
    pub buf: String,
    pub prog: u64,
}
impl Tr {
    pub fn new() -> Self {
        Tr { buf: String::with_capacity(1 << 20), prog: 0 }
    }
    #[inline]
    fn head(&mut self, tag: &str, suf: &str, cls: char) {
        let _ = write!(self.buf, "{} {}{} {} ", self.prog, tag, suf, cls);
    }
    // ---- atoms
    pub fn f2(&mut self, tag: &str, suf: &str, cls: char, x: f32) {
        self.head(tag, suf, cls);
        let _ = writeln!(self.buf, "{:08x}", cbits(x));
    }
    pub fn i2(&mut self, tag: &str, suf: &str, cls: char, x: i64) {
        self.head(tag, suf, cls);
        let _ = writeln!(self.buf, "{}", x);
    }
    pub fn w2(&mut self, tag: &str, suf: &str, cls: char, w: &str) {
        self.head(tag, suf, cls);
        let _ = writeln!(self.buf, "{}", w);
    }
    pub fn f(&mut self, tag: &str, x: f32) {
        self.f2(tag, "", 'E', x)
    }
    pub fn i(&mut self, tag: &str, x: i64) {
        self.i2(tag, "", 'E', x)
    }
    pub fn b(&mut self, tag: &str, x: bool) {
        self.i2(tag, "", 'E', x as i64)
    }
    pub fn w(&mut self, tag: &str, w: &str) {
        self.w2(tag, "", 'E', w)
    }
    /// P line with the magnitude against which the driver measures ulps.
    pub fn pm(&mut self, tag: &str, suf: &str, x: f32, mag: f32) {
        self.head(tag, suf, 'P');
        let _ = writeln!(self.buf, "{:08x} m={:08x}", cbits(x), cbits(mag.abs()));
    }
    pub fn s(&mut self, tag: &str, ok: bool, got: f32, want: f32) {
        self.head(tag, "", 'S');
        if ok {
            let _ = writeln!(self.buf, "ok");
        } else {
            let _ = writeln!(self.buf, "mismatch got={:08x} want={:08x}", cbits(got), cbits(want));
        }
    }
    // ---- class U
    pub fn u_f(&mut self, tag: &str, suf: &str, got: f32, expect: f32) {
        self.head(tag, suf, 'U');
        let _ = writeln!(self.buf, "ok {:08x} expect={:08x}", cbits(got), cbits(expect));
    }
    pub fn u_i(&mut self, tag: &str, suf: &str, got: i64, expect: i64) {
        self.head(tag, suf, 'U');
        let _ = writeln!(self.buf, "ok {} expect={}", got, expect);
    }
    pub fn u_word(&mut self, tag: &str, suf: &str, w: &str) {
        self.w2(tag, suf, 'U', w)
    }
    // ---- composites (class E unless said otherwise)
    pub fn q(&mut self, tag: &str, x: Quantity) {
        self.f(tag, x.value)
    }
    pub fn state2(&mut self, tag: &str, suf: &str, cls: char, s: State) {
        let t = format!("{}{}", tag, suf);
        self.f2(&t, ".p", cls, s.position);
        self.f2(&t, ".v", cls, s.velocity);
        self.f2(&t, ".a", cls, s.acceleration);
    }
    pub fn state(&mut self, tag: &str, s: State) {
        self.state2(tag, "", 'E', s)
    }
    pub fn cmd2(&mut self, tag: &str, suf: &str, cls: char, c: Command) {
        let t = format!("{}{}", tag, suf);
        self.w2(&t, ".k", cls, pd_word(PositionDerivative::from(c)));
        self.f2(&t, ".x", cls, f32::from(c));
    }
    pub fn cmd(&mut self, tag: &str, c: Command) {
        self.cmd2(tag, "", 'E', c)
    }
    pub fn optq(&mut self, tag: &str, x: Option<Quantity>) {
        match x {
            None => self.w(tag, "none"),
            Some(q) => {
                self.w(tag, "some");
                self.f2(tag, ".x", 'E', q.value);
            }
        }
    }
    pub fn noe(&mut self, tag: &str, suf: &str, r: &NothingOrError<E>) {
        match r {
            Ok(()) => self.w2(tag, suf, 'E', "ok"),
            Err(e) => self.w2(tag, suf, 'E', err_word(e)),
        }
    }
    /// Category + timestamp of an output; returns the datum when present.
    fn out_head<'a, T>(&mut self, tag: &str, o: &'a Out<T>) -> Option<&'a Datum<T>> {
        match o {
            Err(e) => {
                self.w(tag, err_word(e));
                None
            }
            Ok(None) => {
                self.w(tag, "none");
                None
            }
            Ok(Some(d)) => {
                self.w(tag, "some");
                self.i2(tag, ".t", 'E', d.time.0);
                Some(d)
            }
        }
    }
    pub fn out_f(&mut self, tag: &str, o: &Out<f32>) {
        if let Some(d) = self.out_head(tag, o) {
            self.f2(tag, ".x", 'E', d.value);
        }
    }
    /// Output whose value is downstream of powf.
    pub fn out_f_p(&mut self, tag: &str, o: &Out<f32>, mag: f32) {
        if let Some(d) = self.out_head(tag, o) {
            self.pm(tag, ".x", d.value, mag);
        }
    }
    pub fn out_q(&mut self, tag: &str, o: &Out<Quantity>) {
        if let Some(d) = self.out_head(tag, o) {
            self.f2(tag, ".x", 'E', d.value.value);
        }
    }
    pub fn out_b(&mut self, tag: &str, o: &Out<bool>) {
        if let Some(d) = self.out_head(tag, o) {
            self.i2(tag, ".x", 'E', d.value as i64);
        }
    }
    pub fn out_state(&mut self, tag: &str, o: &Out<State>) {
        if let Some(d) = self.out_head(tag, o) {
            self.state(tag, d.value);
        }
    }
    pub fn out_cmd(&mut self, tag: &str, o: &Out<Command>) {
        if let Some(d) = self.out_head(tag, o) {
            self.cmd(tag, d.value);
        }
    }
    pub fn td(&mut self, tag: &str, d: &TerminalData) {
        self.i2(tag, ".time", 'E', d.time.0);
        match d.command {
            None => self.w2(tag, ".cmd", 'E', "none"),
            Some(c) => {
                self.w2(tag, ".cmd", 'E', "some");
                self.cmd2(tag, ".cmd", 'E', c);
            }
        }
        match d.state {
            None => self.w2(tag, ".st", 'E', "none"),
            Some(s) => {
                self.w2(tag, ".st", 'E', "some");
                self.state2(tag, ".st", 'E', s);
            }
        }
    }
    pub fn out_td(&mut self, tag: &str, o: &Out<TerminalData>) {
        if let Some(d) = self.out_head(tag, o) {
            self.td(tag, &d.value);
        }
    }
    pub fn opt_dstate(&mut self, tag: &str, o: &Option<Datum<State>>) {
        match o {
            None => self.w(tag, "none"),
            Some(d) => {
                self.w(tag, "some");
                self.i2(tag, ".t", 'E', d.time.0);
                self.state(tag, d.value);
            }
        }
    }
    pub fn opt_dcmd(&mut self, tag: &str, o: &Option<Datum<Command>>) {
        match o {
            None => self.w(tag, "none"),
            Some(d) => {
                self.w(tag, "some");
                self.i2(tag, ".t", 'E', d.time.0);
                self.cmd(tag, d.value);
            }
        }
    }
}

// ---------------------------------------------------------------------------------------------
// panic capture
// ---------------------------------------------------------------------------------------------
pub fn silence_panics() {
    if std::env::var_os("VERIF_PANIC_VERBOSE").is_none() {
        std::panic::set_hook(Box::new(|_| {}));
    }
}
/// Run `f`; `None` if it unwound.
pub fn catch<T>(f: impl FnOnce() -> T) -> Option<T> {
    catch_unwind(AssertUnwindSafe(f)).ok()
}
/// Run a trace-producing section under panic capture; a panic is itself an observation.
pub fn guarded(tr: &mut Tr, tag: &str, f: impl FnOnce(&mut Tr)) {
    if catch(|| f(tr)).is_none() {
        tr.w2(tag, ".outcome", 'E', "panic");
    }
}

// ---------------------------------------------------------------------------------------------
// seeded generator: every case is a pure function of (seed, program index)
// ---------------------------------------------------------------------------------------------
pub struct G {
    r: Rng,
    /// running hash of everything drawn; printed per program so the driver can tell a harness
    /// nondeterminism (INCONCLUSIVE) from a difference inside rrtk
    pub acc: u64,
}
impl G {
    pub fn new(seed: u64, stream: u64, index: u64) -> Self {
        G { r: Rng::new(seed, stream, index), acc: 0x243F6A8885A308D3 }
    }
    #[inline]
    fn mix(&mut self, x: u64) {
        self.acc = (self.acc ^ x).wrapping_mul(0x100000001B3).rotate_left(7);
    }
    /// stratified finite f32 incl. +-0, powers of two, small integers
    pub fn val(&mut self, max_mag: f64) -> f32 {
        let x = self.r.moderate(max_mag);
        self.mix(x.to_bits() as u64);
        x
    }
    pub fn nz(&mut self, max_mag: f64) -> f32 {
        let x = self.r.moderate_nz(max_mag);
        self.mix(x.to_bits() as u64);
        x
    }
    /// log-uniform positive f32 in [lo, hi]
    pub fn pos(&mut self, lo: f64, hi: f64) -> f32 {
        let x = (self.r.log_uniform(lo, hi) as f32).clamp(lo as f32, hi as f32);
        self.mix(x.to_bits() as u64);
        x
    }
    pub fn uniform(&mut self, lo: f64, hi: f64) -> f32 {
        let x = self.r.uniform(lo, hi) as f32;
        self.mix(x.to_bits() as u64);
        x
    }
    pub fn below(&mut self, n: u64) -> u64 {
        let x = self.r.below(n);
        self.mix(x);
        x
    }
    pub fn usize(&mut self, n: usize) -> usize {
        self.below(n as u64) as usize
    }
    pub fn chance(&mut self, p: f64) -> bool {
        let x = self.r.chance(p);
        self.mix(x as u64);
        x
    }
    pub fn range(&mut self, lo: i64, hi: i64) -> i64 {
        let x = self.r.range_i64(lo, hi);
        self.mix(x as u64);
        x
    }
    /// non-zero integer with |x| in [1, hi]
    pub fn range_nz(&mut self, hi: i64) -> i64 {
        let m = self.range(1, hi);
        if self.chance(0.5) {
            m
        } else {
            -m
        }
    }
    pub fn step(&mut self, lo: i64, hi: i64) -> i64 {
        let x = self.r.step_ns(lo, hi);
        self.mix(x as u64);
        x
    }
    pub fn stamp_any(&mut self) -> i64 {
        let x = self.r.stamp();
        self.mix(x as u64);
        x
    }
    pub fn pd(&mut self) -> PositionDerivative {
        PDS[self.usize(3)]
    }
    pub fn cmd(&mut self, max_mag: f64) -> Command {
        let pd = self.pd();
        Command::new(pd, self.val(max_mag))
    }
    pub fn st(&mut self, max_mag: f64) -> State {
        State::new_raw(self.val(max_mag), self.val(max_mag), self.val(max_mag))
    }
}

// ---------------------------------------------------------------------------------------------
// scripted getters
// ---------------------------------------------------------------------------------------------
/// One input event of a history.
#[derive(Clone, Copy, Debug)]
pub enum Ev<T> {
    Some(i64, T),
    None,
    Err(u8),
}
impl<T: Clone> Ev<T> {
    pub fn out(&self) -> Out<T> {
        match self {
            Ev::Some(t, v) => Ok(Some(Datum::new(Time(*t), v.clone()))),
            Ev::None => Ok(None),
            Ev::Err(e) => Err(Error::Other(*e)),
        }
    }
}
/// A getter whose output is whatever the workload last put there.
pub struct Cell<T: Clone> {
    pub out: Out<T>,
}
impl<T: Clone> Getter<T, E> for Cell<T> {
    fn get(&self) -> Out<T> {
        self.out.clone()
    }
}
impl<T: Clone> Updatable<E> for Cell<T> {
    fn update(&mut self) -> NothingOrError<E> {
        Ok(())
    }
}
pub struct Src<T: Clone>(pub Rc<RefCell<Cell<T>>>);
impl<T: Clone> Clone for Src<T> {
    fn clone(&self) -> Self {
        Src(self.0.clone())
    }
}
impl<T: Clone + 'static> Src<T> {
    pub fn new() -> Self {
        Src(Rc::new(RefCell::new(Cell { out: Ok(None) })))
    }
    pub fn set(&self, out: Out<T>) {
        self.0.borrow_mut().out = out;
    }
    pub fn ev(&self, ev: &Ev<T>) {
        self.set(ev.out());
    }
    pub fn some(&self, t: i64, v: T) {
        self.set(Ok(Some(Datum::new(Time(t), v))));
    }
    /// `Reference<dyn Getter>` by unsizing coercion (never through `to_dyn!`).
    pub fn dynref(&self) -> Reference<dyn Getter<T, E>> {
        let rc: Rc<RefCell<dyn Getter<T, E>>> = self.0.clone();
        Reference::from_rc_ref_cell(rc)
    }
    pub fn typed(&self) -> Reference<Cell<T>> {
        Reference::from_rc_ref_cell(self.0.clone())
    }
}
/// By-value handle on a scripted cell (for wrappers that own their inner getter).
pub struct SrcG<T: Clone>(pub Rc<RefCell<Cell<T>>>);
impl<T: Clone> Getter<T, E> for SrcG<T> {
    fn get(&self) -> Out<T> {
        self.0.borrow().out.clone()
    }
}
impl<T: Clone> Updatable<E> for SrcG<T> {
    fn update(&mut self) -> NothingOrError<E> {
        Ok(())
    }
}
/// Scripted clock.
pub struct TCell {
    pub out: TimeOutput<E>,
}
impl TimeGetter<E> for TCell {
    fn get(&self) -> TimeOutput<E> {
        self.out
    }
}
impl Updatable<E> for TCell {
    fn update(&mut self) -> NothingOrError<E> {
        Ok(())
    }
}
#[derive(Clone)]
pub struct TSrc(pub Rc<RefCell<TCell>>);
impl TSrc {
    pub fn new(t: i64) -> Self {
        TSrc(Rc::new(RefCell::new(TCell { out: Ok(Time(t)) })))
    }
    pub fn set(&self, t: i64) {
        self.0.borrow_mut().out = Ok(Time(t));
    }
    pub fn err(&self, e: u8) {
        self.0.borrow_mut().out = Err(Error::Other(e));
    }
    pub fn dynref(&self) -> Reference<dyn TimeGetter<E>> {
        let rc: Rc<RefCell<dyn TimeGetter<E>>> = self.0.clone();
        Reference::from_rc_ref_cell(rc)
    }
    pub fn typed(&self) -> Reference<TCell> {
        Reference::from_rc_ref_cell(self.0.clone())
    }
}
/// A settable handed by value to a wrapper; everything it is given lands in the shared log.
pub struct Rec<S: Clone> {
    data: SettableData<S, E>,
    pub log: Rc<RefCell<Vec<S>>>,
}
impl<S: Clone> Rec<S> {
    pub fn new(log: Rc<RefCell<Vec<S>>>) -> Self {
        Rec { data: SettableData::new(), log }
    }
}
impl<S: Clone> Settable<S, E> for Rec<S> {
    fn impl_set(&mut self, value: S) -> NothingOrError<E> {
        self.log.borrow_mut().push(value);
        Ok(())
    }
    fn get_settable_data_ref(&self) -> &SettableData<S, E> {
        &self.data
    }
    fn get_settable_data_mut(&mut self) -> &mut SettableData<S, E> {
        &mut self.data
    }
}
impl<S: Clone> Updatable<E> for Rec<S> {
    fn update(&mut self) -> NothingOrError<E> {
        self.update_following_data()
    }
}
pub fn rc<T>(v: T) -> Rc<RefCell<T>> {
    Rc::new(RefCell::new(v))
}

// ---------------------------------------------------------------------------------------------
// histories
// ---------------------------------------------------------------------------------------------
/// `n` events with strictly increasing stamps (steps 1 ms .. 10 s from a start within 0..1e12 ns),
/// present / absent / Err(1) / Err(2) = 70 / 12 / 9 / 9 %; the first event is present 85 % of the time.
pub fn history<T>(g: &mut G, n: usize, mut mk: impl FnMut(&mut G) -> T) -> Vec<Ev<T>> {
    let mut t = g.range(0, 1_000_000_000_000);
    let mut v = Vec::with_capacity(n);
    for i in 0..n {
        t += g.step(1_000_000, 10_000_000_000);
        let k = g.below(100);
        let present = if i == 0 { k < 85 } else { k < 70 };
        if present {
            let x = mk(g);
            v.push(Ev::Some(t, x));
        } else if k < 82 {
            v.push(Ev::None);
        } else if k < 91 {
            v.push(Ev::Err(1));
        } else {
            v.push(Ev::Err(2));
        }
    }
    v
}
