//! C14 — State kinematics and State/Command/Quantity conversions are exact and consistent
//! (judged in every build: debug, release + dim_check_release, and release with dimension checking compiled
//! out -- see CHECKED for what the unchecked lane skips).
//!
//! Sub-checks (stream ids 1401..):
//!   update          State::update(dt) against an f64 reference with forward error bound; acceleration
//!                   bit-unchanged; dt = 0 exact identity (canonical bits); negative dt. Magnitudes are
//!                   generated so that every natural intermediate (a*dt, v+v', dt*(v+v')) is finite and
//!                   normal: "moderate" (<= 1e4) and "wide" (1e-20 .. 1e12).
//!   update-extreme  any finite f32 triple: only "no panic" and "acceleration bit-unchanged" are
//!                   demanded; overflowing intermediates are *tallied* (observation), not judged.
//!   setters         49 grid units x the three Quantity setters (+ the three raw setters).
//!   state-new       State::new(Quantity x3) panics iff a unit is wrong; accessors / get_value.
//!   from-state      Command::from(State) over all 4^3 {+0,-0,>0,<0} patterns.
//!   cmd-conv        Command constructors, accessors, conversions, round trips.
//!   state-arith     component-wise State arithmetic, exact against the plain f32 operators.
//!   cmd-arith       Command arithmetic over the 3x3 kind pairs; mixed-kind +/- panics.
//!   op-matrix       all 52 operator impls involving State / Command / Datum<State> / Datum<Command>
//!                   (list OP_IMPLS), each against the plain f32 operator, its timestamp rule and its
//!                   assign/binary sibling; one tally + floor per impl.
//!   setters-alias / cmd-arith-special / state-arith-special / from-state-tiny / update-grid-dt
//!                   the same oracles on inputs *related* to the receiver (argument bit-equal to the
//!                   stored value or to the other operand, +-0, 1, -1, special values, tiny non-zero next
//!                   to exact zero, dt on the whole-second and 2^32 ns grids): an early-out or fast path
//!                   keyed on such a coincidence is invisible to independently drawn operands.
//!
//! Reading of "a command built from a state is its lowest non-zero derivative": the statement's
//! wording is loose; the only reading compatible with the crate's own tests
//! ((1,2,3) -> Acceleration(3), (1,2,0) -> Velocity(2), (1,0,0) -> Position(1)) and with the accessor
//! table (a Position command implies velocity 0 and acceleration 0) is: acceleration if it is non-zero,
//! else velocity if it is non-zero, else position; -0.0 counts as zero. That is what is checked.
//!
//! Equality of f32 values is on canonical bits (-0 == +0, all NaN equal) except for "untouched"
//! fields (acceleration across update, state after a rejected setter, fields a setter does not
//! own), which must be bit-identical.
use rrtk::*;
use rrtk_mon::*;

/// Forward-error bound: |err| <= K * 2^-24 * sum|terms|  +  KD * 2^-24 * |dt * d(ref)/d(dt)|.
/// The first part covers the roundings of the arithmetic itself (any association of the closed
/// form has a handful of them, each relative 2^-24 of a partial sum <= sum|terms|). The second part
/// is the documented conversion of the i64 ns `Time` to f32 seconds inside the crate (`ns as f32`,
/// then `/ 1e9`: two roundings, relative 2^-24 each, on dt), propagated through the sensitivity of
/// the reference to dt taken term by term in absolute value: |a*dt| for v', |v*dt| + |a*dt^2| for p'.
/// KD = 2 roundings x 16 head-room.
const KV: f64 = 32.0;
const KP: f64 = 32.0;
const KD: f64 = 32.0;
/// 1e5 s in ns
const DT_MAX: i64 = 100_000_000_000_000;

/// Lane: is dimension checking compiled into rrtk in this build? Decided at run time (a mismatched
/// Quantity addition panics iff it is) and cross-checked against the size of Unit and against the cfg
/// this file uses for the items that only exist in checked builds.
/// * checked   (debug, or release + dim_check_release): every clause is judged.
/// * unchecked (release without dim_check_release; Unit is zero-sized, "every unit comparison assumes
///   ok"): there is no such thing as a wrongly dimensioned argument, so the clauses "wrong unit is
///   rejected / panics" are not judged (nothing can be rejected), while every argument must be ACCEPTED
///   and have its documented effect, and kinematics / conversions / arithmetic / mixed-kind panics
///   (which compare PositionDerivative, not units) are judged exactly as in the checked lanes.
static CHECKED: std::sync::atomic::AtomicBool = std::sync::atomic::AtomicBool::new(true);
fn checked() -> bool {
    CHECKED.load(std::sync::atomic::Ordering::Relaxed)
}
/// compile-time twin of `checked()`: the harness feature dim_release forwards rrtk/dim_check_release and
/// debug_assertions is the same profile switch for both crates (rrtk's default dim_check_debug)
const CHECKED_CFG: bool = cfg!(any(feature = "dim_release", debug_assertions));
fn u(m: i32, s: i32) -> Unit {
    Unit::new(m as i8, s as i8)
}
/// exponents (mm, s) of position / velocity / acceleration, written out literally
const EXPS: [(i32, i32); 3] = [(1, 0), (1, -1), (1, -2)];
const PDS: [PositionDerivative; 3] = [PositionDerivative::Position, PositionDerivative::Velocity, PositionDerivative::Acceleration];
const KIND: [&str; 3] = ["position", "velocity", "acceleration"];

#[derive(Clone, Copy, PartialEq, Debug, Hash)]
enum Mag {
    Moderate,
    Wide,
    Any,
}
fn nz(rng: &mut Rng, mag: Mag) -> f32 {
    match mag {
        Mag::Moderate => rng.moderate_nz(1e4),
        Mag::Wide => (rng.sign() * rng.log_uniform(1e-20, 1e12)) as f32,
        Mag::Any => loop {
            let x = rng.any_finite();
            if x != 0.0 {
                return x;
            }
        },
    }
}
/// one state component: 10% +0, 10% -0, else non-zero of the given magnitude family
fn comp(rng: &mut Rng, mag: Mag) -> f32 {
    match rng.below(10) {
        0 => 0.0,
        1 => -0.0,
        _ => nz(rng, mag),
    }
}
fn gen_state(rng: &mut Rng, mag: Mag) -> State {
    let p = comp(rng, mag);
    let v = comp(rng, mag);
    let a = comp(rng, mag);
    State::new_raw(p, v, a)
}
/// 0: +0, 1: -0, 2: > 0, 3: < 0
fn cls(x: f32) -> u8 {
    if x == 0.0 {
        if x.is_sign_negative() {
            1
        } else {
            0
        }
    } else if x > 0.0 {
        2
    } else {
        3
    }
}
fn scls(s: &State) -> (u8, u8, u8) {
    (cls(s.position), cls(s.velocity), cls(s.acceleration))
}
fn sbits(s: &State) -> [u32; 3] {
    [s.position.to_bits(), s.velocity.to_bits(), s.acceleration.to_bits()]
}
fn sfmt(s: &State) -> String {
    format!("State{{p={}, v={}, a={}}}", f(s.position), f(s.velocity), f(s.acceleration))
}
/// Observation of a command through pattern matching on the public enum (independent of the
/// crate's own conversion functions).
fn cparts(c: &Command) -> (usize, f32) {
    match c {
        Command::Position(x) => (0, *x),
        Command::Velocity(x) => (1, *x),
        Command::Acceleration(x) => (2, *x),
    }
}
fn mk(kind: usize, x: f32) -> Command {
    match kind {
        0 => Command::Position(x),
        1 => Command::Velocity(x),
        _ => Command::Acceleration(x),
    }
}
fn cfmt(c: &Command) -> String {
    let (k, x) = cparts(c);
    format!("{}({})", ["Position", "Velocity", "Acceleration"][k], f(x))
}
fn c_is(c: &Command, kind: usize, x: f32) -> bool {
    let (k, v) = cparts(c);
    k == kind && same(v, x)
}
fn q_is(q: &Quantity, x: f32, e: (i32, i32)) -> bool {
    // eq_assume_true is const_eq when dimension checking is compiled in and `true` when Unit is zero-sized
    same(q.value, x) && q.unit.eq_assume_true(&u(e.0, e.1))
}
fn dt_class(dt_ns: i64) -> (i8, u8) {
    let sign = dt_ns.signum() as i8;
    let mut dec = 0u8;
    let mut m = dt_ns.unsigned_abs();
    while m >= 10 {
        m /= 10;
        dec += 1;
    }
    (sign, dec)
}
fn dt_name(dt_ns: i64) -> &'static str {
    if dt_ns > 0 {
        "dt-positive"
    } else if dt_ns < 0 {
        "dt-negative"
    } else {
        "dt-zero"
    }
}
fn gen_dt(rng: &mut Rng, case: u64) -> i64 {
    match case % 10 {
        0 => 0,
        1 => 1,
        2 => -1,
        3 => {
            if rng.chance(0.5) {
                DT_MAX
            } else {
                -DT_MAX
            }
        }
        4 => rng.range_i64(-1000, 1000),
        5 => rng.range_i64(-DT_MAX, DT_MAX),
        _ => {
            let v = rng.step_ns(1, DT_MAX);
            if rng.chance(0.5) {
                v
            } else {
                -v
            }
        }
    }
}

// ------------------------------------------------------------------------------------ update
fn check_update(rep: &mut Report, sub: &'static str, case: u64, s0: State, dt_ns: i64, bounded: bool) {
    let dn = dt_name(dt_ns);
    let got = catch(|| {
        let mut s = s0;
        s.update(Time(dt_ns));
        s
    });
    rep.eval();
    let s1 = match got {
        Ok(s) => s,
        Err(msg) => {
            rep.violation(&format!("C14/update/panic/{}", dn), sub, case, format!("{}.update(Time({})) panicked: {}", sfmt(&s0), dt_ns, msg));
            return;
        }
    };
    rep.tally(&format!("update_{}", dn));
    // acceleration unchanged, bit for bit
    rep.eval();
    if s1.acceleration.to_bits() != s0.acceleration.to_bits() {
        rep.violation(&format!("C14/update/acceleration-changed/{}", dn), sub, case,
            format!("{}.update(Time({})) -> {}: acceleration must be unchanged", sfmt(&s0), dt_ns, sfmt(&s1)));
    }
    let (p, v, a) = (s0.position as f64, s0.velocity as f64, s0.acceleration as f64);
    let dt = dt_ns as f64 / 1e9;
    let v_ref = v + a * dt;
    let tv = v.abs() + (a * dt).abs();
    let bound_v = KV * U * tv + KD * U * (a * dt).abs();
    let p_ref = p + v * dt + a * dt * dt / 2.0;
    let tp = p.abs() + (v * dt).abs() + (a * dt * dt / 2.0).abs();
    let bound_p = KP * U * tp + KD * U * ((v * dt).abs() + (a * dt * dt).abs());
    if bounded {
        rep.eval();
        let (ok, ratio) = within(s1.velocity, v_ref, bound_v);
        rep.max("update_velocity_err_over_bound", ratio);
        if !ok {
            rep.violation(&format!("C14/update/velocity/{}", dn), sub, case,
                format!("{}.update(Time({})) -> velocity {} but v + a*dt = {:e} (bound {:e}, err/bound {:.3e})", sfmt(&s0), dt_ns, f(s1.velocity), v_ref, bound_v, ratio));
        }
        rep.eval();
        let (ok, ratio) = within(s1.position, p_ref, bound_p);
        rep.max("update_position_err_over_bound", ratio);
        if !ok {
            rep.violation(&format!("C14/update/position/{}", dn), sub, case,
                format!("{}.update(Time({})) -> position {} but p + v*dt + a*dt^2/2 = {:e} (bound {:e}, err/bound {:.3e})", sfmt(&s0), dt_ns, f(s1.position), p_ref, bound_p, ratio));
        }
        if dt_ns == 0 {
            // identity: x + 0*y == x exactly in IEEE arithmetic when y is finite (modulo the sign of zero)
            rep.eval();
            if !ssame(&s1, &s0) {
                rep.violation("C14/update/identity-dt0", sub, case, format!("{}.update(Time(0)) -> {}: must be the identity", sfmt(&s0), sfmt(&s1)));
            }
            if sbits(&s1) == sbits(&s0) {
                rep.tally("update_dt0_raw_bit_identical");
            } else {
                rep.tally("update_dt0_identical_only_modulo_zero_sign");
            }
        }
    } else {
        // any finite triple (the quantifier says "all finite state triples"): the closed form overflows in
        // its intermediates ((v + v'), dt*a, ...) for components near f32::MAX although the true result is
        // representable. Genuine but exotic defect: reported under fixed signatures that are listed in
        // known_findings.json (DESIGN.md section 5, finding 5).
        let in_range = v_ref.abs() < 3.0e38 && p_ref.abs() < 3.0e38;
        let huge = [p, v, p_ref, v_ref, v * dt, a * dt, a * dt * dt].iter().any(|x| x.abs() > 1.0e37);
        if in_range && !(s1.position.is_finite() && s1.velocity.is_finite()) {
            rep.eval();
            rep.violation(if huge { "C14/update/intermediate-overflow/some-term-above-1e37" } else { "C14/update/intermediate-overflow/all-terms-below-1e37" }, sub, case,
                format!("{}.update(Time({})) -> {} but the true result p'={:e} v'={:e} is representable", sfmt(&s0), dt_ns, sfmt(&s1), p_ref, v_ref));
            rep.tally("extreme_nonfinite_result_where_reference_is_in_range");
            if rep.want_sample("extreme-nonfinite") {
                rep.sample("extreme-nonfinite", format!("{}.update(Time({})) -> {} (f64 reference p'={:e} v'={:e})", sfmt(&s0), dt_ns, sfmt(&s1), p_ref, v_ref));
            }
        }
        if dt_ns == 0 {
            if ssame(&s1, &s0) {
                rep.tally("extreme_dt0_identity");
            } else {
                rep.tally("extreme_dt0_not_identity");
                rep.eval();
                rep.violation(if s0.velocity.abs() > 1.7e38 { "C14/update/identity-dt0/velocity-above-half-f32-max" } else { "C14/update/identity-dt0" }, sub, case,
                    format!("{}.update(Time(0)) -> {}: dt = 0 must be the identity", sfmt(&s0), sfmt(&s1)));
                if rep.want_sample("extreme-dt0-not-identity") {
                    rep.sample("extreme-dt0-not-identity", format!("{}.update(Time(0)) -> {}", sfmt(&s0), sfmt(&s1)));
                }
            }
        }
    }
}

// ----------------------------------------------------------------------------------- setters
/// expected state after a successful setter of kind `which` with value x
fn setter_ok(which: usize, s0: &State, s1: &State, x: f32) -> bool {
    match which {
        0 => same(s1.position, x) && s1.velocity == 0.0 && s1.acceleration == 0.0,
        1 => s1.position.to_bits() == s0.position.to_bits() && same(s1.velocity, x) && s1.acceleration == 0.0,
        _ => s1.position.to_bits() == s0.position.to_bits() && s1.velocity.to_bits() == s0.velocity.to_bits() && same(s1.acceleration, x),
    }
}
fn check_setters(rep: &mut Report, sub: &'static str, case: u64, rng: &mut Rng, e: (i32, i32)) {
    for which in 0..3 {
        let mag = if rng.chance(0.5) { Mag::Any } else { Mag::Moderate };
        let s0 = gen_state(rng, mag);
        let x = if rng.chance(0.1) { comp(rng, Mag::Any) } else { rng.any_finite() };
        rep.distinct(("setter", which, e, scls(&s0), cls(x)));
        check_one_setter(rep, sub, case, which, s0, x, e);
    }
}
/// One Quantity setter call and the raw setter call on the same (state, value); when the Quantity form
/// accepts, both forms must leave bit-identical states (they are documented as the same operation).
fn check_one_setter(rep: &mut Report, sub: &'static str, case: u64, which: usize, s0: State, x: f32, e: (i32, i32)) {
    let name = ["set_constant_position", "set_constant_velocity", "set_constant_acceleration"][which];
    let q = Quantity::new(x, u(e.0, e.1));
    // unchecked lane: the unit carries no information, every argument is well dimensioned and must be accepted
    let want_ok = !checked() || e == EXPS[which];
    let got = catch(|| {
        let mut s = s0;
        let r = match which {
            0 => s.set_constant_position(q),
            1 => s.set_constant_velocity(q),
            _ => s.set_constant_acceleration(q),
        };
        (s, r.is_ok())
    });
    let desc = format!("{}.{}(Quantity({}, mm^{} s^{}))", sfmt(&s0), name, f(x), e.0, e.1);
    rep.eval();
    let mut accepted: Option<State> = None;
    match got {
        Err(msg) => rep.violation(&format!("C14/setter/{}/panic", name), sub, case, format!("{} panicked: {}", desc, msg)),
        Ok((s1, ok)) => {
            if ok != want_ok {
                let what = if ok { "accepted-wrong-unit" } else { "rejected-right-unit" };
                rep.violation(&format!("C14/setter/{}/{}", name, what), sub, case, format!("{} returned is_ok={} -> {}", desc, ok, sfmt(&s1)));
            } else if ok {
                rep.tally("setter_accepted");
                accepted = Some(s1);
                rep.eval();
                if !setter_ok(which, &s0, &s1, x) {
                    rep.violation(&format!("C14/setter/{}/fields", name), sub, case, format!("{} = Ok -> {}", desc, sfmt(&s1)));
                }
            } else {
                rep.tally("setter_rejected");
                rep.eval();
                if sbits(&s1) != sbits(&s0) {
                    rep.violation(&format!("C14/setter/{}/modified-on-reject", name), sub, case, format!("{} = Err but state became {}", desc, sfmt(&s1)));
                }
            }
            if rep.want_sample(sub) {
                rep.sample(sub, format!("{} -> is_ok={} {}", desc, ok, sfmt(&s1)));
            }
        }
    }
    // raw variant of the same setter on the same state / value
    let rname = ["set_constant_position_raw", "set_constant_velocity_raw", "set_constant_acceleration_raw"][which];
    let got = catch(|| {
        let mut s = s0;
        match which {
            0 => s.set_constant_position_raw(x),
            1 => s.set_constant_velocity_raw(x),
            _ => s.set_constant_acceleration_raw(x),
        };
        s
    });
    rep.eval();
    rep.tally("setter_raw");
    match got {
        Err(msg) => rep.violation(&format!("C14/setter/{}/panic", rname), sub, case, format!("{}.{}({}) panicked: {}", sfmt(&s0), rname, f(x), msg)),
        Ok(s1) => {
            if !setter_ok(which, &s0, &s1, x) {
                rep.violation(&format!("C14/setter/{}/fields", rname), sub, case, format!("{}.{}({}) -> {}", sfmt(&s0), rname, f(x), sfmt(&s1)));
            }
            if let Some(sq) = accepted {
                rep.eval();
                rep.tally("setter_quantity_vs_raw_compared");
                if sbits(&sq) != sbits(&s1) {
                    rep.violation(&format!("C14/setter/{}/quantity-vs-raw", name), sub, case,
                        format!("{} = Ok -> {} but {}({}) -> {}: the two forms must agree bit for bit", desc, sfmt(&sq), rname, f(x), sfmt(&s1)));
                }
            }
        }
    }
}
fn field(s: &State, i: usize) -> f32 {
    [s.position, s.velocity, s.acceleration][i % 3]
}
const ARG_SRC: [&str; 8] = ["own-current", "next-field-current", "prev-field-current", "+0", "-0", "special", "own-current-negated", "random"];
/// Setter argument drawn in relation to the state it is applied to (an early-out keyed on "argument
/// equals what is already stored" or on a special value can only be seen there), crossed with every
/// {+0, -0, non-zero} pattern of the three fields.
fn check_setter_alias(rep: &mut Report, sub: &'static str, case: u64, rng: &mut Rng, which: usize, src: usize, pat: u64) {
    let mag = if rng.chance(0.5) { Mag::Any } else { Mag::Moderate };
    let mut one = |c: u64| -> f32 {
        match c {
            0 => 0.0,
            1 => -0.0,
            _ => nz(rng, mag),
        }
    };
    let s0 = State::new_raw(one(pat % 3), one(pat / 3 % 3), one(pat / 9));
    let x = match src {
        0 => field(&s0, which),
        1 => field(&s0, which + 1),
        2 => field(&s0, which + 2),
        3 => 0.0,
        4 => -0.0,
        5 => rng.special(),
        6 => -field(&s0, which),
        _ => rng.any_finite(),
    };
    rep.distinct(("setter-alias", which, src, pat));
    rep.tally("setter_alias_cases");
    if x.to_bits() == field(&s0, which).to_bits() {
        rep.tally("setter_arg_bit_equal_to_current");
    }
    check_one_setter(rep, sub, case, which, s0, x, EXPS[which]);
    // the same aliased argument under a wrong unit must still be rejected and change nothing
    let mut e = (rng.range_i64(-3, 3) as i32, rng.range_i64(-3, 3) as i32);
    if e == EXPS[which] {
        e = EXPS[(which + 1) % 3];
    }
    check_one_setter(rep, sub, case, which, s0, x, e);
}

// --------------------------------------------------------------------------------- State::new
fn check_state_new(rep: &mut Report, sub: &'static str, case: u64, vals: [f32; 3], es: [(i32, i32); 3]) {
    let want_panic = checked() && (0..3).any(|i| es[i] != EXPS[i]);
    let qs: Vec<Quantity> = (0..3).map(|i| Quantity::new(vals[i], u(es[i].0, es[i].1))).collect();
    let got = catch(|| State::new(qs[0], qs[1], qs[2]));
    let wrong: Vec<usize> = (0..3).filter(|&i| es[i] != EXPS[i]).collect();
    rep.distinct(("state-new", es, wrong.clone()));
    let desc = format!("State::new(({}, mm^{} s^{}), ({}, mm^{} s^{}), ({}, mm^{} s^{}))", f(vals[0]), es[0].0, es[0].1, f(vals[1]), es[1].0, es[1].1, f(vals[2]), es[2].0, es[2].1);
    rep.eval();
    match got {
        Err(_) => {
            if want_panic {
                rep.tally("state_new_panics_observed");
            } else {
                rep.violation("C14/state-new/unexpected-panic", sub, case, format!("{} panicked although all three units are right", desc));
            }
        }
        Ok(s) => {
            if want_panic {
                let slot = if wrong.len() == 1 { KIND[wrong[0]] } else { "several" };
                rep.violation(&format!("C14/state-new/missing-panic/{}", slot), sub, case, format!("{} -> {} without panic although a unit is wrong", desc, sfmt(&s)));
            } else {
                rep.tally("state_new_ok");
                if !(same(s.position, vals[0]) && same(s.velocity, vals[1]) && same(s.acceleration, vals[2])) {
                    rep.violation("C14/state-new/fields", sub, case, format!("{} -> {}", desc, sfmt(&s)));
                }
            }
        }
    }
    if rep.want_sample(sub) {
        rep.sample(sub, format!("{} expected panic={}", desc, want_panic));
    }
}
fn check_state_access(rep: &mut Report, sub: &'static str, case: u64, s: State) {
    let got = catch(|| {
        (
            [s.get_position(), s.get_velocity(), s.get_acceleration()],
            [s.get_value(PDS[0]), s.get_value(PDS[1]), s.get_value(PDS[2])],
            State::new_raw(s.position, s.velocity, s.acceleration),
        )
    });
    let vals = [s.position, s.velocity, s.acceleration];
    match got {
        Err(msg) => {
            rep.eval();
            rep.violation("C14/state-access/panic", sub, case, format!("{}: accessor panicked: {}", sfmt(&s), msg));
        }
        Ok((acc, gv, raw)) => {
            for i in 0..3 {
                rep.eval();
                if !q_is(&acc[i], vals[i], EXPS[i]) {
                    rep.violation(&format!("C14/state-access/get_{}", KIND[i]), sub, case, format!("{}.get_{}() = {:?}", sfmt(&s), KIND[i], acc[i]));
                }
                rep.eval();
                if !q_is(&gv[i], vals[i], EXPS[i]) {
                    rep.violation(&format!("C14/state-access/get_value/{}", KIND[i]), sub, case, format!("{}.get_value({:?}) = {:?}", sfmt(&s), PDS[i], gv[i]));
                }
            }
            rep.eval();
            if sbits(&raw) != sbits(&s) {
                rep.violation("C14/state-access/new_raw", sub, case, format!("State::new_raw of the fields of {} gave {}", sfmt(&s), sfmt(&raw)));
            }
        }
    }
}

// -------------------------------------------------------------------------- Command::from(State)
fn check_from_state(rep: &mut Report, sub: &'static str, case: u64, s: State) {
    let (kind, val, site) = if s.acceleration != 0.0 {
        (2, s.acceleration, "acc-nonzero")
    } else if s.velocity != 0.0 {
        (1, s.velocity, "acc-zero-vel-nonzero")
    } else {
        (0, s.position, "acc-zero-vel-zero")
    };
    rep.distinct(("from-state", scls(&s)));
    rep.eval();
    match catch(|| Command::from(s)) {
        Err(msg) => rep.violation(&format!("C14/command-from-state/panic/{}", site), sub, case, format!("Command::from({}) panicked: {}", sfmt(&s), msg)),
        Ok(c) => {
            rep.tally(&format!("from_state_{}", KIND[kind]));
            if !c_is(&c, kind, val) {
                rep.violation(&format!("C14/command-from-state/{}", site), sub, case, format!("Command::from({}) = {}, expected {}", sfmt(&s), cfmt(&c), cfmt(&mk(kind, val))));
            }
            if rep.want_sample(sub) {
                rep.sample(sub, format!("Command::from({}) = {}", sfmt(&s), cfmt(&c)));
            }
        }
    }
}

// --------------------------------------------------------------------------- Command conversions
/// `impl TryFrom<Quantity> for Command` only exists when dimension checking is compiled in.
#[cfg(any(feature = "dim_release", debug_assertions))]
fn try_from_q(q: Quantity) -> Option<Result<Command, ()>> {
    Some(Command::try_from(q))
}
#[cfg(not(any(feature = "dim_release", debug_assertions)))]
fn try_from_q(_q: Quantity) -> Option<Result<Command, ()>> {
    None
}
fn check_cmd_conv(rep: &mut Report, sub: &'static str, case: u64, kind: usize, x: f32) {
    let e = EXPS[kind];
    rep.distinct(("cmd-conv", kind, cls(x), x.abs() > 1e30, x != 0.0 && x.abs() < 1e-30));
    let got = catch(|| {
        let c = Command::new(PDS[kind], x);
        let direct = mk(kind, x);
        let q = Quantity::from(c);
        let qd = Quantity::from(direct);
        (
            c,
            f32::from(c),
            PositionDerivative::from(c),
            q,
            try_from_q(q),
            try_from_q(Quantity::new(x, u(e.0, e.1))),
            c.get_position(),
            c.get_velocity(),
            c.get_acceleration(),
            (f32::from(direct), PositionDerivative::from(direct), qd, c == direct),
        )
    });
    let desc = format!("Command::new({:?}, {})", PDS[kind], f(x));
    let (c, raw, pd, q, back, back2, gp, gv, ga, direct) = match got {
        Ok(t) => t,
        Err(msg) => {
            rep.eval();
            rep.violation(&format!("C14/command/panic/{}", KIND[kind]), sub, case, format!("{}: a conversion/accessor panicked: {}", desc, msg));
            return;
        }
    };
    let k = KIND[kind];
    let mut chk = |ok: bool, clause: &str, detail: String| {
        rep.eval();
        if !ok {
            rep.violation(&format!("C14/command/{}/{}", clause, k), sub, case, format!("{}: {}", desc, detail));
        }
    };
    chk(c_is(&c, kind, x), "new", format!("built {}", cfmt(&c)));
    chk(same(raw, x), "f32-from", format!("f32::from = {}", f(raw)));
    chk(pd == PDS[kind], "kind", format!("PositionDerivative::from = {:?}", pd));
    chk(q_is(&q, x, e), "quantity-from", format!("Quantity::from = {:?}, expected value {} unit mm^{} s^{}", q, f(x), e.0, e.1));
    if CHECKED_CFG {
        chk(matches!(&back, Some(Ok(b)) if c_is(b, kind, x)), "roundtrip-quantity", format!("Command::try_from(Quantity::from(c)) = {:?}", back));
        chk(matches!(&back2, Some(Ok(b)) if c_is(b, kind, x)), "try-from-quantity", format!("Command::try_from(Quantity({}, mm^{} s^{})) = {:?}", f(x), e.0, e.1, back2));
    }
    // accessor table
    let gp_ok = match (kind, &gp) {
        (0, Some(q)) => q_is(q, x, EXPS[0]),
        (1, None) | (2, None) => true,
        _ => false,
    };
    chk(gp_ok, "get_position", format!("get_position() = {:?}", gp));
    let gv_ok = match (kind, &gv) {
        (0, Some(q)) => q_is(q, 0.0, EXPS[1]),
        (1, Some(q)) => q_is(q, x, EXPS[1]),
        (2, None) => true,
        _ => false,
    };
    chk(gv_ok, "get_velocity", format!("get_velocity() = {:?}", gv));
    let ga_ok = q_is(&ga, if kind == 2 { x } else { 0.0 }, EXPS[2]);
    chk(ga_ok, "get_acceleration", format!("get_acceleration() = {:?}", ga));
    // the directly built enum variant agrees with the constructor in every view
    chk(same(direct.0, x) && direct.1 == PDS[kind] && q_is(&direct.2, x, e) && (direct.3 || x.is_nan()), "variant-vs-new",
        format!("direct variant: f32 {} kind {:?} quantity {:?} eq {}", f(direct.0), direct.1, direct.2, direct.3));
    if rep.want_sample(sub) {
        rep.sample(sub, format!("{} -> {} q={:?} pos={:?} vel={:?} acc={:?}", desc, cfmt(&c), q, gp, gv, ga));
    }
}

// ------------------------------------------------------------------------------ State arithmetic
fn check_state_arith(rep: &mut Report, sub: &'static str, case: u64, a: State, b: State, k: f32) {
    let map2 = |op: fn(f32, f32) -> f32| State::new_raw(op(a.position, b.position), op(a.velocity, b.velocity), op(a.acceleration, b.acceleration));
    let map1 = |op: &dyn Fn(f32) -> f32| State::new_raw(op(a.position), op(a.velocity), op(a.acceleration));
    let forms: Vec<(&str, Result<State, String>, State)> = vec![
        ("neg", catch(|| -a), map1(&|x| -x)),
        ("add", catch(|| a + b), map2(|x, y| x + y)),
        ("sub", catch(|| a - b), map2(|x, y| x - y)),
        ("mul", catch(|| a * k), map1(&|x| x * k)),
        ("div", catch(|| a / k), map1(&|x| x / k)),
        ("add_assign", catch(|| { let mut s = a; s += b; s }), map2(|x, y| x + y)),
        ("sub_assign", catch(|| { let mut s = a; s -= b; s }), map2(|x, y| x - y)),
        ("mul_assign", catch(|| { let mut s = a; s *= k; s }), map1(&|x| x * k)),
        ("div_assign", catch(|| { let mut s = a; s /= k; s }), map1(&|x| x / k)),
    ];
    for (name, got, want) in forms {
        rep.eval();
        match got {
            Err(msg) => rep.violation(&format!("C14/state-arith/{}/panic", name), sub, case, format!("{} {} {} k={} panicked: {}", sfmt(&a), name, sfmt(&b), f(k), msg)),
            Ok(s) => {
                if !ssame(&s, &want) {
                    rep.violation(&format!("C14/state-arith/{}", name), sub, case, format!("{} {} {} k={} -> {}, expected {}", sfmt(&a), name, sfmt(&b), f(k), sfmt(&s), sfmt(&want)));
                }
                if !(s.position.is_finite() && s.velocity.is_finite() && s.acceleration.is_finite()) {
                    rep.tally("state_arith_nonfinite_results");
                }
            }
        }
    }
    if rep.want_sample(sub) {
        rep.sample(sub, format!("a={} b={} k={}: neg add sub mul div and the four assign forms", sfmt(&a), sfmt(&b), f(k)));
    }
}

// ---------------------------------------------------------------------------- Command arithmetic
fn check_cmd_arith(rep: &mut Report, sub: &'static str, case: u64, ki: usize, kj: usize, x: f32, y: f32, k: f32) {
    let (a, b) = (mk(ki, x), mk(kj, y));
    let desc = format!("a={} b={} k={}", cfmt(&a), cfmt(&b), f(k));
    rep.distinct(("cmd-arith", ki, kj, cls(x), cls(y), cls(k)));
    // unary / scalar forms: never panic, keep the kind
    let scalar: Vec<(&str, Result<Command, String>, f32)> = vec![
        ("neg", catch(|| -a), -x),
        ("mul", catch(|| a * k), x * k),
        ("div", catch(|| a / k), x / k),
        ("mul_assign", catch(|| { let mut c = a; c *= k; c }), x * k),
        ("div_assign", catch(|| { let mut c = a; c /= k; c }), x / k),
    ];
    for (name, got, want) in scalar {
        rep.eval();
        match got {
            Err(msg) => rep.violation(&format!("C14/command-arith/{}/panic/{}", name, KIND[ki]), sub, case, format!("{} {}: panicked: {}", name, desc, msg)),
            Ok(c) => {
                if !c_is(&c, ki, want) {
                    rep.violation(&format!("C14/command-arith/{}/{}", name, KIND[ki]), sub, case, format!("{} {} -> {}, expected {}", name, desc, cfmt(&c), cfmt(&mk(ki, want))));
                }
            }
        }
    }
    let binary: Vec<(&str, Result<Command, String>, f32)> = vec![
        ("add", catch(|| a + b), x + y),
        ("sub", catch(|| a - b), x - y),
        ("add_assign", catch(|| { let mut c = a; c += b; c }), x + y),
        ("sub_assign", catch(|| { let mut c = a; c -= b; c }), x - y),
    ];
    for (name, got, want) in binary {
        rep.eval();
        if ki == kj {
            rep.tally("cmd_same_kind_binary");
            match got {
                Err(msg) => rep.violation(&format!("C14/command-arith/{}/unexpected-panic/{}", name, KIND[ki]), sub, case, format!("{} {}: same kinds but panicked: {}", name, desc, msg)),
                Ok(c) => {
                    if !c_is(&c, ki, want) {
                        rep.violation(&format!("C14/command-arith/{}/{}", name, KIND[ki]), sub, case, format!("{} {} -> {}, expected {}", name, desc, cfmt(&c), cfmt(&mk(ki, want))));
                    }
                }
            }
        } else {
            rep.tally("cmd_mixed_kind_panics_expected");
            match got {
                Err(_) => rep.tally("cmd_mixed_kind_panics_observed"),
                Ok(c) => rep.violation(&format!("C14/command-arith/{}/missing-panic/{}-{}", name, KIND[ki], KIND[kj]), sub, case, format!("{} {} -> {} without panic although the kinds differ", name, desc, cfmt(&c))),
            }
        }
    }
    if rep.want_sample(sub) {
        rep.sample(sub, format!("{}: neg mul div mul_assign div_assign add sub add_assign sub_assign (mixed kinds: {})", desc, ki != kj));
    }
}


// ------------------------------------------------------------------- operator matrix (every impl)
// Every operator impl of the crate whose Self or right-hand side involves State or Command, found by
// reading src/state.rs, src/command.rs, src/datum.rs (generic Datum<T> impls instantiated at T = State /
// Command, plus the special cases for the f32 scalars) and src/lib.rs (none there). 52 impls:
//   State:          Neg, Add, Sub, Mul<f32>, Div<f32>, AddAssign, SubAssign, MulAssign<f32>, DivAssign<f32>      (9)
//   Command:        Neg, Add, Sub, Mul<f32>, Div<f32>, AddAssign, SubAssign, MulAssign<f32>, DivAssign<f32>      (9)
//   Datum<State>:   Neg, Add<Datum<State>>, AddAssign<Datum<State>>, Add<State>, AddAssign<State>,
//                   Sub<Datum<State>>, SubAssign<Datum<State>>, Sub<State>, SubAssign<State>,
//                   Mul<Datum<f32>>, MulAssign<Datum<f32>>, Mul<f32>, MulAssign<f32>,
//                   Div<Datum<f32>>, DivAssign<Datum<f32>>, Div<f32>, DivAssign<f32>                              (17)
//   Datum<Command>: the same 17 with Command for State.
// There are no Quantity right-hand sides and no by-reference (&T) operator impls for these types, and
// State/Command have no Mul/Div by their own type, so the generic Datum<T> * Datum<T>, Datum<T> * T forms
// do not exist for them. OP_IMPLS below is that list; each entry has a tally `impl/<name>` and a floor.
// Oracle: value = the plain f32 operator applied component-wise (canonical bits); Command +/- of different
// kinds panics (also inside a Datum); timestamp = the left operand's for bare / scalar right-hand sides
// and the newest of the two for Datum right-hand sides; the assign form equals the binary form.
const OP_IMPLS: [&str; 52] = [
    "State.neg()", "State.add(State)", "State.sub(State)", "State.mul(f32)", "State.div(f32)",
    "State.add_assign(State)", "State.sub_assign(State)", "State.mul_assign(f32)", "State.div_assign(f32)",
    "Command.neg()", "Command.add(Command)", "Command.sub(Command)", "Command.mul(f32)", "Command.div(f32)",
    "Command.add_assign(Command)", "Command.sub_assign(Command)", "Command.mul_assign(f32)", "Command.div_assign(f32)",
    "Datum<State>.neg()", "Datum<State>.add(Datum<State>)", "Datum<State>.add_assign(Datum<State>)", "Datum<State>.add(State)", "Datum<State>.add_assign(State)",
    "Datum<State>.sub(Datum<State>)", "Datum<State>.sub_assign(Datum<State>)", "Datum<State>.sub(State)", "Datum<State>.sub_assign(State)",
    "Datum<State>.mul(Datum<f32>)", "Datum<State>.mul_assign(Datum<f32>)", "Datum<State>.mul(f32)", "Datum<State>.mul_assign(f32)",
    "Datum<State>.div(Datum<f32>)", "Datum<State>.div_assign(Datum<f32>)", "Datum<State>.div(f32)", "Datum<State>.div_assign(f32)",
    "Datum<Command>.neg()", "Datum<Command>.add(Datum<Command>)", "Datum<Command>.add_assign(Datum<Command>)", "Datum<Command>.add(Command)", "Datum<Command>.add_assign(Command)",
    "Datum<Command>.sub(Datum<Command>)", "Datum<Command>.sub_assign(Datum<Command>)", "Datum<Command>.sub(Command)", "Datum<Command>.sub_assign(Command)",
    "Datum<Command>.mul(Datum<f32>)", "Datum<Command>.mul_assign(Datum<f32>)", "Datum<Command>.mul(f32)", "Datum<Command>.mul_assign(f32)",
    "Datum<Command>.div(Datum<f32>)", "Datum<Command>.div_assign(Datum<f32>)", "Datum<Command>.div(f32)", "Datum<Command>.div_assign(f32)",
];
/// (binary form, assign form) siblings: x op= y must equal x = x op y
const OP_SIBLINGS: [(&str, &str); 24] = [
    ("State.add(State)", "State.add_assign(State)"), ("State.sub(State)", "State.sub_assign(State)"),
    ("State.mul(f32)", "State.mul_assign(f32)"), ("State.div(f32)", "State.div_assign(f32)"),
    ("Command.add(Command)", "Command.add_assign(Command)"), ("Command.sub(Command)", "Command.sub_assign(Command)"),
    ("Command.mul(f32)", "Command.mul_assign(f32)"), ("Command.div(f32)", "Command.div_assign(f32)"),
    ("Datum<State>.add(Datum<State>)", "Datum<State>.add_assign(Datum<State>)"), ("Datum<State>.add(State)", "Datum<State>.add_assign(State)"),
    ("Datum<State>.sub(Datum<State>)", "Datum<State>.sub_assign(Datum<State>)"), ("Datum<State>.sub(State)", "Datum<State>.sub_assign(State)"),
    ("Datum<State>.mul(Datum<f32>)", "Datum<State>.mul_assign(Datum<f32>)"), ("Datum<State>.mul(f32)", "Datum<State>.mul_assign(f32)"),
    ("Datum<State>.div(Datum<f32>)", "Datum<State>.div_assign(Datum<f32>)"), ("Datum<State>.div(f32)", "Datum<State>.div_assign(f32)"),
    ("Datum<Command>.add(Datum<Command>)", "Datum<Command>.add_assign(Datum<Command>)"), ("Datum<Command>.add(Command)", "Datum<Command>.add_assign(Command)"),
    ("Datum<Command>.sub(Datum<Command>)", "Datum<Command>.sub_assign(Datum<Command>)"), ("Datum<Command>.sub(Command)", "Datum<Command>.sub_assign(Command)"),
    ("Datum<Command>.mul(Datum<f32>)", "Datum<Command>.mul_assign(Datum<f32>)"), ("Datum<Command>.mul(f32)", "Datum<Command>.mul_assign(f32)"),
    ("Datum<Command>.div(Datum<f32>)", "Datum<Command>.div_assign(Datum<f32>)"), ("Datum<Command>.div(f32)", "Datum<Command>.div_assign(f32)"),
];
/// canonical observation of one operator result: None = panicked; (time or 0, kind or 9 for a State, value bits)
type Obs = Option<(i64, u32, [u32; 3])>;
static IMPL_COUNTS: [std::sync::atomic::AtomicU64; 52] = [const { std::sync::atomic::AtomicU64::new(0) }; 52];
struct Mx<'a> {
    rep: &'a mut Report,
    case: u64,
    desc: &'a dyn Fn() -> String,
    /// observations in OP_IMPLS order
    seen: Vec<Obs>,
}
fn st_obs(t: i64, s: &State) -> Obs {
    Some((t, 9, [cbits(s.position), cbits(s.velocity), cbits(s.acceleration)]))
}
fn cm_obs(t: i64, c: &Command) -> Obs {
    let (k, x) = cparts(c);
    Some((t, k as u32, [cbits(x), 0, 0]))
}
fn obs_txt(o: &Obs) -> String {
    match o {
        None => "a panic".to_string(),
        Some((t, 9, v)) => format!("t={} State{{p={}, v={}, a={}}}", t, f(f32::from_bits(v[0])), f(f32::from_bits(v[1])), f(f32::from_bits(v[2]))),
        Some((t, k, v)) => format!("t={} {}", t, cfmt(&mk(*k as usize, f32::from_bits(v[0])))),
    }
}
impl Mx<'_> {
    /// forms must be judged in OP_IMPLS order (checked), which makes the per-impl counters index-addressed
    fn judge(&mut self, name: &'static str, got: Obs, want: Obs) {
        let idx = self.seen.len();
        assert!(OP_IMPLS[idx] == name, "c14.rs: operator forms are judged out of OP_IMPLS order");
        IMPL_COUNTS[idx].fetch_add(1, std::sync::atomic::Ordering::Relaxed);
        self.rep.eval();
        self.seen.push(got);
        match (got, want) {
            (None, None) => self.rep.tally("op_matrix_mixed_kind_panics_observed"),
            (None, Some(_)) => self.rep.violation(&format!("C14/op/{}/unexpected-panic", name), "op-matrix", self.case, format!("{} [{}] panicked, expected {}", name, (self.desc)(), obs_txt(&want))),
            (Some(_), None) => self.rep.violation(&format!("C14/op/{}/missing-panic", name), "op-matrix", self.case, format!("{} [{}] -> {} without panic although the command kinds differ", name, (self.desc)(), obs_txt(&got))),
            (Some(g), Some(w)) => {
                if g.1 != w.1 || g.2 != w.2 {
                    self.rep.violation(&format!("C14/op/{}/value", name), "op-matrix", self.case, format!("{} [{}] -> {}, expected {}", name, (self.desc)(), obs_txt(&got), obs_txt(&want)));
                }
                if g.0 != w.0 {
                    self.rep.violation(&format!("C14/op/{}/time", name), "op-matrix", self.case, format!("{} [{}] -> {}, expected {}", name, (self.desc)(), obs_txt(&got), obs_txt(&want)));
                }
            }
        }
    }
    fn st(&mut self, name: &'static str, got: Result<State, String>, want: State) {
        self.judge(name, got.ok().and_then(|s| st_obs(0, &s)), st_obs(0, &want));
    }
    fn dst(&mut self, name: &'static str, got: Result<Datum<State>, String>, want: State, wt: i64) {
        self.judge(name, got.ok().and_then(|d| st_obs(d.time.0, &d.value)), st_obs(wt, &want));
    }
    fn cm(&mut self, name: &'static str, got: Result<Command, String>, want: Option<Command>) {
        self.judge(name, got.ok().and_then(|c| cm_obs(0, &c)), want.and_then(|c| cm_obs(0, &c)));
    }
    fn dcm(&mut self, name: &'static str, got: Result<Datum<Command>, String>, want: Option<Command>, wt: i64) {
        self.judge(name, got.ok().and_then(|d| cm_obs(d.time.0, &d.value)), want.and_then(|c| cm_obs(wt, &c)));
    }
}
fn sibling_indices() -> &'static Vec<(usize, usize)> {
    static IDX: std::sync::OnceLock<Vec<(usize, usize)>> = std::sync::OnceLock::new();
    IDX.get_or_init(|| {
        OP_SIBLINGS.iter().map(|(b, a)| (OP_IMPLS.iter().position(|n| n == b).expect("sibling table"), OP_IMPLS.iter().position(|n| n == a).expect("sibling table"))).collect()
    })
}
#[allow(clippy::too_many_arguments)]
fn check_op_matrix(rep: &mut Report, case: u64, a: State, b: State, ki: usize, kj: usize, x: f32, y: f32, k: f32, t1: i64, t2: i64) {
    let desc = || format!("a={} b={} ca={} cb={} k={} t_lhs={} t_rhs={}", sfmt(&a), sfmt(&b), cfmt(&mk(ki, x)), cfmt(&mk(kj, y)), f(k), t1, t2);
    let mut mx = Mx { rep, case, desc: &desc, seen: Vec::with_capacity(52) };
    let newest = t1.max(t2);
    let m2 = |op: fn(f32, f32) -> f32| State::new_raw(op(a.position, b.position), op(a.velocity, b.velocity), op(a.acceleration, b.acceleration));
    let m1 = |op: &dyn Fn(f32) -> f32| State::new_raw(op(a.position), op(a.velocity), op(a.acceleration));
    let (s_neg, s_add, s_sub, s_mul, s_div) = (m1(&|v| -v), m2(|p, q| p + q), m2(|p, q| p - q), m1(&|v| v * k), m1(&|v| v / k));
    let (ca, cb) = (mk(ki, x), mk(kj, y));
    let same_kind = ki == kj;
    let c_neg = Some(mk(ki, -x));
    let c_add = if same_kind { Some(mk(ki, x + y)) } else { None };
    let c_sub = if same_kind { Some(mk(ki, x - y)) } else { None };
    let c_mul = Some(mk(ki, x * k));
    let c_div = Some(mk(ki, x / k));
    let (da, db) = (Datum::new(Time(t1), a), Datum::new(Time(t2), b));
    let (dca, dcb) = (Datum::new(Time(t1), ca), Datum::new(Time(t2), cb));
    let dk = Datum::new(Time(t2), k);
    // ---- State
    mx.st("State.neg()", catch(|| -a), s_neg);
    mx.st("State.add(State)", catch(|| a + b), s_add);
    mx.st("State.sub(State)", catch(|| a - b), s_sub);
    mx.st("State.mul(f32)", catch(|| a * k), s_mul);
    mx.st("State.div(f32)", catch(|| a / k), s_div);
    mx.st("State.add_assign(State)", catch(|| { let mut v = a; v += b; v }), s_add);
    mx.st("State.sub_assign(State)", catch(|| { let mut v = a; v -= b; v }), s_sub);
    mx.st("State.mul_assign(f32)", catch(|| { let mut v = a; v *= k; v }), s_mul);
    mx.st("State.div_assign(f32)", catch(|| { let mut v = a; v /= k; v }), s_div);
    // ---- Command
    mx.cm("Command.neg()", catch(|| -ca), c_neg);
    mx.cm("Command.add(Command)", catch(|| ca + cb), c_add);
    mx.cm("Command.sub(Command)", catch(|| ca - cb), c_sub);
    mx.cm("Command.mul(f32)", catch(|| ca * k), c_mul);
    mx.cm("Command.div(f32)", catch(|| ca / k), c_div);
    mx.cm("Command.add_assign(Command)", catch(|| { let mut v = ca; v += cb; v }), c_add);
    mx.cm("Command.sub_assign(Command)", catch(|| { let mut v = ca; v -= cb; v }), c_sub);
    mx.cm("Command.mul_assign(f32)", catch(|| { let mut v = ca; v *= k; v }), c_mul);
    mx.cm("Command.div_assign(f32)", catch(|| { let mut v = ca; v /= k; v }), c_div);
    // ---- Datum<State>
    mx.dst("Datum<State>.neg()", catch(|| -da), s_neg, t1);
    mx.dst("Datum<State>.add(Datum<State>)", catch(|| da + db), s_add, newest);
    mx.dst("Datum<State>.add_assign(Datum<State>)", catch(|| { let mut v = da; v += db; v }), s_add, newest);
    mx.dst("Datum<State>.add(State)", catch(|| da + b), s_add, t1);
    mx.dst("Datum<State>.add_assign(State)", catch(|| { let mut v = da; v += b; v }), s_add, t1);
    mx.dst("Datum<State>.sub(Datum<State>)", catch(|| da - db), s_sub, newest);
    mx.dst("Datum<State>.sub_assign(Datum<State>)", catch(|| { let mut v = da; v -= db; v }), s_sub, newest);
    mx.dst("Datum<State>.sub(State)", catch(|| da - b), s_sub, t1);
    mx.dst("Datum<State>.sub_assign(State)", catch(|| { let mut v = da; v -= b; v }), s_sub, t1);
    mx.dst("Datum<State>.mul(Datum<f32>)", catch(|| da * dk), s_mul, newest);
    mx.dst("Datum<State>.mul_assign(Datum<f32>)", catch(|| { let mut v = da; v *= dk; v }), s_mul, newest);
    mx.dst("Datum<State>.mul(f32)", catch(|| da * k), s_mul, t1);
    mx.dst("Datum<State>.mul_assign(f32)", catch(|| { let mut v = da; v *= k; v }), s_mul, t1);
    mx.dst("Datum<State>.div(Datum<f32>)", catch(|| da / dk), s_div, newest);
    mx.dst("Datum<State>.div_assign(Datum<f32>)", catch(|| { let mut v = da; v /= dk; v }), s_div, newest);
    mx.dst("Datum<State>.div(f32)", catch(|| da / k), s_div, t1);
    mx.dst("Datum<State>.div_assign(f32)", catch(|| { let mut v = da; v /= k; v }), s_div, t1);
    // ---- Datum<Command>
    mx.dcm("Datum<Command>.neg()", catch(|| -dca), c_neg, t1);
    mx.dcm("Datum<Command>.add(Datum<Command>)", catch(|| dca + dcb), c_add, newest);
    mx.dcm("Datum<Command>.add_assign(Datum<Command>)", catch(|| { let mut v = dca; v += dcb; v }), c_add, newest);
    mx.dcm("Datum<Command>.add(Command)", catch(|| dca + cb), c_add, t1);
    mx.dcm("Datum<Command>.add_assign(Command)", catch(|| { let mut v = dca; v += cb; v }), c_add, t1);
    mx.dcm("Datum<Command>.sub(Datum<Command>)", catch(|| dca - dcb), c_sub, newest);
    mx.dcm("Datum<Command>.sub_assign(Datum<Command>)", catch(|| { let mut v = dca; v -= dcb; v }), c_sub, newest);
    mx.dcm("Datum<Command>.sub(Command)", catch(|| dca - cb), c_sub, t1);
    mx.dcm("Datum<Command>.sub_assign(Command)", catch(|| { let mut v = dca; v -= cb; v }), c_sub, t1);
    mx.dcm("Datum<Command>.mul(Datum<f32>)", catch(|| dca * dk), c_mul, newest);
    mx.dcm("Datum<Command>.mul_assign(Datum<f32>)", catch(|| { let mut v = dca; v *= dk; v }), c_mul, newest);
    mx.dcm("Datum<Command>.mul(f32)", catch(|| dca * k), c_mul, t1);
    mx.dcm("Datum<Command>.mul_assign(f32)", catch(|| { let mut v = dca; v *= k; v }), c_mul, t1);
    mx.dcm("Datum<Command>.div(Datum<f32>)", catch(|| dca / dk), c_div, newest);
    mx.dcm("Datum<Command>.div_assign(Datum<f32>)", catch(|| { let mut v = dca; v /= dk; v }), c_div, newest);
    mx.dcm("Datum<Command>.div(f32)", catch(|| dca / k), c_div, t1);
    mx.dcm("Datum<Command>.div_assign(f32)", catch(|| { let mut v = dca; v /= k; v }), c_div, t1);
    // ---- siblings: x op= y is x = x op y
    for (k, &(bin, asg)) in sibling_indices().iter().enumerate() {
        mx.rep.eval();
        if mx.seen[bin] != mx.seen[asg] {
            mx.rep.violation(&format!("C14/op/{}/differs-from-binary-form", OP_SIBLINGS[k].1), "op-matrix", case,
                format!("[{}] {} gave {} but {} gave {}", (mx.desc)(), OP_SIBLINGS[k].0, obs_txt(&mx.seen[bin]), OP_SIBLINGS[k].1, obs_txt(&mx.seen[asg])));
        }
    }
    if mx.seen.len() == OP_IMPLS.len() {
        mx.rep.tally("op_matrix_all_52_impls_executed");
    }
    if mx.rep.want_sample("op-matrix") {
        let d = (mx.desc)();
        mx.rep.sample("op-matrix", format!("{}: all 52 operator impls", d));
    }
}

fn main() {
    let args = Args::parse();
    let mut rep = Report::new("C14", &args);
    // ---- lane detection (see CHECKED)
    let runtime_checked = catch(|| Quantity::new(1.0, u(1, 0)) + Quantity::new(1.0, u(0, 1))).is_err();
    CHECKED.store(runtime_checked, std::sync::atomic::Ordering::Relaxed);
    rep.tally(if runtime_checked { "lane/checked" } else { "lane/unchecked" });
    if runtime_checked == (core::mem::size_of::<Unit>() != 0) && runtime_checked == CHECKED_CFG {
        rep.tally("lane/detection_consistent");
    }
    // run-time probe, size_of::<Unit>() and this file's cfg must tell the same story, else INCONCLUSIVE
    rep.floor("lane/detection_consistent", 1);
    if runtime_checked {
        rep.tally("dimension_checking_enabled");
    }

    // ---- 1. kinematics with finite intermediates
    for case in args.cases("update", 300_000, 12_000_000) {
        let mut rng = Rng::new(args.seed, 1401, case);
        let mag = if rng.chance(0.6) { Mag::Moderate } else { Mag::Wide };
        let s0 = gen_state(&mut rng, mag);
        let dt_ns = gen_dt(&mut rng, case);
        rep.distinct(("update", mag, scls(&s0), dt_class(dt_ns)));
        check_update(&mut rep, "update", case, s0, dt_ns, true);
        if rep.want_sample("update") {
            let mut s = s0;
            s.update(Time(dt_ns));
            rep.sample("update", format!("{}.update(Time({})) -> {}", sfmt(&s0), dt_ns, sfmt(&s)));
        }
    }
    // ---- 1b. update is a pure function of (state, dt): the result must not depend on which update was
    // executed before it (on another state). Predecessor dts are chosen in arithmetic relation to dt
    // (equal, negated, +- 2^k ns, +- whole seconds) because a hidden memo keyed on part of dt would only
    // collide there.
    for case in args.cases("update-purity", 60_000, 3_000_000) {
        let mut rng = Rng::new(args.seed, 1411, case);
        let s0 = gen_state(&mut rng, Mag::Moderate);
        let other = gen_state(&mut rng, Mag::Moderate);
        let dt = gen_dt(&mut rng, case);
        let clampdt = |x: i64| x.clamp(-DT_MAX, DT_MAX);
        let related = match rng.below(6) {
            0 => dt,
            1 => -dt,
            2 | 3 => clampdt(dt + rng.sign() as i64 * (1i64 << rng.below(47)) * rng.range_i64(1, 3)),
            4 => clampdt(dt + rng.range_i64(-50_000, 50_000) * 1_000_000_000),
            _ => clampdt(dt ^ (1i64 << rng.below(46))),
        };
        let unrelated = gen_dt(&mut rng, case.wrapping_mul(7) + 3);
        let run = |pred: i64| { let mut o = other; o.update(Time(pred)); let mut s = s0; s.update(Time(dt)); s };
        let (r1, r2) = match (catch(|| run(related)), catch(|| run(unrelated))) { (Ok(a), Ok(b)) => (a, b), _ => { rep.violation("C14/update/panic/purity", "update-purity", case, format!("{}.update(Time({})) panicked", sfmt(&s0), dt)); continue; } };
        rep.eval();
        rep.tally("update_purity_pairs");
        rep.distinct(("update-purity", dt_class(dt), (related - dt).unsigned_abs().checked_ilog2()));
        if sbits(&r1) != sbits(&r2) {
            rep.violation("C14/update/depends-on-previous-call", "update-purity", case, format!("{}.update(Time({})) gives {} after an update(Time({})) on another state but {} after update(Time({}))", sfmt(&s0), dt, sfmt(&r1), related, sfmt(&r2), unrelated));
        }
        if rep.want_sample("update-purity") { rep.sample("update-purity", format!("dt={} predecessor dts {} / {}", dt, related, unrelated)); }
    }
    rep.floor("update_purity_pairs", 1000);
    // ---- 2. any finite triple: no panic, acceleration untouched (overflow only observed)
    for case in args.cases("update-extreme", 40_000, 2_000_000) {
        let mut rng = Rng::new(args.seed, 1402, case);
        let s0 = gen_state(&mut rng, Mag::Any);
        let dt_ns = gen_dt(&mut rng, case);
        rep.distinct(("update-extreme", scls(&s0), dt_class(dt_ns), s0.velocity.abs() > 1.7e38, s0.acceleration.abs() > 1e30));
        check_update(&mut rep, "update-extreme", case, s0, dt_ns, false);
        if rep.want_sample("update-extreme") {
            let mut s = s0;
            s.update(Time(dt_ns));
            rep.sample("update-extreme", format!("{}.update(Time({})) -> {}", sfmt(&s0), dt_ns, sfmt(&s)));
        }
    }
    // ---- 3. setters x 49 grid units
    let reps = args.pick(400, 20_000);
    let mut idx = 0u64;
    for _ in 0..reps {
        for m in -3..=3 {
            for s in -3..=3 {
                let case = idx;
                idx += 1;
                if !args.mine("setters", case) {
                    continue;
                }
                let mut rng = Rng::new(args.seed, 1403, case);
                check_setters(&mut rep, "setters", case, &mut rng, (m, s));
            }
        }
    }
    rep.exhaustive("49 grid units (mm^-3..3 s^-3..3) x {set_constant_position, set_constant_velocity, set_constant_acceleration} (+ the three raw setters)");
    // ---- 4. State::new: one slot sweeps the 49 units, the other two are right; then random triples
    let reps = args.pick(60, 3_000);
    let mut idx = 0u64;
    for _ in 0..reps {
        for slot in 0..3usize {
            for m in -3..=3 {
                for s in -3..=3 {
                    let case = idx;
                    idx += 1;
                    if !args.mine("state-new", case) {
                        continue;
                    }
                    let mut rng = Rng::new(args.seed, 1404, case);
                    let vals = [rng.any_finite(), rng.any_finite(), rng.any_finite()];
                    let mut es = EXPS;
                    es[slot] = (m, s);
                    check_state_new(&mut rep, "state-new", case, vals, es);
                }
            }
        }
    }
    rep.exhaustive("State::new: each of the 3 argument slots x 49 grid units with the other two slots right");
    for case in args.cases("state-new-random", 30_000, 1_500_000) {
        let mut rng = Rng::new(args.seed, 1405, case);
        let vals = [rng.any_finite(), rng.any_finite(), rng.any_finite()];
        let mut es = EXPS;
        for slot in 0..3 {
            if rng.chance(0.35) {
                es[slot] = (rng.range_i64(-3, 3) as i32, rng.range_i64(-3, 3) as i32);
            }
        }
        check_state_new(&mut rep, "state-new-random", case, vals, es);
        let s = gen_state(&mut rng, Mag::Any);
        check_state_access(&mut rep, "state-new-random", case, s);
    }
    // ---- 5. Command::from(State): all 64 zero/sign patterns
    let reps = args.pick(600, 30_000);
    let mut idx = 0u64;
    for _ in 0..reps {
        for pat in 0..64u64 {
            let case = idx;
            idx += 1;
            if !args.mine("from-state", case) {
                continue;
            }
            let mut rng = Rng::new(args.seed, 1406, case);
            let mag = if rng.chance(0.5) { Mag::Any } else { Mag::Moderate };
            let mut one = |c: u64| -> f32 {
                match c {
                    0 => 0.0,
                    1 => -0.0,
                    2 => nz(&mut rng, mag).abs(),
                    _ => -nz(&mut rng, mag).abs(),
                }
            };
            let s = State::new_raw(one(pat % 4), one(pat / 4 % 4), one(pat / 16));
            check_from_state(&mut rep, "from-state", case, s);
        }
    }
    rep.exhaustive("Command::from(State): 4^3 patterns of {+0, -0, >0, <0} over (position, velocity, acceleration)");
    // ---- 6. Command conversions
    for case in args.cases("cmd-conv", 90_000, 4_500_000) {
        let mut rng = Rng::new(args.seed, 1407, case);
        let kind = (case % 3) as usize;
        let x = if rng.chance(0.15) { comp(&mut rng, Mag::Any) } else { rng.any_finite() };
        rep.tally(&format!("cmd_conv_{}", KIND[kind]));
        check_cmd_conv(&mut rep, "cmd-conv", case, kind, x);
    }
    // ---- 7. State arithmetic
    for case in args.cases("state-arith", 60_000, 3_000_000) {
        let mut rng = Rng::new(args.seed, 1408, case);
        let mag = if rng.chance(0.5) { Mag::Any } else { Mag::Moderate };
        let a = gen_state(&mut rng, mag);
        let b = gen_state(&mut rng, mag);
        let k = if rng.chance(0.1) { comp(&mut rng, Mag::Any) } else { rng.any_finite() };
        rep.distinct(("state-arith", mag, scls(&a), scls(&b), cls(k)));
        check_state_arith(&mut rep, "state-arith", case, a, b, k);
    }
    // ---- 8. Command arithmetic: 3x3 kind pairs
    let reps = args.pick(5_000, 250_000);
    let mut idx = 0u64;
    for _ in 0..reps {
        for ki in 0..3usize {
            for kj in 0..3usize {
                let case = idx;
                idx += 1;
                if !args.mine("cmd-arith", case) {
                    continue;
                }
                let mut rng = Rng::new(args.seed, 1409, case);
                let x = if rng.chance(0.1) { comp(&mut rng, Mag::Any) } else { rng.any_finite() };
                let y = if rng.chance(0.1) { comp(&mut rng, Mag::Any) } else { rng.any_finite() };
                let k = if rng.chance(0.1) { comp(&mut rng, Mag::Any) } else { rng.any_finite() };
                check_cmd_arith(&mut rep, "cmd-arith", case, ki, kj, x, y, k);
            }
        }
    }
    rep.exhaustive("Command arithmetic: 3x3 ordered kind pairs x {+, -, +=, -=} (panic iff kinds differ) and {neg, *f32, /f32, *=, /=}");

    // ---- 9. setters with the argument related to the state (own current value bit-identical, another
    // field's value, +-0, special values, negated, random) x 27 {+0,-0,non-zero} patterns x 3 setters
    let reps = args.pick(50, 2_500);
    let mut idx = 0u64;
    for _ in 0..reps {
        for which in 0..3usize {
            for src in 0..ARG_SRC.len() {
                for pat in 0..27u64 {
                    let case = idx;
                    idx += 1;
                    if !args.mine("setters-alias", case) {
                        continue;
                    }
                    let mut rng = Rng::new(args.seed, 1412, case);
                    check_setter_alias(&mut rep, "setters-alias", case, &mut rng, which, src, pat);
                }
            }
        }
    }
    rep.exhaustive("setters: 3 setters (Quantity + raw form) x 8 argument sources (own current value, other fields' values, +0, -0, special, negated, random) x 27 {+0,-0,non-zero} field patterns");
    // ---- 10. Command arithmetic with special right-hand sides: rhs value / coefficient in
    // {+0, -0, 1, -1, bit-equal to the lhs value, special()} x 3x3 kinds (mixed kinds must still panic)
    let reps = args.pick(60, 3_000);
    let mut idx = 0u64;
    for _ in 0..reps {
        for ki in 0..3usize {
            for kj in 0..3usize {
                for ysrc in 0..6u64 {
                    for ksrc in 0..6u64 {
                        let case = idx;
                        idx += 1;
                        if !args.mine("cmd-arith-special", case) {
                            continue;
                        }
                        let mut rng = Rng::new(args.seed, 1413, case);
                        let x = match rng.below(4) {
                            0 => rng.special(),
                            1 => comp(&mut rng, Mag::Moderate),
                            _ => rng.any_finite(),
                        };
                        let sp = |src: u64, rng: &mut Rng| match src {
                            0 => 0.0,
                            1 => -0.0,
                            2 => 1.0,
                            3 => -1.0,
                            4 => x,
                            _ => rng.special(),
                        };
                        let y = sp(ysrc, &mut rng);
                        let k = sp(ksrc, &mut rng);
                        rep.distinct(("cmd-arith-special", ki, kj, ysrc, ksrc, cls(x)));
                        rep.tally("cmd_arith_special_cases");
                        check_cmd_arith(&mut rep, "cmd-arith-special", case, ki, kj, x, y, k);
                    }
                }
            }
        }
    }
    rep.exhaustive("Command arithmetic: 3x3 kind pairs x rhs value in {+0,-0,1,-1,=lhs,special} x coefficient in the same pool");
    // ---- 11. State arithmetic with related operands: b in {a, -a, +0 state, -0 state, random},
    // coefficient in {1, 0, -0, -1, 2, special(), a.position}
    let reps = args.pick(400, 20_000);
    let mut idx = 0u64;
    for _ in 0..reps {
        for bsrc in 0..5u64 {
            for ksrc in 0..7u64 {
                let case = idx;
                idx += 1;
                if !args.mine("state-arith-special", case) {
                    continue;
                }
                let mut rng = Rng::new(args.seed, 1414, case);
                let mag = if rng.chance(0.5) { Mag::Any } else { Mag::Moderate };
                let a = gen_state(&mut rng, mag);
                let b = match bsrc {
                    0 => a,
                    1 => State::new_raw(-a.position, -a.velocity, -a.acceleration),
                    2 => State::new_raw(0.0, 0.0, 0.0),
                    3 => State::new_raw(-0.0, -0.0, -0.0),
                    _ => gen_state(&mut rng, mag),
                };
                let k = match ksrc {
                    0 => 1.0,
                    1 => 0.0,
                    2 => -0.0,
                    3 => -1.0,
                    4 => 2.0,
                    5 => rng.special(),
                    _ => a.position,
                };
                rep.distinct(("state-arith-special", bsrc, ksrc, scls(&a)));
                rep.tally("state_arith_special_cases");
                check_state_arith(&mut rep, "state-arith-special", case, a, b, k);
            }
        }
    }
    rep.exhaustive("State arithmetic: second operand in {a, -a, +0, -0, random} x coefficient in {1, 0, -0, -1, 2, special, a.position}");
    // ---- 12. Command::from(State) with tiny non-zero components next to exact zeros:
    // each component in {+0, -0, +tiny, -tiny, subnormal, ordinary non-zero}, tiny = 1e-12..2e-7
    let reps = args.pick(100, 5_000);
    let mut idx = 0u64;
    for _ in 0..reps {
        for pat in 0..216u64 {
            let case = idx;
            idx += 1;
            if !args.mine("from-state-tiny", case) {
                continue;
            }
            let mut rng = Rng::new(args.seed, 1415, case);
            let mut one = |c: u64| -> f32 {
                match c {
                    0 => 0.0,
                    1 => -0.0,
                    2 => rng.log_uniform(1e-12, 2e-7) as f32,
                    3 => -(rng.log_uniform(1e-12, 2e-7) as f32),
                    4 => f32::from_bits(rng.range_i64(1, 0x007f_ffff) as u32 | if rng.chance(0.5) { 0x8000_0000 } else { 0 }),
                    _ => nz(&mut rng, Mag::Moderate),
                }
            };
            let s = State::new_raw(one(pat % 6), one(pat / 6 % 6), one(pat / 36));
            if (2..=4).contains(&(pat / 36)) || ((pat / 36) < 2 && (2..=4).contains(&(pat / 6 % 6))) {
                rep.tally("from_state_decided_by_tiny_component");
            }
            rep.distinct(("from-state-tiny", pat));
            check_from_state(&mut rep, "from-state-tiny", case, s);
        }
    }
    rep.exhaustive("Command::from(State): 6^3 patterns of {+0, -0, +tiny, -tiny, subnormal, ordinary} with tiny in 1e-12..2e-7");
    // ---- 13. update with dt on the grids a split / cached conversion would key on: exact multiples of
    // 1e9 ns (whole seconds) and of 2^32 ns, and their +-1 ns neighbours, both signs
    for case in args.cases("update-grid-dt", 40_000, 2_000_000) {
        let mut rng = Rng::new(args.seed, 1416, case);
        let mag = if rng.chance(0.6) { Mag::Moderate } else { Mag::Wide };
        let s0 = gen_state(&mut rng, mag);
        const S: i64 = 1_000_000_000;
        const W: i64 = 1 << 32;
        let class = case % 8;
        let dt_ns = match class {
            0 => rng.range_i64(-100_000, 100_000) * S,
            1 => rng.range_i64(-23_283, 23_283) * W,
            2 => rng.range_i64(-99_999, 99_999) * S + rng.range_i64(-1, 1),
            3 => rng.range_i64(-23_282, 23_282) * W + rng.range_i64(-1, 1),
            4 => rng.range_i64(-3, 3) * S,
            5 => rng.range_i64(-3, 3) * W,
            6 => rng.sign() as i64 * (1i64 << rng.below(47)),
            _ => rng.range_i64(-99_999, 99_999) * S + rng.sign() as i64 * rng.range_i64(1, S - 1),
        };
        debug_assert!(dt_ns.abs() <= DT_MAX);
        if dt_ns % S == 0 {
            rep.tally("update_dt_whole_seconds");
        }
        if dt_ns % W == 0 {
            rep.tally("update_dt_multiple_of_2^32");
        }
        rep.distinct(("update-grid-dt", class, mag, scls(&s0), dt_class(dt_ns)));
        check_update(&mut rep, "update-grid-dt", case, s0, dt_ns, true);
        if rep.want_sample("update-grid-dt") {
            rep.sample("update-grid-dt", format!("{}.update(Time({}))", sfmt(&s0), dt_ns));
        }
    }

    // ---- 14. operator matrix: all 52 operator impls involving State / Command / Datum<State> /
    // Datum<Command> on one operand set per case; operands random or related (b = a, -a, zeros; rhs
    // command value bit-equal to the lhs; coefficient in {special, 1, 0, -0, -1, 2, own value, random});
    // kinds: every 3x3 pair (case % 9); timestamps only compared (equal, older, newer by quota)
    for case in args.cases("op-matrix", 27_000, 1_350_000) {
        let mut rng = Rng::new(args.seed, 1417, case);
        let (ki, kj) = ((case % 3) as usize, (case / 3 % 3) as usize);
        let mag = if rng.chance(0.5) { Mag::Any } else { Mag::Moderate };
        let a = gen_state(&mut rng, mag);
        let b = match rng.below(6) {
            0 => a,
            1 => State::new_raw(-a.position, -a.velocity, -a.acceleration),
            2 => State::new_raw(0.0, -0.0, 0.0),
            _ => gen_state(&mut rng, mag),
        };
        let x = match rng.below(4) {
            0 => rng.special(),
            1 => comp(&mut rng, Mag::Moderate),
            _ => rng.any_finite(),
        };
        let y = match rng.below(6) {
            0 => x,
            1 => -x,
            2 => rng.special(),
            _ => rng.any_finite(),
        };
        let k = match rng.below(10) {
            0 => rng.special(),
            1 => 1.0,
            2 => 0.0,
            3 => -0.0,
            4 => -1.0,
            5 => 2.0,
            6 => x,
            _ => rng.any_finite(),
        };
        let t1 = rng.stamp();
        let tcls = case / 9 % 3;
        let t2 = match tcls {
            0 => t1,
            1 => t1.saturating_add(rng.range_i64(1, 1 << 40)),
            _ => t1.saturating_sub(rng.range_i64(1, 1 << 40)),
        };
        rep.distinct(("op-matrix", ki, kj, tcls, scls(&a), cls(k)));
        rep.tally(["op_matrix_rhs_time_equal", "op_matrix_rhs_time_newer", "op_matrix_rhs_time_older"][tcls as usize]);
        check_op_matrix(&mut rep, case, a, b, ki, kj, x, y, k, t1, t2);
    }
    rep.exhaustive("operator matrix: all 52 operator impls with State/Command/Datum<State>/Datum<Command> (list OP_IMPLS in c14.rs) x 3x3 command kind pairs x rhs timestamp {equal, newer, older}");
    for (i, name) in OP_IMPLS.iter().enumerate() {
        rep.tally_n(&format!("impl/{}", name), IMPL_COUNTS[i].load(std::sync::atomic::Ordering::Relaxed));
        rep.floor(&format!("impl/{}", name), 20_000);
    }
    rep.floor("op_matrix_all_52_impls_executed", 20_000);
    rep.floor("op_matrix_mixed_kind_panics_observed", 100_000);
    rep.floor("op_matrix_rhs_time_newer", 5_000);
    rep.floor("op_matrix_rhs_time_older", 5_000);

    // floors (merged tallies; met by quota for every seed: dt classes are case % 10, units /
    // patterns / kind pairs are enumerated)
    rep.floor("update_dt-zero", 30_000);
    rep.floor("update_dt-negative", 100_000);
    rep.floor("update_dt-positive", 100_000);
    rep.floor("setter_accepted", 1_200);
    if checked() {
        rep.floor("setter_rejected", 50_000);
    }
    rep.floor("setter_raw", 50_000);
    if checked() {
        rep.floor("state_new_panics_observed", 8_000);
    }
    rep.floor("state_new_ok", 3_000);
    rep.floor("from_state_position", 9_000);
    rep.floor("from_state_velocity", 9_000);
    rep.floor("from_state_acceleration", 19_000);
    rep.floor("cmd_conv_position", 30_000);
    rep.floor("cmd_conv_velocity", 30_000);
    rep.floor("cmd_conv_acceleration", 30_000);
    rep.floor("cmd_mixed_kind_panics_observed", 100_000);
    rep.floor("cmd_same_kind_binary", 50_000);
    rep.floor("setter_alias_cases", 30_000);
    rep.floor("setter_arg_bit_equal_to_current", 4_000);
    rep.floor("setter_quantity_vs_raw_compared", 30_000);
    rep.floor("cmd_arith_special_cases", 19_000);
    rep.floor("state_arith_special_cases", 14_000);
    rep.floor("from_state_decided_by_tiny_component", 10_000);
    rep.floor("update_dt_whole_seconds", 10_000);
    rep.floor("update_dt_multiple_of_2^32", 10_000);
    rep.finish(&args);
}
