//! C10 — integral, derivative and to-state streams = trapezoid sums and difference quotients.
//! f64 reference with a forward error bound whose magnitude term is propagated by the reference
//! itself; units for all 49 grid units; panic on wrongly dimensioned to-state input; bit-exact
//! timestamp-shift invariance.
use rrtk::streams::converters::*;
use rrtk::streams::math::*;
use rrtk::*;
use rrtk_mon::*;
type DQ = dyn Getter<Quantity, E>;
const NAMES: [&str; 5] = ["IntegralStream", "DerivativeStream", "AccelerationToState", "VelocityToState", "PositionToState"];
/// Reference value with a running error bound (in units of 2^-24): inputs are exact f32 values (error 0),
/// every f32 operation adds one rounding relative to its RESULT, the i64-ns -> f32-seconds conversion two.
/// This is much tighter than "epsilon times the magnitude of the operands" for differences of nearby
/// samples: `(a - b)/dt` is accurate to a few ulps of the quotient, whereas `a/dt - b/dt` is not.
#[derive(Clone, Copy, Debug, Default)]
struct V {
    v: f64,
    m: f64, // accumulated absolute error bound / 2^-24
}
fn inp(x: f32) -> V {
    V { v: x as f64, m: 0.0 }
}
fn diffq(a: V, b: V, dt: f64) -> V {
    let r = (a.v - b.v) / dt;
    V { v: r, m: (a.m + b.m) / dt + 4.0 * r.abs() }
}
fn trap(a: V, b: V, dt: f64) -> V {
    let r = (a.v + b.v) / 2.0 * dt;
    V { v: r, m: (a.m + b.m) / 2.0 * dt + 4.0 * r.abs() }
}
fn add(a: V, b: V) -> V {
    let r = a.v + b.v;
    V { v: r, m: a.m + b.m + r.abs() }
}
/// Reference state machines. `n` = number of present samples in the current run.
#[derive(Default, Clone, Debug)]
struct Ref {
    n: usize,
    t: i64,
    x: V,
    s1: V, // integral / first derived quantity
    s2: V, // second derived quantity
}
/// expected output after the event: None = absent, Some([pos,vel,acc] or [value,_,_])
fn ref_step(kind: usize, r: &mut Ref, t: i64, x: f32) -> Option<[V; 3]> {
    let xi = inp(x);
    if r.n == 0 {
        *r = Ref { n: 1, t, x: xi, ..Default::default() };
        return None;
    }
    let dt = (t - r.t) as f64 / 1e9;
    let out = match kind {
        0 => {
            let a = trap(r.x, xi, dt);
            r.s1 = if r.n == 1 { a } else { add(r.s1, a) };
            Some([r.s1, V::default(), V::default()])
        }
        1 => Some([diffq(xi, r.x, dt), V::default(), V::default()]),
        2 => {
            // acceleration -> velocity (from sample 2) -> position (from sample 3)
            let va = trap(r.x, xi, dt);
            if r.n == 1 {
                r.s1 = va;
                None
            } else {
                let newv = add(r.s1, va);
                let pa = trap(r.s1, newv, dt);
                r.s2 = if r.n == 2 { pa } else { add(r.s2, pa) };
                r.s1 = newv;
                Some([r.s2, r.s1, xi])
            }
        }
        3 => {
            let acc = diffq(xi, r.x, dt);
            let pa = trap(r.x, xi, dt);
            r.s2 = if r.n == 1 { pa } else { add(r.s2, pa) };
            Some([r.s2, xi, acc])
        }
        _ => {
            let vel = diffq(xi, r.x, dt);
            if r.n == 1 {
                r.s1 = vel;
                None
            } else {
                let acc = diffq(vel, r.s1, dt);
                r.s1 = vel;
                Some([xi, vel, acc])
            }
        }
    };
    r.n += 1;
    r.t = t;
    r.x = xi;
    out
}
#[derive(Clone, Debug)]
struct Case {
    kind: usize,
    unit: (i8, i8),
    h: Vec<Ev<f32>>,
}
fn gen(rng: &mut Rng, kind: usize, case: u64) -> Case {
    let len = 2 + rng.usize(63);
    let mut t = rng.range_i64(-1_000_000_000_000_000, 1_000_000_000_000_000);
    let signal = if rng.chance(0.12) { 4 } else { case % 4 }; // 4 = creeping: a far-from-zero value moving by a few units in its last place per sample
    let mut x = rng.moderate(1e3) as f64;
    let amp = rng.log_uniform(1e-2, 1e4);
    let freq = rng.log_uniform(1e-3, 10.0);
    let const_dt = if rng.chance(0.25) { Some(rng.step_ns(1_000, 7_200_000_000_000)) } else { None };
    let unit = match kind {
        0 | 1 => (rng.range_i64(-3, 3) as i8, rng.range_i64(-3, 3) as i8),
        2 => (1, -2),
        3 => (1, -1),
        _ => (1, 0),
    };
    let mut h = Vec::with_capacity(len);
    for i in 0..len {
        t += const_dt.unwrap_or_else(|| rng.step_ns(1_000, 7_200_000_000_000));
        let k = rng.below(12);
        if k == 0 {
            h.push(Ev::None);
        } else if k == 1 && rng.chance(0.6) {
            h.push(Ev::Err(rng.err_code()));
        } else {
            let v = match signal {
                0 => { x += rng.uniform(-1.0, 1.0) * amp * 0.1; x }
                1 => amp * (freq * i as f64).sin() + x,
                2 => { if rng.chance(0.2) { x = rng.moderate(1e4) as f64; } x } // steps: long runs of exactly equal samples
                4 => { let xf = (x as f32) as f64; if xf.abs() >= 1e-3 { x = xf + rng.sign() * (1 + rng.below(24)) as f64 * xf.abs() * (2.0f64).powi(-23); } else { x = rng.moderate_nz(1e3) as f64; } x }
                _ => rng.moderate(1e4) as f64,
            };
            h.push(Ev::Some(t, v.clamp(-1e4, 1e4) as f32));
        }
    }
    Case { kind, unit, h }
}
enum S {
    I(IntegralStream<DQ, E>),
    D(DerivativeStream<DQ, E>),
    A(AccelerationToState<DQ, E>),
    V(VelocityToState<DQ, E>),
    P(PositionToState<DQ, E>),
}
#[derive(Clone, Debug, PartialEq)]
enum O {
    Err,
    None,
    Q(i64, f32, (i8, i8)),
    St(i64, [f32; 3]),
    Panic,
}
fn probe_unit(u: Unit) -> (i8, i8) {
    for m in -4..=4i8 {
        for s in -5..=5i8 {
            if ueq(u, Unit::new(m, s)) {
                return (m, s);
            }
        }
    }
    (99, 99)
}
fn run_real(c: &Case, shift: i64) -> Vec<O> {
    run_observed(c, shift, None)
}
/// `skip[i]`: do not call get() after event i (placeholder O::None there, never compared)
fn run_observed(c: &Case, shift: i64, skip: Option<&[bool]>) -> Vec<O> {
    run_alongside(c, shift, skip, false)
}
/// `alongside`: one more instance of every stream type lives next to the one under test and is updated with the same
/// timestamps (other values) just before it at every step
fn run_alongside(c: &Case, shift: i64, skip: Option<&[bool]>, alongside: bool) -> Vec<O> {
    let src = Src::<Quantity>::new();
    let mut s = match c.kind {
        0 => S::I(IntegralStream::new(src.dynref())),
        1 => S::D(DerivativeStream::new(src.dynref())),
        2 => S::A(AccelerationToState::new(src.dynref())),
        3 => S::V(VelocityToState::new(src.dynref())),
        _ => S::P(PositionToState::new(src.dynref())),
    };
    let unit = Unit::new(c.unit.0, c.unit.1);
    let mut outs = Vec::with_capacity(c.h.len());
    let dsrc = Src::<Quantity>::new();
    let mut others = (IntegralStream::new(dsrc.dynref()), DerivativeStream::new(dsrc.dynref()));
    let (d2, d3, d4) = (Src::<Quantity>::new(), Src::<Quantity>::new(), Src::<Quantity>::new());
    let mut others2 = (AccelerationToState::new(d2.dynref()), VelocityToState::new(d3.dynref()), PositionToState::new(d4.dynref()));
    for e in &c.h {
        if alongside {
            match e {
                Ev::Some(t, v) => { let w = 7.0 - 0.5 * *v; dsrc.some(*t + shift, Quantity::new(w, unit)); d2.some(*t + shift, Quantity::new(w, MILLIMETER_PER_SECOND_SQUARED)); d3.some(*t + shift, Quantity::new(w, MILLIMETER_PER_SECOND)); d4.some(*t + shift, Quantity::new(w, MILLIMETER)); }
                Ev::None => { dsrc.none(); d2.none(); d3.none(); d4.none(); }
                Ev::Err(x) => { dsrc.err(*x); d2.err(*x); d3.err(*x); d4.err(*x); }
            }
            let _ = catch(|| { let _ = others.0.update(); let _ = others.1.update(); let _ = others2.0.update(); let _ = others2.1.update(); let _ = others2.2.update(); let _ = (others.0.get(), others.1.get(), others2.0.get(), others2.1.get(), others2.2.get()); });
        }
        match e {
            Ev::Some(t, v) => src.some(*t + shift, Quantity::new(*v, unit)),
            Ev::None => src.none(),
            Ev::Err(x) => src.err(*x),
        }
        let skip_this = skip.map(|s| s[outs.len()]).unwrap_or(false);
        let r = catch(|| {
            if skip_this {
                match &mut s { S::I(x) => { let _ = x.update(); } S::D(x) => { let _ = x.update(); } S::A(x) => { let _ = x.update(); } S::V(x) => { let _ = x.update(); } S::P(x) => { let _ = x.update(); } }
                return O::None;
            }
            let fq = |o: Out<Quantity>| match o { Err(_) => O::Err, Ok(None) => O::None, Ok(Some(d)) => O::Q(d.time.0, d.value.value, probe_unit(d.value.unit)) };
            let fs = |o: Out<State>| match o { Err(_) => O::Err, Ok(None) => O::None, Ok(Some(d)) => O::St(d.time.0, [d.value.position, d.value.velocity, d.value.acceleration]) };
            match &mut s {
                S::I(x) => { let _ = x.update(); fq(x.get()) }
                S::D(x) => { let _ = x.update(); fq(x.get()) }
                S::A(x) => { let _ = x.update(); fs(x.get()) }
                S::V(x) => { let _ = x.update(); fs(x.get()) }
                S::P(x) => { let _ = x.update(); fs(x.get()) }
            }
        });
        match r {
            Ok(o) => outs.push(o),
            Err(_) => { outs.push(O::Panic); break; }
        }
    }
    outs
}
/// head-room factor on the running error bound (which already grows with every operation)
fn kk(_n: usize) -> f64 {
    8.0
}
fn main() {
    let args = Args::parse();
    let mut rep = Report::new("C10", &args);
    for kind in 0..5usize {
        let name = NAMES[kind];
        let sub: &'static str = Box::leak(format!("hist/{}", name).into_boxed_str());
        for case in args.cases(sub, 6_000, 400_000) {
            let mut rng = Rng::new(args.seed, 1000 + kind as u64, case);
            let c = gen(&mut rng, kind, case);
            let outs = run_real(&c, 0);
            if outs.iter().any(|o| *o == O::Panic) {
                rep.violation(&format!("C10/panic/{}", name), sub, case, format!("correctly dimensioned input panicked; case={:?}", c));
                continue;
            }
            if rep.want_sample(sub) { rep.sample(sub, format!("{} unit=mm^{} s^{} history[..6]={:?} outputs[..6]={:?}", name, c.unit.0, c.unit.1, &c.h[..c.h.len().min(6)], &outs[..outs.len().min(6)])); }
            let none_resets = kind <= 1;
            let mut r = Ref::default();
            let mut prev_expected: Option<(i64, [V; 3], usize)> = None; // what the to-state stream keeps showing across None
            let mut first_present_hist = 0u32;
            for (i, e) in c.h.iter().enumerate() {
                match e {
                    Ev::Some(t, x) => {
                        let exp = ref_step(kind, &mut r, *t, *x);
                        rep.eval();
                        rep.tally(&format!("samples/{}", name));
                        match (&exp, &outs[i]) {
                            (None, O::None) => { prev_expected = None; }
                            (Some(ev), O::Q(ot, ov, ou)) if kind <= 1 => {
                                if r.n <= 4 { first_present_hist |= 1 << r.n; }
                                if r.n == 2 { rep.tally(&format!("first_present_at_sample_2/{}", name)); }
                                let eu = if kind == 0 { (c.unit.0, c.unit.1 + 1) } else { (c.unit.0, c.unit.1 - 1) };
                                if dim_checked() && *ou != eu { // (units do not exist with dimension checking compiled out)
                                    rep.violation(&format!("C10/unit/{}", name), sub, case, format!("event {}: output unit exps {:?}, expected {:?}; case={:?}", i, ou, eu, c));
                                    break;
                                }
                                rep.distinct((kind, c.unit, r.n.min(5)));
                                if *ot != *t {
                                    rep.violation(&format!("C10/timestamp/{}", name), sub, case, format!("event {}: stamped {} expected {}; case={:?}", i, ot, t, c));
                                    break;
                                }
                                let (ok, ratio) = within(*ov, ev[0].v, kk(r.n) * U * ev[0].m);
                                rep.max(&format!("err_over_bound/{}", name), ratio);
                                if !ok {
                                    rep.violation(&format!("C10/value/{}", name), sub, case, format!("event {} (sample {} of run): got {} reference {:e} bound {:e}; case={:?}", i, r.n, f(*ov), ev[0].v, kk(r.n) * U * ev[0].m, c));
                                    break;
                                }
                            }
                            (Some(ev), O::St(ot, ov)) if kind >= 2 => {
                                if r.n == 2 { rep.tally(&format!("first_present_at_sample_2/{}", name)); }
                                if r.n == 3 { rep.tally(&format!("present_at_sample_3/{}", name)); }
                                rep.distinct((kind, r.n.min(6), (c.h.len() / 16)));
                                if *ot != *t {
                                    rep.violation(&format!("C10/timestamp/{}", name), sub, case, format!("event {}: stamped {} expected {}; case={:?}", i, ot, t, c));
                                    break;
                                }
                                let mut bad = false;
                                for k in 0..3 {
                                    let (ok, ratio) = within(ov[k], ev[k].v, kk(r.n) * U * ev[k].m);
                                    rep.max(&format!("err_over_bound/{}/{}", name, ["pos", "vel", "acc"][k]), ratio);
                                    if !ok {
                                        rep.violation(&format!("C10/value/{}/{}", name, ["position", "velocity", "acceleration"][k]), sub, case, format!("event {} (sample {} of run): got {} reference {:e} bound {:e}; case={:?}", i, r.n, f(ov[k]), ev[k].v, kk(r.n) * U * ev[k].m, c));
                                        bad = true;
                                        break;
                                    }
                                }
                                if bad { break; }
                                prev_expected = Some((*t, *ev, r.n));
                            }
                            (exp, got) => {
                                rep.violation(&format!("C10/presence/{}", name), sub, case, format!("event {} is sample {} of its run: output {:?} but expected {}; case={:?}", i, r.n, got, if exp.is_some() { "a value" } else { "absent" }, c));
                                break;
                            }
                        }
                    }
                    Ev::None => {
                        rep.tally(&format!("absent_events/{}", name));
                        if none_resets {
                            r = Ref::default();
                        } else {
                            // to-state converters ignore absent samples: output unchanged
                            rep.eval();
                            let ok = match (&prev_expected, &outs[i]) {
                                (None, O::None) => true,
                                (Some((t, _, _)), O::St(ot, _)) => ot == t && (i == 0 || outs[i] == outs[i - 1] || !matches!(outs[i - 1], O::St(..))),
                                _ => false,
                            };
                            if !ok {
                                rep.violation(&format!("C10/absent-not-ignored/{}", name), sub, case, format!("event {} absent: output {:?} but previous {:?}; case={:?}", i, outs[i], if i > 0 { Some(&outs[i - 1]) } else { None }, c));
                                break;
                            }
                        }
                    }
                    Ev::Err(_) => {
                        rep.tally(&format!("error_events/{}", name));
                        r = Ref::default();
                        prev_expected = None;
                    }
                }
            }
            let _ = first_present_hist;
            // the value does not depend on whether get() was called after earlier updates
            let skip: Vec<bool> = (0..c.h.len()).map(|_| rng.chance(0.6)).collect();
            let sp = run_observed(&c, 0, Some(&skip));
            rep.eval();
            rep.tally("sparse_observation_runs");
            for i in 0..outs.len().min(sp.len()) {
                if !skip[i] && sp[i] != outs[i] && !(matches!((&sp[i], &outs[i]), (O::Q(_, a, _), O::Q(_, b, _)) if a.is_nan() && b.is_nan())) {
                    rep.violation(&format!("C10/get-schedule-affects-output/{}", name), sub, case, format!("event {}: {:?} when read after every update, {:?} when earlier reads are skipped; case={:?}", i, outs[i], sp[i], c));
                    break;
                }
            }
            // ... nor on other stream instances living (and being updated with the same timestamps) alongside
            let al = run_alongside(&c, 0, None, true);
            rep.eval();
            rep.tally("runs_with_other_instances_alongside");
            for i in 0..outs.len().min(al.len()) {
                if al[i] != outs[i] && !(matches!((&al[i], &outs[i]), (O::Q(_, a, _), O::Q(_, b, _)) if a.is_nan() && b.is_nan())) {
                    rep.violation(&format!("C10/instances-not-independent/{}", name), sub, case, format!("event {}: {:?} alone, {:?} with other stream instances updated alongside; case={:?}", i, outs[i], al[i], c));
                    break;
                }
            }
            // shift invariance (bit-exact)
            let shift = match rng.below(3) { 0 => rng.range_i64(-1_000_000, 1_000_000), 1 => (1i64 << 61) + rng.range_i64(0, 1000), _ => -(1i64 << 61) - rng.range_i64(0, 1000) };
            let sh = run_real(&c, shift);
            rep.eval();
            rep.tally("shift_comparisons");
            for i in 0..outs.len().min(sh.len()) {
                let ok = match (&outs[i], &sh[i]) {
                    (O::Q(t, v, u), O::Q(t2, v2, u2)) => *t2 == *t + shift && same(*v, *v2) && u == u2,
                    (O::St(t, v), O::St(t2, v2)) => *t2 == *t + shift && (0..3).all(|k| same(v[k], v2[k])),
                    (a, b) => a == b,
                };
                if !ok {
                    rep.violation(&format!("C10/shift-invariance/{}", name), sub, case, format!("event {}: {:?} vs shifted by {}: {:?}; case={:?}", i, outs[i], shift, sh[i], c));
                    break;
                }
            }
        }
        if matches!(kind, 0 | 1 | 3) { rep.floor(&format!("first_present_at_sample_2/{}", name), 100); }
    }
    // ---- wrongly dimensioned input to the to-state converters: panic iff unit differs (checking on)
    let mut idx = 0u64;
    for kind in 2..5usize {
        for m in -3..=3i8 {
            for s in -3..=3i8 {
                for nth in 0..3usize {
                    let case = idx;
                    idx += 1;
                    if !args.mine("units", case) { continue; }
                    let good = match kind { 2 => (1, -2), 3 => (1, -1), _ => (1, 0) };
                    let mut rng = Rng::new(args.seed, 1010, case);
                    // nth present sample carries the probed unit, earlier ones the right unit
                    let src = Src::<Quantity>::new();
                    let res = catch(|| {
                        let mut t = 0i64;
                        macro_rules! drive { ($st:expr) => {{ let mut st = $st; let mut last = Ok(()); for k in 0..=nth { t += 1_000_000; let u = if k == nth { Unit::new(m, s) } else { Unit::new(good.0, good.1) }; src.some(t, Quantity::new(rng.moderate(1e3), u)); last = st.update(); let _ = st.get(); } last }}; }
                        match kind { 2 => drive!(AccelerationToState::new(src.dynref())), 3 => drive!(VelocityToState::new(src.dynref())), _ => drive!(PositionToState::new(src.dynref())) }
                    });
                    rep.eval();
                    rep.distinct(("units", kind, m, s, nth));
                    // with dimension checking compiled out nothing may panic (there are no units to disagree)
                    let expect_panic = (m, s) != good && dim_checked();
                    if expect_panic { rep.tally("unit_panics_expected"); }
                    match (expect_panic, res.is_err()) {
                        (true, true) => rep.tally("unit_panics_observed"),
                        (false, false) => {}
                        (true, false) => rep.violation(&format!("C10/missing-unit-panic/{}", NAMES[kind]), "units", case, format!("{} accepted sample #{} with unit mm^{} s^{}", NAMES[kind], nth + 1, m, s)),
                        (false, true) => rep.violation(&format!("C10/unexpected-unit-panic/{}", NAMES[kind]), "units", case, format!("{} panicked on a correctly dimensioned sample #{}", NAMES[kind], nth + 1)),
                    }
                }
            }
        }
    }
    rep.exhaustive("to-state converters x 49 input units x position of the offending sample (1st, 2nd, 3rd)");
    if dim_checked() { rep.floor("unit_panics_observed", 400); rep.tally("lane/checked"); } else { rep.tally("lane/unchecked"); }
    rep.floor("present_at_sample_3/AccelerationToState", 100);
    rep.floor("present_at_sample_3/PositionToState", 100);
    rep.finish(&args);
}
