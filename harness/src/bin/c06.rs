//! C06 — motion-profile accessors agree with each other at every instant.
//! Oracle = table from piece to expected presence / mode / bit-identity between accessors of the
//! same object; boundaries recovered by bisection of get_piece; monotonicity of pieces monitored.
use rrtk::*;
use rrtk_mon::mp::*;
use rrtk_mon::*;
fn hist(mp: &MotionProfile, t: i64) -> Option<Datum<Command>> {
    <MotionProfile as History<Command, E>>::get(mp, Time(t))
}
fn main() {
    let args = Args::parse();
    let mut rep = Report::new("C06", &args);
    let n_random = args.pick(48, 256) as usize;
    // a slot that is re-planned into: holds the previous case's profile until the current one overwrites it in place
    let mut slot: Option<(MotionProfile, i64)> = None;
    for case in args.cases("profiles", 40_000, 1_500_000) {
        let mut rng = Rng::new(args.seed, 601, case);
        let c = gen_case(&mut rng, case);
        rep.eval();
        let mp = match build(&c) {
            Ok(mp) => mp,
            Err(_) => { rep.tally("constructor_panicked"); continue; } // a panic is an allowed outcome
        };
        rep.tally("constructor_accepted");
        // the end command from the statement ("the end state's lowest non-zero derivative"), not from the crate's
        // own conversion: non-zero includes subnormal
        let end_cmd = if c.end.acceleration != 0.0 { Command::new(PositionDerivative::Acceleration, c.end.acceleration) }
            else if c.end.velocity != 0.0 { Command::new(PositionDerivative::Velocity, c.end.velocity) }
            else { Command::new(PositionDerivative::Position, c.end.position) };
        if (c.end.acceleration != 0.0 && c.end.acceleration.abs() < f32::MIN_POSITIVE) || (c.end.acceleration == 0.0 && c.end.velocity != 0.0 && c.end.velocity.abs() < f32::MIN_POSITIVE) { rep.tally("end_kind_decided_by_subnormal"); }
        let end_kind = PositionDerivative::from(end_cmd);
        rep.tally(&format!("end_kind/{:?}", end_kind));
        rep.tally(if c.end.position < c.start.position { "direction/reversed" } else { "direction/forward" });
        // the bisection assumes Complete is reached by 2^62 ns
        if mp.get_piece(Time(1i64 << 62)) != MotionProfilePiece::Complete {
            rep.violation("C06/never-complete", "profiles", case, format!("piece at 2^62 ns is {:?}; case={:?}", mp.get_piece(Time(1i64 << 62)), c));
            continue;
        }
        let b = boundaries(&mp);
        rep.eval();
        // "The constructor either panics or yields 0 <= t1 <= t2 <= t3": t1..t3 are private, but the derived Debug text is a
        // public observation of them. Where it can be read (a change of the Debug format just leaves this unasserted) the
        // stored values must be ordered and be the boundaries that get_piece shows.
        {
            let dbg = format!("{:?}", mp);
            let grab = |name: &str| -> Option<i64> { let i = dbg.find(&format!("{}: Time(", name))? + name.len() + 7; let rest = &dbg[i..]; rest[..rest.find(')')?].trim().parse().ok() };
            if let (Some(t1), Some(t2), Some(t3)) = (grab("t1"), grab("t2"), grab("t3")) {
                rep.tally("stored_boundaries_read_from_debug");
                if !(0 <= t1 && t1 <= t2 && t2 <= t3) {
                    rep.violation("C06/stored-boundaries-order", "profiles", case, format!("accepted profile stores t1={} t2={} t3={} (must be 0 <= t1 <= t2 <= t3); case={:?}", t1, t2, t3, c));
                    continue;
                }
                if [t1, t2, t3] != b {
                    rep.violation("C06/stored-boundaries-vs-pieces", "profiles", case, format!("stored t1..t3 = {:?} but get_piece changes at {:?}; case={:?}", [t1, t2, t3], b, c));
                    continue;
                }
            }
        }
        if !(0 <= b[0] && b[0] <= b[1] && b[1] <= b[2]) {
            rep.violation("C06/boundaries-order", "profiles", case, format!("recovered t1..t3 = {:?}; case={:?}", b, c));
            continue;
        }
        let phases = ((b[0] > 0) as u8) | (((b[1] > b[0]) as u8) << 1) | (((b[2] > b[1]) as u8) << 2);
        rep.distinct((c.end.position < c.start.position, pd_i(end_kind), phases, (b[2].max(1) as f64).log10() as u32, c.start.velocity > 0.0, c.end.velocity > 0.0, c.start.velocity == 0.0));
        if b[0] == 0 { rep.tally("degenerate/t1=0"); }
        if b[0] == b[1] { rep.tally("degenerate/t1=t2"); }
        if b[1] == b[2] { rep.tally("degenerate/t2=t3"); }
        if rep.want_sample("profiles") { rep.sample("profiles", format!("{:?} -> t1..t3={:?} end_command={:?}", c, b, end_cmd)); }
        let mut ts = query_times(&mut rng, &b, n_random);
        ts.sort();
        let mut last_rank = 0u8;
        let mut bad = false;
        for &t in &ts {
            rep.eval();
            let piece = mp.get_piece(Time(t));
            let rank = piece_rank(piece);
            if rank < last_rank {
                rep.violation("C06/piece-goes-back", "profiles", case, format!("piece {:?} at t={} after a later piece at an earlier time; case={:?}", piece, t, c));
                bad = true;
                break;
            }
            last_rank = rank;
            // expected piece from the recovered boundaries (checks that bisection and direct reads agree)
            let exp_rank = if t < 0 { 0 } else if t < b[0] { 1 } else if t < b[1] { 2 } else if t < b[2] { 3 } else { 4 };
            let mode = mp.get_mode(Time(t));
            let acc = mp.get_acceleration(Time(t));
            let vel = mp.get_velocity(Time(t));
            let pos = mp.get_position(Time(t));
            let h = hist(&mp, t);
            let exp_mode = match rank { 0 => None, 1 | 3 => Some(PositionDerivative::Acceleration), 2 => Some(PositionDerivative::Velocity), _ => Some(end_kind) };
            let mut fail = |sig: &str, msg: String| { rep.violation(sig, "profiles", case, format!("t={} piece={:?}: {}; t1..t3={:?} case={:?}", t, piece, msg, b, c)); };
            if rank != exp_rank { fail("C06/piece-vs-boundaries", format!("expected rank {}", exp_rank)); bad = true; break; }
            if (rank == 0) != (t < 0) { fail("C06/before-start-iff-negative", String::new()); bad = true; break; }
            if mode != exp_mode { fail("C06/mode", format!("mode {:?} expected {:?}", mode, exp_mode)); bad = true; break; }
            if acc.is_none() != (t < 0) { fail("C06/acceleration-presence", format!("{:?}", acc)); bad = true; break; }
            if h.is_none() != (t < 0) { fail("C06/history-presence", format!("{:?}", h)); bad = true; break; }
            if t >= 0 {
                let (vexp, pexp) = if rank < 4 { (true, true) } else { (end_cmd.get_velocity().is_some(), end_cmd.get_position().is_some()) };
                if vel.is_some() != vexp { fail("C06/velocity-presence", format!("{:?}", vel)); bad = true; break; }
                if pos.is_some() != pexp { fail("C06/position-presence", format!("{:?}", pos)); bad = true; break; }
                if let Some(a) = acc { if !ueq(a.unit, MILLIMETER_PER_SECOND_SQUARED) { fail("C06/unit/acceleration", format!("{:?}", a)); bad = true; break; } }
                if let Some(v) = vel { if !ueq(v.unit, MILLIMETER_PER_SECOND) { fail("C06/unit/velocity", format!("{:?}", v)); bad = true; break; } }
                if let Some(p) = pos { if !ueq(p.unit, MILLIMETER) { fail("C06/unit/position", format!("{:?}", p)); bad = true; break; } }
                // history: stamped t, command of exactly the mode, value bit-identical to the matching accessor
                let hd = h.unwrap();
                let m = exp_mode.unwrap();
                let matching = match m { PositionDerivative::Position => pos, PositionDerivative::Velocity => vel, PositionDerivative::Acceleration => acc };
                let ok = hd.time.0 == t && PositionDerivative::from(hd.value) == m && matching.map(|q| q.value.to_bits() == f32::from(hd.value).to_bits()).unwrap_or(false);
                if !ok { fail("C06/history-vs-accessor", format!("history {:?} mode {:?} matching accessor {:?}", hd, m, matching)); bad = true; break; }
                if rank == 4 {
                    // from completion onward: the end state's lowest non-zero derivative, forever
                    if !csame(&hd.value, &end_cmd) { fail("C06/history-after-completion", format!("history {:?} expected {:?}", hd.value, end_cmd)); bad = true; break; }
                    rep.tally("after_completion_reads");
                }
            }
        }
        if bad { continue; }
        // re-planning into the same storage: query the old profile at t*, overwrite it in place with this case's profile,
        // query again at the same t*: the answers are those of the NEW profile (compared with `mp`, built separately)
        {
            let tstar = match &slot { Some((_, t)) => *t, None => *rng.pick(&ts).max(&0) };
            if let Some((old, _)) = &slot { let _ = (hist(old, tstar), old.get_piece(Time(tstar)), old.get_velocity(Time(tstar))); }
            match build(&c) {
                Ok(newp) => {
                    let next_t = *rng.pick(&[0i64, b[0], b[1], b[2] / 2, b[2]]);
                    match &mut slot { Some(sl) => { sl.0 = newp; sl.1 = next_t; } None => slot = Some((newp, next_t)) }
                    let cur = &slot.as_ref().unwrap().0;
                    let f = |m: &MotionProfile| format!("{:?} {:?} {:?} {:?} {:?} {:?}", m.get_piece(Time(tstar)), m.get_mode(Time(tstar)), m.get_acceleration(Time(tstar)).map(|q| q.value.to_bits()), m.get_velocity(Time(tstar)).map(|q| q.value.to_bits()), m.get_position(Time(tstar)).map(|q| q.value.to_bits()), hist(m, tstar).map(|d| (d.time, PositionDerivative::from(d.value), f32::from(d.value).to_bits())));
                    let (got, want) = (f(cur), f(&mp));
                    rep.eval();
                    rep.tally("replanned_slot_comparisons");
                    if got != want {
                        rep.violation("C06/stale-after-replanning", "profiles", case, format!("t={}: a profile written over an older one in the same storage answers {} but the same profile built elsewhere answers {}; case={:?}", tstar, got, want, c));
                    }
                }
                Err(_) => {}
            }
        }
        // the accessors are functions of t alone: the FIRST call ever made on a newly built profile answers like the
        // long-lived object that has already served the whole sweep (t = 0 and the phase boundaries included)
        let mut cand = vec![0i64, 1, -1, b[0], b[1], b[2], b[2].saturating_sub(1)];
        for _ in 0..3 { cand.push(*rng.pick(&ts)); }
        for &t in &cand {
            let which = rng.below(6);
            let show = |mp: &MotionProfile| -> String {
                match which {
                    0 => format!("{:?}", mp.get_piece(Time(t))),
                    1 => format!("{:?}", mp.get_mode(Time(t))),
                    2 => format!("{:?}", mp.get_acceleration(Time(t)).map(|q| (q.value.to_bits(), q.unit))),
                    3 => format!("{:?}", mp.get_velocity(Time(t)).map(|q| (q.value.to_bits(), q.unit))),
                    4 => format!("{:?}", mp.get_position(Time(t)).map(|q| (q.value.to_bits(), q.unit))),
                    _ => format!("{:?}", hist(mp, t).map(|d| (d.time, PositionDerivative::from(d.value), f32::from(d.value).to_bits()))),
                }
            };
            let fresh = match build(&c) { Ok(m) => m, Err(_) => { rep.violation("C06/constructor-not-deterministic", "profiles", case, format!("second construction panicked; case={:?}", c)); break; } };
            let (first, old) = (show(&fresh), show(&mp));
            rep.eval();
            rep.tally("fresh_first_query_comparisons");
            if first != old {
                rep.violation("C06/first-query-differs", "profiles", case, format!("accessor #{} at t={}: first call on a new profile gives {} but the long-lived one {}; t1..t3={:?} case={:?}", which, t, first, old, b, c));
                break;
            }
        }
    }
    rep.floor("constructor_accepted", 1000);
    rep.floor("end_kind/Position", 100);
    rep.floor("end_kind/Velocity", 100);
    rep.floor("end_kind/Acceleration", 100);
    rep.floor("direction/reversed", 100);
    rep.floor("after_completion_reads", 1000);
    rep.floor("fresh_first_query_comparisons", 5000);
    rep.floor("replanned_slot_comparisons", 1000);
    rep.floor("end_kind_decided_by_subnormal", 20);
    rep.finish(&args);
}
fn pd_i(p: PositionDerivative) -> u8 {
    match p { PositionDerivative::Position => 0, PositionDerivative::Velocity => 1, PositionDerivative::Acceleration => 2 }
}
