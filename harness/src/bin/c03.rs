//! C03 — combined data carry the newest contributing timestamp; selection picks newest; the
//! replace-if-older helpers replace exactly when the candidate is strictly newer (or slot empty).
//!
//! Oracle: integer max / argmax on the timestamps the monitor supplied. Values are irrelevant
//! except that a *selection* must hand back one of the candidates bit-identically (candidates of a
//! case are given pairwise distinct payload bits so the identification is unambiguous).
//!
//! Readings accepted where the statement is silent:
//!  * ties between candidates: either candidate is accepted for selections;
//!  * an input that returns `Err` is outside this property (error routing is C-other): when a case
//!    contains one, only a `Some` output is checked;
//!  * `Getter<TerminalData>` is not in the statement's list of combinations: only "its time is one
//!    of the part stamps" is demanded, how often it is older than the newest part is tallied;
//!  * device terminals the device does not write in a given situation are not constrained.
use core::ops::{AddAssign, MulAssign};
use rrtk::devices::*;
use rrtk::streams::logic::*;
use rrtk::streams::math::*;
use rrtk::streams::Latest;
use rrtk::*;
use rrtk_mon::*;
use std::cell::RefCell;

// ------------------------------------------------------------------------------------------------
// payloads
// ------------------------------------------------------------------------------------------------
/// i-th member of a family of non-zero, pairwise distinct, exactly representable values.
fn val(salt: u32, i: usize) -> f32 {
    (i as f32) * 16.0 + ((salt >> 3) % 1024) as f32 / 128.0 - 4.0 + 1.0 / 256.0
}
fn unit_of(salt: u32) -> Unit {
    Unit::new(((salt >> 13) % 7) as i8 - 3, ((salt >> 17) % 7) as i8 - 3)
}
fn pd_of(salt: u32) -> PositionDerivative {
    match (salt >> 21) % 3 {
        0 => PositionDerivative::Position,
        1 => PositionDerivative::Velocity,
        _ => PositionDerivative::Acceleration,
    }
}
trait Pay: Copy + core::fmt::Debug + 'static {
    const NAME: &'static str;
    /// i-th value of the family selected by `salt` (same unit / derivative for all i, distinct bits)
    fn make(salt: u32, i: usize) -> Self;
    /// payload whose numeric content is exactly `v` (unit / derivative from `salt`)
    fn from_val(salt: u32, v: f32) -> Self;
    /// bit-identical
    fn ident(&self, o: &Self) -> bool;
}
impl Pay for f32 {
    const NAME: &'static str = "f32";
    fn make(salt: u32, i: usize) -> Self {
        val(salt, i)
    }
    fn from_val(_salt: u32, v: f32) -> Self {
        v
    }
    fn ident(&self, o: &Self) -> bool {
        self.to_bits() == o.to_bits()
    }
}
impl Pay for Quantity {
    const NAME: &'static str = "Quantity";
    fn make(salt: u32, i: usize) -> Self {
        Quantity::new(val(salt, i), unit_of(salt))
    }
    fn from_val(salt: u32, v: f32) -> Self {
        Quantity::new(v, unit_of(salt))
    }
    fn ident(&self, o: &Self) -> bool {
        self.value.to_bits() == o.value.to_bits() && ueq(self.unit, o.unit)
    }
}
impl Pay for State {
    const NAME: &'static str = "State";
    fn make(salt: u32, i: usize) -> Self {
        let v = val(salt, i);
        State::new_raw(v, v + 1024.0, v - 1024.0)
    }
    fn from_val(salt: u32, v: f32) -> Self {
        if salt & 2 == 0 {
            State::new_raw(v, v, v)
        } else {
            State::new_raw(v, v * 2.0, -v)
        }
    }
    fn ident(&self, o: &Self) -> bool {
        self.position.to_bits() == o.position.to_bits()
            && self.velocity.to_bits() == o.velocity.to_bits()
            && self.acceleration.to_bits() == o.acceleration.to_bits()
    }
}
impl Pay for Command {
    const NAME: &'static str = "Command";
    fn make(salt: u32, i: usize) -> Self {
        Command::new(pd_of(salt), val(salt, i))
    }
    fn from_val(salt: u32, v: f32) -> Self {
        Command::new(pd_of(salt), v)
    }
    fn ident(&self, o: &Self) -> bool {
        PositionDerivative::from(*self) == PositionDerivative::from(*o) && f32::from(*self).to_bits() == f32::from(*o).to_bits()
    }
}
impl Pay for bool {
    const NAME: &'static str = "bool";
    fn make(salt: u32, i: usize) -> Self {
        (i + (salt & 1) as usize) % 2 == 0
    }
    fn from_val(_salt: u32, v: f32) -> Self {
        v != 0.0
    }
    fn ident(&self, o: &Self) -> bool {
        self == o
    }
}
/// Values that fast paths / early returns typically key on (neutral elements, zero, sign).
const SPECIAL: [f32; 6] = [0.0, -0.0, 1.0, -1.0, 2.0, 0.5];
fn vclass(v: f32) -> &'static str {
    if v.to_bits() == 0 {
        "+0"
    } else if v == 0.0 {
        "-0"
    } else if v == 1.0 {
        "1"
    } else if v == -1.0 {
        "-1"
    } else if v == 2.0 {
        "2"
    } else if v == 0.5 {
        "0.5"
    } else {
        "other"
    }
}
/// Operand values of one operator case: lhs payload value, rhs payload value (Datum<T> / T rhs), f32 rhs of
/// the State / Command special forms.
#[derive(Clone, Copy, Debug)]
struct Vals {
    a: f32,
    b: f32,
    k: f32,
}
impl Vals {
    /// enumerated: rhs = SPECIAL[ri] (ri < 6) or a random family value (ri == 6); lhs mode 0 = random
    /// family value, 1 = bit-equal to rhs, 2 = a special value; the f32 rhs equals the rhs value.
    fn enumerated(rng: &mut Rng, salt: u32, ri: usize, lmode: usize) -> Vals {
        let b = if ri < 6 { SPECIAL[ri] } else { val(salt, 1) };
        let a = match lmode {
            0 => val(salt, 0),
            1 => b,
            _ => *rng.pick(&SPECIAL),
        };
        Vals { a, b, k: b }
    }
    fn random(rng: &mut Rng, salt: u32) -> Vals {
        let b = match rng.below(20) {
            0..=5 => *rng.pick(&SPECIAL),
            6..=8 => rng.special(),
            9..=10 => *rng.pick(&[0.0f32, 1.0]),
            _ => val(salt, 1),
        };
        let a = match rng.below(10) {
            0..=1 => b,
            2..=4 => *rng.pick(&SPECIAL),
            _ => val(salt, 0),
        };
        let k = match rng.below(4) {
            0..=1 => b,
            2 => *rng.pick(&SPECIAL),
            _ => val(salt.rotate_left(11), 2),
        };
        Vals { a, b, k }
    }
    fn key(&self) -> (&'static str, &'static str, &'static str) {
        (if self.a.to_bits() == self.b.to_bits() { "lhs=rhs" } else { vclass(self.a) }, vclass(self.b), vclass(self.k))
    }
}
fn dident<P: Pay>(a: &Datum<P>, b: &Datum<P>) -> bool {
    a.time == b.time && a.value.ident(&b.value)
}

// ------------------------------------------------------------------------------------------------
// timestamps
// ------------------------------------------------------------------------------------------------
const B62: i64 = 1 << 62;
/// Strata {extremes, +-2^62, negative, 0, positive} with an adjacent neighbour for each.
const ANCHORS: [i64; 15] = [
    i64::MIN,
    i64::MIN + 1,
    -B62 - 1,
    -B62,
    -1_000_000_007,
    -2,
    -1,
    0,
    1,
    2,
    1_000_000_007,
    B62,
    B62 + 1,
    i64::MAX - 1,
    i64::MAX,
];
const B40: i64 = 1 << 40;
/// Moderate stamps for terminals / devices (|t| <= 2^40).
const MOD: [i64; 11] = [-B40, -B40 + 1, -1_000_000_007, -2, -1, 0, 1, 2, 1_000_000_007, B40 - 1, B40];
fn stratum(t: i64) -> &'static str {
    const W: i64 = 1 << 20;
    if t == i64::MIN {
        "MIN"
    } else if t == i64::MAX {
        "MAX"
    } else if t < -B62 - W {
        "near-MIN"
    } else if t <= -B62 + W {
        "-2^62"
    } else if t < -2 {
        "neg"
    } else if t < 0 {
        "-1,-2"
    } else if t == 0 {
        "0"
    } else if t <= 2 {
        "1,2"
    } else if t < B62 - W {
        "pos"
    } else if t <= B62 + W {
        "+2^62"
    } else {
        "near-MAX"
    }
}
/// order class of (a, b), adjacency distinguished
fn rel(a: i64, b: i64) -> &'static str {
    let d = b as i128 - a as i128;
    if d == 0 {
        "="
    } else if d == 1 {
        "<1"
    } else if d == -1 {
        ">1"
    } else if d > 0 {
        "<"
    } else {
        ">"
    }
}
fn draw_any(rng: &mut Rng) -> i64 {
    match rng.below(10) {
        0..=3 => *rng.pick(&ANCHORS),
        4..=7 => rng.stamp(),
        _ => rng.next_u64() as i64,
    }
}
fn draw_mod(rng: &mut Rng) -> i64 {
    match rng.below(10) {
        0..=2 => *rng.pick(&MOD),
        3..=5 => rng.range_i64(-1000, 1000),
        _ => rng.range_i64(-B40, B40),
    }
}
/// A random pair with a stratified relation (equal / adjacent / independent).
fn draw_pair(rng: &mut Rng) -> (i64, i64) {
    let a = draw_any(rng);
    let b = match rng.below(6) {
        0 => a,
        1 => {
            if a < i64::MAX {
                a + 1
            } else {
                a - 1
            }
        }
        2 => {
            if a > i64::MIN {
                a - 1
            } else {
                a + 1
            }
        }
        _ => draw_any(rng),
    };
    (a, b)
}
/// n strictly increasing stamps; about a third of the neighbours are adjacent (+1).
fn ladder(rng: &mut Rng, n: usize, draw: fn(&mut Rng) -> i64) -> Vec<i64> {
    let mut v: Vec<i64> = Vec::with_capacity(n);
    while v.len() < n {
        let x = draw(rng);
        if !v.contains(&x) {
            v.push(x);
        }
    }
    v.sort();
    for k in 0..n.saturating_sub(1) {
        if rng.chance(0.3) {
            // v[k] < v[k+1] <= MAX, so no overflow, and the order stays strict
            v[k + 1] = v[k] + 1;
        }
    }
    v
}

// ------------------------------------------------------------------------------------------------
// checking context
// ------------------------------------------------------------------------------------------------
struct Ctx<'a> {
    rep: &'a mut Report,
    sub: &'static str,
    case: u64,
    /// value classes of the operands of the current operator case (part of the distinct key)
    vkey: (&'static str, &'static str, &'static str),
}
type TimeOut = Result<Result<Option<i64>, Error<E>>, String>;
impl Ctx<'_> {
    /// One Datum operator form: result time must be max(tl, tr) (binary) or tl (scalar / unary).
    fn op(&mut self, form: &'static str, pay: &'static str, tl: i64, tr: Option<i64>, got: Result<i64, String>) {
        self.rep.eval();
        let exp = match tr {
            Some(r) => tl.max(r),
            None => tl,
        };
        match tr {
            Some(r) => {
                self.rep.tally("datum_ops_binary");
                self.rep.distinct(("op", form, pay, stratum(tl), stratum(r), rel(tl, r)));
                self.rep.distinct(("opv", form, pay, rel(tl, r), self.vkey));
            }
            None => {
                self.rep.tally("datum_ops_scalar_or_unary");
                self.rep.distinct(("op1", form, pay, stratum(tl)));
                self.rep.distinct(("op1v", form, pay, self.vkey));
            }
        }
        match got {
            Ok(t) if t == exp => {}
            Ok(t) => self.rep.violation(
                &format!("C03/datum-op/{}/{}", form, pay),
                self.sub,
                self.case,
                format!("Datum<{}> {}: lhs time {} rhs {:?} -> result time {}, expected {}; operand value classes (lhs, rhs, f32 rhs) {:?}", pay, form, tl, tr, t, exp, self.vkey),
            ),
            Err(m) => self.rep.violation(
                &format!("C03/unexpected-panic/datum-op/{}/{}", form, pay),
                self.sub,
                self.case,
                format!("Datum<{}> {}: lhs time {} rhs {:?} panicked: {}", pay, form, tl, tr, m),
            ),
        }
    }
    /// A combination (stream / terminal average): a `Some` output must carry the max of the
    /// stamps of the present inputs.
    fn combined(&mut self, site: &str, pay: &'static str, present: &[i64], got: TimeOut, detail: &dyn Fn() -> String) {
        self.rep.eval();
        match got {
            Err(m) => self.rep.violation(&format!("C03/unexpected-panic/{}/{}", site, pay), self.sub, self.case, format!("{} panicked: {}; {}", site, m, detail())),
            Ok(Err(e)) => self.rep.violation(&format!("C03/spurious-error/{}/{}", site, pay), self.sub, self.case, format!("{} returned {:?} with no failing input; {}", site, e, detail())),
            Ok(Ok(None)) => self.rep.tally("combined_output_none"),
            Ok(Ok(Some(t))) => {
                self.rep.tally("combined_output_some");
                match present.iter().max() {
                    None => self.rep.violation(&format!("C03/combined-time/{}/{}", site, pay), self.sub, self.case, format!("{} produced time {} with no present input; {}", site, t, detail())),
                    Some(&m) => {
                        if t != m {
                            self.rep.violation(&format!("C03/combined-time/{}/{}", site, pay), self.sub, self.case, format!("{} result time {} but newest contributing time is {} (present stamps {:?}); {}", site, t, m, present, detail()));
                        }
                    }
                }
            }
        }
    }
    /// A selection: a `Some` output must be one of the candidates (bit-identical, same stamp) and no
    /// candidate may be strictly newer. With candidates and no failing input the output must be Some.
    fn selection<P: Pay>(&mut self, site: &str, cands: &[Datum<P>], has_err: bool, got: Result<Output<P, E>, String>, detail: &dyn Fn() -> String) {
        self.rep.eval();
        let pay = P::NAME;
        match got {
            Err(m) => self.rep.violation(&format!("C03/unexpected-panic/{}/{}", site, pay), self.sub, self.case, format!("{} panicked: {}; {}", site, m, detail())),
            Ok(Err(e)) => {
                if has_err {
                    self.rep.tally("selection_err_with_failing_input_not_judged");
                } else {
                    self.rep.violation(&format!("C03/spurious-error/{}/{}", site, pay), self.sub, self.case, format!("{} returned {:?} with no failing input; {}", site, e, detail()));
                }
            }
            Ok(Ok(None)) => {
                if cands.is_empty() {
                    self.rep.tally("selection_none_no_candidates");
                } else if has_err {
                    self.rep.tally("selection_none_with_failing_input_not_judged");
                } else {
                    self.rep.violation(&format!("C03/selection-none/{}/{}", site, pay), self.sub, self.case, format!("{} returned None although candidates exist; {}", site, detail()));
                }
            }
            Ok(Ok(Some(d))) => {
                self.rep.tally("selection_some");
                if !cands.iter().any(|c| dident(c, &d)) {
                    self.rep.violation(&format!("C03/selection-not-a-candidate/{}/{}", site, pay), self.sub, self.case, format!("{} returned {:?} which is none of the candidates; {}", site, d, detail()));
                }
                let newest = cands.iter().map(|c| c.time.0).max();
                if let Some(m) = newest {
                    if m > d.time.0 {
                        self.rep.violation(&format!("C03/selection-not-newest/{}/{}", site, pay), self.sub, self.case, format!("{} returned time {} but a candidate has time {}; {}", site, d.time.0, m, detail()));
                    }
                    if cands.iter().filter(|c| c.time.0 == m).count() > 1 {
                        self.rep.tally("selection_tie_for_newest");
                    }
                }
            }
        }
    }
}
fn times<P>(r: Result<Output<P, E>, String>) -> TimeOut {
    r.map(|o| o.map(|d| d.map(|d| d.time.0)))
}

// ------------------------------------------------------------------------------------------------
// 1. Datum operators
// ------------------------------------------------------------------------------------------------
/// Add / Sub family (Datum rhs: binary + assign; bare rhs: scalar + scalar-assign) and Neg.
macro_rules! additive {
    ($ctx:expr, $p:expr, $bin:expr, $una:expr, $tl:expr, $tr:expr, $a:expr, $b:expr) => {{
        let (x, y) = (Datum::new(Time($tl), $a), Datum::new(Time($tr), $b));
        let s = $b;
        if $bin {
            $ctx.op("Add<Datum>", $p, $tl, Some($tr), catch(|| (x + y).time.0));
            $ctx.op("AddAssign<Datum>", $p, $tl, Some($tr), catch(|| { let mut z = x; z += y; z.time.0 }));
            $ctx.op("Sub<Datum>", $p, $tl, Some($tr), catch(|| (x - y).time.0));
            $ctx.op("SubAssign<Datum>", $p, $tl, Some($tr), catch(|| { let mut z = x; z -= y; z.time.0 }));
        }
        if $una {
            $ctx.op("Add<scalar>", $p, $tl, None, catch(|| (x + s).time.0));
            $ctx.op("AddAssign<scalar>", $p, $tl, None, catch(|| { let mut z = x; z += s; z.time.0 }));
            $ctx.op("Sub<scalar>", $p, $tl, None, catch(|| (x - s).time.0));
            $ctx.op("SubAssign<scalar>", $p, $tl, None, catch(|| { let mut z = x; z -= s; z.time.0 }));
            $ctx.op("Neg", $p, $tl, None, catch(|| (-x).time.0));
        }
    }};
}
/// Mul / Div family with rhs `Datum<R>` / bare `R` (R = T for the generic impls, f32 for the
/// State / Command special cases).
macro_rules! multiplicative {
    ($ctx:expr, $p:expr, $sfx:literal, $bin:expr, $una:expr, $tl:expr, $tr:expr, $a:expr, $b:expr) => {{
        let (x, y) = (Datum::new(Time($tl), $a), Datum::new(Time($tr), $b));
        let s = $b;
        if $bin {
            $ctx.op(concat!("Mul<Datum", $sfx, ">"), $p, $tl, Some($tr), catch(|| (x * y).time.0));
            $ctx.op(concat!("MulAssign<Datum", $sfx, ">"), $p, $tl, Some($tr), catch(|| { let mut z = x; z *= y; z.time.0 }));
            $ctx.op(concat!("Div<Datum", $sfx, ">"), $p, $tl, Some($tr), catch(|| (x / y).time.0));
            $ctx.op(concat!("DivAssign<Datum", $sfx, ">"), $p, $tl, Some($tr), catch(|| { let mut z = x; z /= y; z.time.0 }));
        }
        if $una {
            $ctx.op(concat!("Mul<scalar", $sfx, ">"), $p, $tl, None, catch(|| (x * s).time.0));
            $ctx.op(concat!("MulAssign<scalar", $sfx, ">"), $p, $tl, None, catch(|| { let mut z = x; z *= s; z.time.0 }));
            $ctx.op(concat!("Div<scalar", $sfx, ">"), $p, $tl, None, catch(|| (x / s).time.0));
            $ctx.op(concat!("DivAssign<scalar", $sfx, ">"), $p, $tl, None, catch(|| { let mut z = x; z /= s; z.time.0 }));
        }
    }};
}
/// Every operator impl of src/datum.rs for every payload it type-checks with. `bin`: the forms with
/// a Datum rhs (two stamps); `una`: the scalar and unary forms (one stamp, `tl`).
/// 32 binary (form x payload) cells and 37 one-stamp cells (69 in all).
fn datum_ops(ctx: &mut Ctx, bin: bool, una: bool, tl: i64, tr: i64, salt: u32, v: Vals) {
    ctx.vkey = v.key();
    {
        additive!(ctx, "f32", bin, una, tl, tr, v.a, v.b);
        multiplicative!(ctx, "f32", "", bin, una, tl, tr, v.a, v.b);
    }
    {
        let (a, b) = (<Quantity as Pay>::from_val(salt, v.a), <Quantity as Pay>::from_val(salt, v.b));
        additive!(ctx, "Quantity", bin, una, tl, tr, a, b);
        // multiplication / division may mix units
        let b2 = Quantity::new(v.b, unit_of(salt.rotate_left(9)));
        multiplicative!(ctx, "Quantity", "", bin, una, tl, tr, a, b2);
    }
    {
        let (a, b) = (<State as Pay>::from_val(salt, v.a), <State as Pay>::from_val(salt, v.b));
        additive!(ctx, "State", bin, una, tl, tr, a, b);
        multiplicative!(ctx, "State", "<f32>", bin, una, tl, tr, a, v.k);
    }
    {
        let (a, b) = (<Command as Pay>::from_val(salt, v.a), <Command as Pay>::from_val(salt, v.b));
        additive!(ctx, "Command", bin, una, tl, tr, a, b);
        multiplicative!(ctx, "Command", "<f32>", bin, una, tl, tr, a, v.k);
    }
    if una {
        let x = Datum::new(Time(tl), <bool as Pay>::from_val(salt, v.a));
        ctx.op("Not", "bool", tl, None, catch(|| (!x).time.0));
    }
    ctx.vkey = ("", "", "");
}

// ------------------------------------------------------------------------------------------------
// 2. latest() and the replace helpers
// ------------------------------------------------------------------------------------------------
fn helpers<P: Pay>(ctx: &mut Ctx, tl: i64, tr: i64, salt: u32) {
    let pay = P::NAME;
    let (a, b) = (P::make(salt, 0), P::make(salt, 1));
    let (d1, d2) = (Datum::new(Time(tl), a), Datum::new(Time(tr), b));
    let key = (pay, stratum(tl), stratum(tr), rel(tl, tr));
    let det = move || format!("slot/first = {:?}, candidate/second = {:?}", d1, d2);
    // ---- latest(): selection among two
    ctx.rep.distinct(("latest", key));
    ctx.selection("latest()", &[d1, d2], false, catch(|| Ok(Some(latest(d1, d2)))), &det);
    ctx.selection("latest()", &[d2, d1], false, catch(|| Ok(Some(latest(d2, d1)))), &det);
    // ---- Datum::replace_if_older_than
    let newer = tr > tl;
    {
        ctx.rep.distinct(("replace_if_older_than", key));
        ctx.rep.eval();
        match catch(|| {
            let mut slot = d1;
            let r = slot.replace_if_older_than(d2);
            (r, slot)
        }) {
            Err(m) => ctx.rep.violation(&format!("C03/unexpected-panic/replace_if_older_than/{}", pay), ctx.sub, ctx.case, format!("{}; {}", m, det())),
            Ok((r, slot)) => {
                ctx.rep.tally(if newer { "replace_expected" } else { "keep_expected" });
                if r != newer {
                    ctx.rep.violation(&format!("C03/replace/return/replace_if_older_than/{}", pay), ctx.sub, ctx.case, format!("returned {} but candidate strictly newer = {}; {}", r, newer, det()));
                }
                let want = if newer { d2 } else { d1 };
                if !dident(&slot, &want) {
                    ctx.rep.violation(&format!("C03/replace/slot/replace_if_older_than/{}", pay), ctx.sub, ctx.case, format!("slot afterwards {:?}, expected {:?}; {}", slot, want, det()));
                }
            }
        }
    }
    // ---- OptionDatumExt: slot in {None, Some(d1)} x candidate in {d2 | Some(d2) | None}
    for slot0 in [None, Some(d1)] {
        for form in 0..3 {
            let (name, cand): (&'static str, Option<Datum<P>>) = match form {
                0 => ("replace_if_none_or_older_than", Some(d2)),
                1 => ("replace_if_none_or_older_than_option", Some(d2)),
                _ => ("replace_if_none_or_older_than_option", None),
            };
            ctx.rep.distinct((name, slot0.is_some(), cand.is_some(), key));
            ctx.rep.eval();
            let should = match (slot0, cand) {
                (_, None) => false,
                (None, Some(_)) => true,
                (Some(s), Some(c)) => c.time.0 > s.time.0,
            };
            ctx.rep.tally(if should { "replace_expected" } else { "keep_expected" });
            if slot0.is_none() && cand.is_some() {
                ctx.rep.tally("replace_into_empty_slot");
            }
            if cand.is_none() {
                ctx.rep.tally("replace_with_none_candidate");
            }
            let got = catch(|| {
                let mut slot = slot0;
                let r = if form == 0 { slot.replace_if_none_or_older_than(d2) } else { slot.replace_if_none_or_older_than_option(cand) };
                (r, slot)
            });
            match got {
                Err(m) => ctx.rep.violation(&format!("C03/unexpected-panic/{}/{}", name, pay), ctx.sub, ctx.case, format!("{}; slot {:?} cand {:?}", m, slot0, cand)),
                Ok((r, slot)) => {
                    if r != should {
                        ctx.rep.violation(&format!("C03/replace/return/{}/{}", name, pay), ctx.sub, ctx.case, format!("returned {} expected {}; slot before {:?}, candidate {:?}", r, should, slot0, cand));
                    }
                    let want = if should { cand } else { slot0 };
                    let ok = match (&slot, &want) {
                        (None, None) => true,
                        (Some(x), Some(y)) => dident(x, y),
                        _ => false,
                    };
                    if !ok {
                        ctx.rep.violation(&format!("C03/replace/slot/{}/{}", name, pay), ctx.sub, ctx.case, format!("slot afterwards {:?}, expected {:?}; slot before {:?}, candidate {:?}", slot, want, slot0, cand));
                    }
                }
            }
        }
    }
}
fn helpers_all(ctx: &mut Ctx, tl: i64, tr: i64, salt: u32) {
    helpers::<f32>(ctx, tl, tr, salt);
    helpers::<Quantity>(ctx, tl, tr, salt);
    helpers::<State>(ctx, tl, tr, salt);
    helpers::<Command>(ctx, tl, tr, salt);
    helpers::<bool>(ctx, tl, tr, salt);
}

// ------------------------------------------------------------------------------------------------
// 3. streams
// ------------------------------------------------------------------------------------------------
macro_rules! nary_arm {
    ($ctor:ident, $P:ty, $n:literal, $evs:expr) => {{
        let srcs: [Src<$P>; $n] = core::array::from_fn(|i| {
            let s = Src::new();
            s.ev(&$evs[i]);
            s
        });
        let arr: [Reference<dyn Getter<$P, E>>; $n] = core::array::from_fn(|i| srcs[i].dynref());
        let st = $ctor::<$P, $n, E>::new(arr);
        catch(|| st.get())
    }};
}
fn latest_get<P: Pay>(evs: &[Ev<P>]) -> Result<Output<P, E>, String> {
    match evs.len() {
        1 => nary_arm!(Latest, P, 1, evs),
        2 => nary_arm!(Latest, P, 2, evs),
        3 => nary_arm!(Latest, P, 3, evs),
        4 => nary_arm!(Latest, P, 4, evs),
        5 => nary_arm!(Latest, P, 5, evs),
        _ => unreachable!(),
    }
}
fn sum_get<P: Pay + AddAssign>(evs: &[Ev<P>]) -> Result<Output<P, E>, String> {
    match evs.len() {
        1 => nary_arm!(SumStream, P, 1, evs),
        2 => nary_arm!(SumStream, P, 2, evs),
        3 => nary_arm!(SumStream, P, 3, evs),
        4 => nary_arm!(SumStream, P, 4, evs),
        _ => unreachable!(),
    }
}
fn prod_get<P: Pay + MulAssign>(evs: &[Ev<P>]) -> Result<Output<P, E>, String> {
    match evs.len() {
        1 => nary_arm!(ProductStream, P, 1, evs),
        2 => nary_arm!(ProductStream, P, 2, evs),
        3 => nary_arm!(ProductStream, P, 3, evs),
        4 => nary_arm!(ProductStream, P, 4, evs),
        _ => unreachable!(),
    }
}
/// Input events of a rank pattern: digit 0 = absent, digit k>0 = present with stamp `stamps[k-1]`.
fn pattern_events<P: Pay>(n: usize, pat: u64, stamps: &[i64], salt: u32) -> Vec<Ev<P>> {
    pattern_events_v(n, pat, stamps, salt, false)
}
/// `special`: payload values from the SPECIAL pool (repeats allowed) instead of the distinct family.
fn pattern_events_v<P: Pay>(n: usize, mut pat: u64, stamps: &[i64], salt: u32, special: bool) -> Vec<Ev<P>> {
    let mut evs = Vec::with_capacity(n);
    for i in 0..n {
        let d = (pat % (n as u64 + 1)) as usize;
        pat /= n as u64 + 1;
        let v = if special { P::from_val(salt, SPECIAL[((salt >> (5 + 3 * i)) % 6) as usize]) } else { P::make(salt, i) };
        evs.push(if d == 0 { Ev::None } else { Ev::Some(stamps[d - 1], v) });
    }
    evs
}
fn present_stamps<P>(evs: &[Ev<P>]) -> Vec<i64> {
    evs.iter().filter_map(|e| if let Ev::Some(t, _) = e { Some(*t) } else { None }).collect()
}
fn candidates<P: Pay>(evs: &[Ev<P>]) -> Vec<Datum<P>> {
    evs.iter().filter_map(|e| if let Ev::Some(t, v) = e { Some(Datum::new(Time(*t), *v)) } else { None }).collect()
}
/// weak-order signature of the events (presence + dense ranks), for distinct keys
fn shape<P>(evs: &[Ev<P>]) -> Vec<i8> {
    let mut ts = present_stamps(evs);
    ts.sort();
    ts.dedup();
    evs.iter()
        .map(|e| match e {
            Ev::Some(t, _) => ts.iter().position(|x| x == t).unwrap() as i8,
            Ev::None => -1,
            Ev::Err(_) => -2,
        })
        .collect()
}
fn check_latest<P: Pay>(ctx: &mut Ctx, evs: &[Ev<P>]) {
    let has_err = evs.iter().any(|e| matches!(e, Ev::Err(_)));
    let cands = candidates(evs);
    ctx.rep.distinct(("Latest", P::NAME, shape(evs)));
    ctx.rep.tally("latest_stream_cases");
    let got = latest_get(evs);
    ctx.selection("Latest", &cands, has_err, got, &|| format!("inputs {:?}", evs));
}
fn check_sum<P: Pay + AddAssign>(ctx: &mut Ctx, evs: &[Ev<P>]) {
    ctx.rep.distinct(("SumStream", P::NAME, shape(evs)));
    ctx.combined("SumStream", P::NAME, &present_stamps(evs), times(sum_get(evs)), &|| format!("inputs {:?}", evs));
}
fn check_prod<P: Pay + MulAssign>(ctx: &mut Ctx, evs: &[Ev<P>]) {
    ctx.rep.distinct(("ProductStream", P::NAME, shape(evs)));
    ctx.combined("ProductStream", P::NAME, &present_stamps(evs), times(prod_get(evs)), &|| format!("inputs {:?}", evs));
}
/// Build a two-input stream over two scripted cells, read it once, check the combined-time rule.
fn two_in<P: Pay, S: Getter<P, E>>(ctx: &mut Ctx, site: &'static str, e1: &Ev<P>, e2: &Ev<P>, build: impl FnOnce(Reference<Cell<P>>, Reference<Cell<P>>) -> S) {
    let (s1, s2) = (Src::<P>::new(), Src::<P>::new());
    s1.ev(e1);
    s2.ev(e2);
    let st = build(s1.typed(), s2.typed());
    let got = catch(|| st.get());
    let evs = [*e1, *e2];
    ctx.rep.distinct((site, P::NAME, shape(&evs), stratum_of(e1), stratum_of(e2)));
    ctx.rep.distinct((site, P::NAME, shape(&evs), ctx.vkey));
    ctx.combined(site, P::NAME, &present_stamps(&evs), times(got), &|| format!("inputs {:?}", evs));
}
fn stratum_of<P>(e: &Ev<P>) -> &'static str {
    match e {
        Ev::Some(t, _) => stratum(*t),
        _ => "-",
    }
}
fn ev2<P: Pay>(pres: u64, tl: i64, tr: i64, salt: u32, v: Vals) -> (Ev<P>, Ev<P>) {
    (
        if pres & 1 != 0 { Ev::Some(tl, P::from_val(salt, v.a)) } else { Ev::None },
        if pres & 2 != 0 { Ev::Some(tr, P::from_val(salt, v.b)) } else { Ev::None },
    )
}
/// Every two-input arithmetic / logic stream on one (presence, stamp pair).
fn two_input_streams(ctx: &mut Ctx, pres: u64, tl: i64, tr: i64, salt: u32, v: Vals) {
    ctx.vkey = v.key();
    macro_rules! addsub {
        ($P:ty) => {{
            let (a, b) = ev2::<$P>(pres, tl, tr, salt, v);
            two_in::<$P, _>(ctx, "Sum2", &a, &b, |x, y| Sum2::new(x, y));
            two_in::<$P, _>(ctx, "DifferenceStream", &a, &b, |x, y| DifferenceStream::new(x, y));
        }};
    }
    macro_rules! muldiv {
        ($P:ty) => {{
            let (a, b) = ev2::<$P>(pres, tl, tr, salt, v);
            two_in::<$P, _>(ctx, "Product2", &a, &b, |x, y| Product2::new(x, y));
            two_in::<$P, _>(ctx, "QuotientStream", &a, &b, |x, y| QuotientStream::new(x, y));
        }};
    }
    addsub!(f32);
    addsub!(Quantity);
    addsub!(State);
    addsub!(Command);
    muldiv!(f32);
    muldiv!(Quantity);
    {
        let (a, b) = ev2::<f32>(pres, tl, tr, salt, v);
        two_in::<f32, _>(ctx, "ExponentStream", &a, &b, |x, y| ExponentStream::new(x, y));
    }
    // logic: all four value combinations
    for vals in 0..4u32 {
        let a = if pres & 1 != 0 { Ev::Some(tl, vals & 1 != 0) } else { Ev::None };
        let b = if pres & 2 != 0 { Ev::Some(tr, vals & 2 != 0) } else { Ev::None };
        two_in::<bool, _>(ctx, "AndStream", &a, &b, |x, y| AndStream::new(x, y));
        two_in::<bool, _>(ctx, "OrStream", &a, &b, |x, y| OrStream::new(x, y));
    }
    // NotStream: one input, stamp unchanged
    {
        let a: Ev<bool> = if pres & 1 != 0 { Ev::Some(tl, salt & 4 != 0) } else { Ev::None };
        let s = Src::<bool>::new();
        s.ev(&a);
        let st = NotStream::<_, E>::new(s.typed());
        let got = catch(|| st.get());
        ctx.rep.distinct(("NotStream", stratum_of(&a)));
        ctx.combined("NotStream", "bool", &present_stamps(&[a]), times(got), &|| format!("input {:?}", a));
    }
    ctx.vkey = ("", "", "");
}

// ------------------------------------------------------------------------------------------------
// 4. terminals and devices
// ------------------------------------------------------------------------------------------------
type Term<'a> = RefCell<Terminal<'a, E>>;
type Snap = (Option<Datum<State>>, Option<Datum<Command>>);
fn set_state(t: &Term<'_>, d: Datum<State>) {
    let _ = <Terminal<E> as Settable<Datum<State>, E>>::set(&mut t.borrow_mut(), d);
}
fn set_command(t: &Term<'_>, d: Datum<Command>) {
    let _ = <Terminal<E> as Settable<Datum<Command>, E>>::set(&mut t.borrow_mut(), d);
}
fn own_state(t: &Term<'_>) -> Option<Datum<State>> {
    <Terminal<E> as Settable<Datum<State>, E>>::get_last_request(&t.borrow())
}
fn own_command(t: &Term<'_>) -> Option<Datum<Command>> {
    <Terminal<E> as Settable<Datum<Command>, E>>::get_last_request(&t.borrow())
}
/// What the harness puts on one terminal (own slots) and on the external terminal facing it.
#[derive(Clone, Copy, Debug)]
struct TS {
    conn: bool,
    own_s: Option<Datum<State>>,
    par_s: Option<Datum<State>>,
    own_c: Option<Datum<Command>>,
    par_c: Option<Datum<Command>>,
}
impl TS {
    fn state_parts(&self) -> Vec<Datum<State>> {
        let mut v: Vec<Datum<State>> = self.own_s.into_iter().collect();
        if self.conn {
            v.extend(self.par_s);
        }
        v
    }
    fn command_parts(&self) -> Vec<Datum<Command>> {
        let mut v: Vec<Datum<Command>> = self.own_c.into_iter().collect();
        if self.conn {
            v.extend(self.par_c);
        }
        v
    }
}
fn load<'a>(terms: &[&'a Term<'a>], ext: &'a [Term<'a>], spec: &[TS]) {
    for (k, s) in spec.iter().enumerate() {
        if s.conn {
            connect(terms[k], &ext[k]);
        }
        if let Some(d) = s.own_s {
            set_state(terms[k], d);
        }
        if let Some(d) = s.par_s {
            set_state(&ext[k], d);
        }
        if let Some(d) = s.own_c {
            set_command(terms[k], d);
        }
        if let Some(d) = s.par_c {
            set_command(&ext[k], d);
        }
    }
}
fn snap(terms: &[&Term<'_>]) -> Vec<Snap> {
    terms.iter().map(|t| (own_state(t), own_command(t))).collect()
}
/// One terminal (optionally connected to a partner): state averaging, command read, TerminalData.
fn terminal_case(ctx: &mut Ctx, s: &TS) {
    let partner = Terminal::<E>::new();
    let own = Terminal::<E>::new();
    {
        let terms = [&own];
        load(&terms, core::slice::from_ref(&partner), core::slice::from_ref(s));
    }
    let sparts = s.state_parts();
    let cparts = s.command_parts();
    let key = (
        s.conn,
        s.own_s.is_some(),
        s.par_s.is_some(),
        s.own_c.is_some(),
        s.par_c.is_some(),
        match (s.own_s, s.par_s) {
            (Some(a), Some(b)) => rel(a.time.0, b.time.0),
            _ => "-",
        },
        match (s.own_c, s.par_c) {
            (Some(a), Some(b)) => rel(a.time.0, b.time.0),
            _ => "-",
        },
    );
    ctx.rep.distinct(("terminal", key));
    let det = || format!("{:?}", s);
    // ---- state: average of the present parts, stamped with the newest of them
    let stamps: Vec<i64> = sparts.iter().map(|d| d.time.0).collect();
    let got = catch(|| <Terminal<E> as Getter<State, E>>::get(&own.borrow()));
    ctx.rep.tally(match sparts.len() {
        0 => "terminal_state_no_part",
        1 => "terminal_state_one_part",
        _ => "terminal_state_averaged",
    });
    ctx.combined("Terminal::get<State>", "State", &stamps, times(got), &det);
    // ---- command: selection of the newest
    let got = catch(|| <Terminal<E> as Getter<Command, E>>::get(&own.borrow()));
    ctx.rep.tally(match cparts.len() {
        0 => "terminal_command_no_part",
        1 => "terminal_command_one_part",
        _ => "terminal_command_two_parts",
    });
    ctx.selection("Terminal::get<Command>", &cparts, false, got, &det);
    // ---- TerminalData: not named by the statement; demand only that its time is one of the part
    // stamps (and that the Datum and the payload agree); tally how often it is not the newest part.
    let got = catch(|| <Terminal<E> as Getter<TerminalData, E>>::get(&own.borrow()));
    ctx.rep.eval();
    match got {
        Err(m) => ctx.rep.violation("C03/unexpected-panic/Terminal::get<TerminalData>", ctx.sub, ctx.case, format!("{}; {}", m, det())),
        Ok(Err(e)) => ctx.rep.violation("C03/spurious-error/Terminal::get<TerminalData>", ctx.sub, ctx.case, format!("{:?}; {}", e, det())),
        Ok(Ok(None)) => ctx.rep.tally("terminal_data_none"),
        Ok(Ok(Some(d))) => {
            ctx.rep.tally("terminal_data_some");
            let all: Vec<i64> = stamps.iter().cloned().chain(cparts.iter().map(|c| c.time.0)).collect();
            if d.time != d.value.time || !all.contains(&d.time.0) {
                ctx.rep.violation("C03/terminal-data-time", ctx.sub, ctx.case, format!("TerminalData datum time {:?} / inner time {:?} is not one of the part stamps {:?}; {}", d.time, d.value.time, all, det()));
            }
            if let Some(&m) = all.iter().max() {
                if d.time.0 < m {
                    ctx.rep.tally("terminal_data_time_older_than_newest_part(not_judged)");
                }
            }
        }
    }
}
// ---- terminals under changing topology ---------------------------------------------------------
/// One step of a topology history on a pool of terminals.
#[derive(Clone, Copy, Debug)]
enum TOp {
    Connect(usize, usize),
    Disconnect(usize),
    SetS(usize, Datum<State>),
    SetC(usize, Datum<Command>),
}
/// Set-of-pairs model of the documented wiring: `connect(x, y)` first severs the previous links of x
/// and of y ("will automatically disconnect the specified terminals if they are connected"), then
/// links x--y; `disconnect(x)` severs x's link on both ends.
struct Topo {
    partner: Vec<Option<usize>>,
    /// what the harness last wrote to each terminal (nothing else writes to pool terminals)
    slots: Vec<Snap>,
    /// terminal lost its partner because the *partner* was connected elsewhere (and has not been
    /// connected again since)
    rewired_away: Vec<bool>,
    /// every terminal this one was ever linked to and no longer is
    former: Vec<Vec<usize>>,
}
impl Topo {
    fn new(n: usize) -> Topo {
        Topo { partner: vec![None; n], slots: vec![(None, None); n], rewired_away: vec![false; n], former: vec![Vec::new(); n] }
    }
    fn sever(&mut self, x: usize) -> Option<usize> {
        let p = self.partner[x]?;
        self.partner[x] = None;
        self.partner[p] = None;
        self.former[x].push(p);
        self.former[p].push(x);
        Some(p)
    }
    fn apply(&mut self, op: &TOp) {
        match *op {
            TOp::Connect(x, y) => {
                for z in [x, y] {
                    if let Some(p) = self.sever(z) {
                        if p != x && p != y {
                            self.rewired_away[p] = true;
                        }
                    }
                }
                self.partner[x] = Some(y);
                self.partner[y] = Some(x);
                self.rewired_away[x] = false;
                self.rewired_away[y] = false;
                self.former[x].retain(|q| *q != y);
                self.former[y].retain(|q| *q != x);
            }
            TOp::Disconnect(x) => {
                self.sever(x);
            }
            TOp::SetS(x, d) => self.slots[x].0 = Some(d),
            TOp::SetC(x, d) => self.slots[x].1 = Some(d),
        }
    }
}
fn topo_do<'a>(pool: &'a [Term<'a>], op: &TOp) -> Result<(), String> {
    catch(|| match *op {
        TOp::Connect(x, y) => connect(&pool[x], &pool[y]),
        TOp::Disconnect(x) => pool[x].borrow_mut().disconnect(),
        TOp::SetS(x, d) => set_state(&pool[x], d),
        TOp::SetC(x, d) => set_command(&pool[x], d),
    })
}
/// Read every terminal of the pool and judge each read against the contributors / candidates the
/// wiring model gives it: own slot plus the slot of the terminal it is linked to *now*.
fn topo_read_all(ctx: &mut Ctx, pool: &[Term<'_>], m: &Topo, log: &[TOp]) {
    let n = pool.len();
    for t in 0..n {
        let mut sparts: Vec<Datum<State>> = m.slots[t].0.into_iter().collect();
        let mut cparts: Vec<Datum<Command>> = m.slots[t].1.into_iter().collect();
        if let Some(p) = m.partner[t] {
            sparts.extend(m.slots[p].0);
            cparts.extend(m.slots[p].1);
        }
        let det = || format!("read of pool terminal #{} after the steps {:?}; documented wiring now (partner of each terminal) {:?}; slots written by the harness {:?}", t, log, m.partner, m.slots);
        let unconnected = m.partner[t].is_none();
        // coverage strata
        if unconnected && !m.former[t].is_empty() {
            ctx.rep.tally("topology_reads_of_unlinked_terminal_with_former_partner");
            if m.rewired_away[t] {
                ctx.rep.tally("topology_reads_of_terminal_whose_partner_was_rewired_away");
            }
            let own_s = m.slots[t].0.map(|d| d.time.0);
            let own_c = m.slots[t].1.map(|d| d.time.0);
            let newer_s = m.former[t].iter().any(|&q| matches!(m.slots[q].0, Some(d) if own_s.map_or(true, |o| d.time.0 > o)));
            let newer_c = m.former[t].iter().any(|&q| matches!(m.slots[q].1, Some(d) if own_c.map_or(true, |o| d.time.0 > o)));
            if newer_s {
                ctx.rep.tally("topology_unlinked_read_while_former_partner_holds_newer_state");
            }
            if newer_c {
                ctx.rep.tally("topology_unlinked_read_while_former_partner_holds_newer_command");
            }
        }
        if let Some(p) = m.partner[t] {
            if !m.former[t].is_empty() || !m.former[p].is_empty() {
                ctx.rep.tally("topology_reads_over_a_link_made_after_rewiring");
            }
        }
        ctx.rep.distinct(("topology", unconnected, m.rewired_away[t], m.former[t].len().min(2), sparts.len(), cparts.len(), m.slots[t].0.is_some(), m.slots[t].1.is_some()));
        // ---- state
        let stamps: Vec<i64> = sparts.iter().map(|d| d.time.0).collect();
        let got = catch(|| <Terminal<E> as Getter<State, E>>::get(&pool[t].borrow()));
        if unconnected {
            // a terminal that is linked to nothing has one contributor at most: its own last request;
            // the read must be exactly that (the mean of one value is the value)
            ctx.rep.eval();
            let ok = match (&got, m.slots[t].0) {
                (Ok(Ok(None)), None) => true,
                (Ok(Ok(Some(d))), Some(o)) => dident(d, &o),
                (Ok(Ok(Some(_))), None) | (Ok(Ok(None)), Some(_)) => false,
                _ => true, // panic / Err are reported by `combined` below
            };
            if !ok {
                ctx.rep.violation("C03/terminal-unlinked-read/state", ctx.sub, ctx.case, format!("state read {:?} of a terminal that is linked to nothing differs from its own last request {:?}; {}", got, m.slots[t].0, det()));
            }
        }
        ctx.combined("Terminal::get<State>", "State", &stamps, times(got), &det);
        // ---- command
        let got = catch(|| <Terminal<E> as Getter<Command, E>>::get(&pool[t].borrow()));
        ctx.selection("Terminal::get<Command>", &cparts, false, got, &det);
        // ---- TerminalData (not named by the statement): its time must be one of the part stamps
        let got = catch(|| <Terminal<E> as Getter<TerminalData, E>>::get(&pool[t].borrow()));
        ctx.rep.eval();
        match got {
            Err(mm) => ctx.rep.violation("C03/unexpected-panic/Terminal::get<TerminalData>", ctx.sub, ctx.case, format!("{}; {}", mm, det())),
            Ok(Err(e)) => ctx.rep.violation("C03/spurious-error/Terminal::get<TerminalData>", ctx.sub, ctx.case, format!("{:?}; {}", e, det())),
            Ok(Ok(None)) => {}
            Ok(Ok(Some(d))) => {
                let all: Vec<i64> = stamps.iter().cloned().chain(cparts.iter().map(|c| c.time.0)).collect();
                if d.time != d.value.time || !all.contains(&d.time.0) {
                    ctx.rep.violation("C03/terminal-data-time", ctx.sub, ctx.case, format!("TerminalData datum time {:?} / inner time {:?} is not one of the part stamps {:?}; {}", d.time, d.value.time, all, det()));
                }
            }
        }
    }
}
/// Run a topology history: `steps(i, model)` yields the i-th step (None = end); every terminal is
/// read and judged after every step.
fn topo_history(ctx: &mut Ctx, n: usize, steps: &mut dyn FnMut(usize, &Topo) -> Option<TOp>) {
    let pool: [Term<'_>; 5] = core::array::from_fn(|_| Terminal::new());
    let pool = &pool[..n];
    let mut m = Topo::new(n);
    let mut log: Vec<TOp> = Vec::new();
    let mut i = 0;
    while let Some(op) = steps(i, &m) {
        i += 1;
        log.push(op);
        let v0 = ctx.rep.violation_count;
        if let Err(msg) = topo_do(pool, &op) {
            ctx.rep.eval();
            ctx.rep.violation("C03/unexpected-panic/terminal-topology", ctx.sub, ctx.case, format!("step {:?} panicked: {}; steps so far {:?}", op, msg, log));
            return;
        }
        m.apply(&op);
        ctx.rep.tally(match op {
            TOp::Connect(x, y) => {
                if m.former[x].is_empty() && m.former[y].is_empty() {
                    "topology_connect_fresh"
                } else {
                    "topology_connect_involving_previously_linked_terminal"
                }
            }
            TOp::Disconnect(_) => "topology_disconnect",
            _ => "topology_write",
        });
        topo_read_all(ctx, pool, &m, &log);
        if ctx.rep.violation_count != v0 {
            return; // one defect, one history
        }
    }
}

const KINDS: [&str; 12] = [
    "Invert",
    "GearTrain",
    "Axle<1>",
    "Axle<2>",
    "Axle<3>",
    "Axle<4>",
    "Axle<5>",
    "Axle<6>",
    "Differential/Side1",
    "Differential/Side2",
    "Differential/Sum",
    "Differential/Equal",
];
fn kind_terms(kind: usize) -> usize {
    match kind {
        0 | 1 => 2,
        2..=7 => kind - 1,
        _ => 3,
    }
}
/// One write the harness performs on a terminal slot before an update.
#[derive(Clone, Copy, Debug)]
enum Op {
    S { k: usize, ext: bool, d: Datum<State> },
    C { k: usize, ext: bool, d: Datum<Command> },
}
fn wire<'a>(terms: &[&'a Term<'a>], ext: &'a [Term<'a>], conn: &[bool]) {
    for k in 0..terms.len() {
        if conn[k] {
            connect(terms[k], &ext[k]);
        }
    }
}
fn apply<'a>(terms: &[&'a Term<'a>], ext: &'a [Term<'a>], extm: &mut [Snap], ops: &[Op]) {
    for op in ops {
        match *op {
            Op::S { k, ext: false, d } => set_state(terms[k], d),
            Op::S { k, ext: true, d } => {
                set_state(&ext[k], d);
                extm[k].0 = Some(d);
            }
            Op::C { k, ext: false, d } => set_command(terms[k], d),
            Op::C { k, ext: true, d } => {
                set_command(&ext[k], d);
                extm[k].1 = Some(d);
            }
        }
    }
}
/// What `Getter<State>` of each own terminal returns (observation only; used for coverage tallies).
fn reads_of(terms: &[&Term<'_>]) -> Vec<Option<Datum<State>>> {
    terms.iter().map(|t| catch(|| <Terminal<E> as Getter<State, E>>::get(&t.borrow())).ok().and_then(|r| r.ok()).flatten()).collect()
}
/// Everything observed around one `update()` of a device.
struct RoundObs<'x> {
    round: usize,
    ops: &'x [Op],
    /// own slots just before the update (after the harness' writes of this round)
    before: &'x [Snap],
    /// last data written to the external terminal facing each own terminal
    ext: &'x [Snap],
    reads: &'x [Option<Datum<State>>],
    res: &'x Result<NothingOrError<E>, String>,
    after: &'x [Snap],
}
/// Build the device and six external terminals in one scope, connect per `conn`, then for each
/// round: ask `driver` for the writes (it sees the current own and external slots), apply them,
/// `update()` once, hand the observation to `observer` (false = stop the history).
fn run_history(
    kind: usize,
    conn: &[bool],
    ratio: f32,
    rounds: usize,
    driver: &mut dyn FnMut(usize, &[Snap], &[Snap]) -> Vec<Op>,
    observer: &mut dyn FnMut(&RoundObs) -> bool,
) {
    macro_rules! go {
        ($ext:ident, $dev:ident, $terms:expr) => {{
            let terms: Vec<&Term<'_>> = $terms;
            wire(&terms, &$ext, conn);
            let mut extm: Vec<Snap> = vec![(None, None); terms.len()];
            for round in 0..rounds {
                let own0 = snap(&terms);
                let ops = driver(round, &own0, &extm);
                apply(&terms, &$ext, &mut extm, &ops);
                let before = snap(&terms);
                let reads = reads_of(&terms);
                let res = catch(|| $dev.update());
                let after = snap(&terms);
                if !observer(&RoundObs { round, ops: &ops, before: &before, ext: &extm, reads: &reads, res: &res, after: &after }) {
                    break;
                }
            }
        }};
    }
    macro_rules! axle {
        ($n:literal) => {{
            let ext: [Term<'_>; 6] = core::array::from_fn(|_| Terminal::new());
            let mut dev = Axle::<$n, E>::new();
            go!(ext, dev, (0..$n).map(|i| dev.get_terminal(i)).collect())
        }};
    }
    match kind {
        0 => {
            let ext: [Term<'_>; 6] = core::array::from_fn(|_| Terminal::new());
            let mut dev = Invert::<E>::new();
            go!(ext, dev, vec![dev.get_terminal_1(), dev.get_terminal_2()])
        }
        1 => {
            let ext: [Term<'_>; 6] = core::array::from_fn(|_| Terminal::new());
            let mut dev = GearTrain::<E>::with_ratio_raw(ratio);
            go!(ext, dev, vec![dev.get_terminal_1(), dev.get_terminal_2()])
        }
        2 => axle!(1),
        3 => axle!(2),
        4 => axle!(3),
        5 => axle!(4),
        6 => axle!(5),
        7 => axle!(6),
        _ => {
            let ext: [Term<'_>; 6] = core::array::from_fn(|_| Terminal::new());
            let mut dev = Differential::<E>::with_distrust(match kind {
                8 => DifferentialDistrust::Side1,
                9 => DifferentialDistrust::Side2,
                10 => DifferentialDistrust::Sum,
                _ => DifferentialDistrust::Equal,
            });
            go!(ext, dev, vec![dev.get_side_1(), dev.get_side_2(), dev.get_sum()])
        }
    }
}
fn all_max(r: &[Option<i64>]) -> Option<i64> {
    if r.iter().all(|x| x.is_some()) {
        r.iter().map(|x| x.unwrap()).max()
    } else {
        None
    }
}
/// Per own terminal: Some(t) = the device writes a state there and it must be stamped t.
/// Written from the statement + the devices' documentation: the stamp is the newest of the state
/// reads that enter the written value; for one-sided propagation the source terminal's read.
fn expected_state(kind: usize, r: &[Option<i64>]) -> Vec<Option<i64>> {
    match kind {
        0 | 1 => match (r[0], r[1]) {
            (Some(a), Some(b)) => vec![Some(a.max(b)); 2],
            (Some(a), None) => vec![None, Some(a)],
            (None, Some(b)) => vec![Some(b), None],
            (None, None) => vec![None, None],
        },
        2..=7 => {
            let m = r.iter().flatten().cloned().max();
            vec![m; r.len()]
        }
        // terminals [side1, side2, sum]; the distrusted branch is computed from the other two
        8 => vec![all_max(&[r[1], r[2]]), None, None],
        9 => vec![None, all_max(&[r[0], r[2]]), None],
        10 => vec![None, None, all_max(&[r[0], r[1]])],
        _ => vec![all_max(r); 3],
    }
}
/// Do the state reads already satisfy the device's constraint *exactly* (nothing to reconcile)?
fn reads_consistent(kind: usize, ratio: f32, reads: &[Option<Datum<State>>]) -> bool {
    let v: Vec<Option<State>> = reads.iter().map(|r| r.map(|d| d.value)).collect();
    match kind {
        0 => matches!((v[0], v[1]), (Some(a), Some(b)) if a == -b),
        1 => matches!((v[0], v[1]), (Some(a), Some(b)) if b == a * ratio),
        2..=7 => v.len() >= 2 && v.iter().all(|x| x.is_some() && *x == v[0]),
        _ => matches!((v[0], v[1], v[2]), (Some(a), Some(b), Some(c)) if a + b == c),
    }
}
const EXTREME: [i64; 4] = [i64::MIN, i64::MIN + 1, i64::MAX - 1, i64::MAX];
/// Check one observed update of a device against "newest contributing read stamp". Returns false if
/// something was flagged (the history is then abandoned so one defect is not counted many times).
fn check_round(ctx: &mut Ctx, kind: usize, conn: &[bool], ratio: f32, template: &'static str, o: &RoundObs) -> bool {
    let name = KINDS[kind];
    let n = conn.len();
    let v0 = ctx.rep.violation_count;
    let stamp_s = |k: usize| -> Option<i64> {
        let mut v: Vec<i64> = o.before[k].0.iter().map(|d| d.time.0).collect();
        if conn[k] {
            v.extend(o.ext[k].0.iter().map(|d| d.time.0));
        }
        v.into_iter().max()
    };
    let stamp_c = |k: usize| -> Option<i64> {
        let mut v: Vec<i64> = o.before[k].1.iter().map(|d| d.time.0).collect();
        if conn[k] {
            v.extend(o.ext[k].1.iter().map(|d| d.time.0));
        }
        v.into_iter().max()
    };
    // state / command read stamps per the statement: newest of the present own / partner parts
    let rs: Vec<Option<i64>> = (0..n).map(stamp_s).collect();
    let rc: Vec<Option<i64>> = (0..n).map(stamp_c).collect();
    let det = || format!("{} ratio {} connected {:?} template {} round {}: writes of this round {:?}; own slots before update {:?}; external slots {:?}; update -> {:?}; own slots after {:?}", name, ratio, conn, template, o.round, o.ops, o.before, o.ext, o.res, o.after);
    let newest = rs.iter().flatten().cloned().max();
    let arg: Vec<usize> = (0..n).filter(|&k| rs[k].is_some() && rs[k] == newest).collect();
    ctx.rep.distinct(("device", kind, template, o.round.min(3), rs.iter().map(|x| x.is_some()).collect::<Vec<_>>(), arg, rc.iter().map(|x| x.is_some()).collect::<Vec<_>>(), newest.map(stratum)));
    ctx.rep.tally(&format!("device_updates_checked/round{}", o.round.min(3)));
    // coverage: situations the seeded changes of round 2 live in
    let present: Vec<i64> = rs.iter().flatten().cloned().collect();
    if !present.is_empty() && present.iter().all(|t| *t == present[0]) && EXTREME.contains(&present[0]) {
        ctx.rep.tally("device_all_contributors_same_extreme_stamp");
        ctx.rep.tally(&format!("device_all_contributors_same_extreme_stamp/{}", name));
    }
    if present.iter().any(|t| *t != present[0]) && reads_consistent(kind, ratio, o.reads) {
        ctx.rep.tally("device_reads_exactly_consistent_with_different_stamps");
        ctx.rep.tally(&format!("device_reads_exactly_consistent_with_different_stamps/{}", name));
    }
    if let Err(m) = o.res {
        ctx.rep.eval();
        ctx.rep.violation(&format!("C03/unexpected-panic/device/{}", name), ctx.sub, ctx.case, format!("update panicked: {}; {}", m, det()));
        return false;
    }
    // ---- states
    let exp = expected_state(kind, &rs);
    for k in 0..n {
        match exp[k] {
            None => ctx.rep.tally("device_state_terminal_not_written_by_contract"),
            Some(t) => {
                ctx.rep.eval();
                ctx.rep.tally("device_state_writes_checked");
                ctx.rep.tally(&format!("device_state_writes_checked/{}", name));
                if rs.iter().filter(|x| x.is_some()).count() == 1 {
                    ctx.rep.tally("device_state_one_sided_propagation");
                }
                match o.after[k].0 {
                    Some(d) if d.time.0 == t => {}
                    other => ctx.rep.violation(
                        &format!("C03/device-state-time/{}", name),
                        ctx.sub,
                        ctx.case,
                        format!("terminal #{} own state after update is {:?}; expected stamp {} = newest of the state reads that contribute to it; state reads of all terminals {:?}; {}", k, other, t, rs, det()),
                    ),
                }
            }
        }
    }
    // ---- commands: one-degree-of-freedom devices propagate a command. Which terminals receive it
    // is the device's business; what this property demands is that whatever command a device
    // writes during update is the newest of the command reads (a selection), i.e. every own command
    // slot that changed carries the newest command stamp.
    let newest_c = rc.iter().flatten().cloned().max();
    for k in 0..n {
        let changed = match (&o.before[k].1, &o.after[k].1) {
            (None, None) => false,
            (Some(a), Some(b)) => !dident(a, b),
            _ => true,
        };
        if !changed {
            continue;
        }
        ctx.rep.eval();
        ctx.rep.tally("device_command_writes_checked");
        ctx.rep.tally(&format!("device_command_writes_checked/{}", name));
        let ok = match (o.after[k].1, newest_c) {
            (Some(d), Some(m)) => d.time.0 == m,
            _ => false,
        };
        if !ok {
            ctx.rep.violation(&format!("C03/device-command-time/{}", name), ctx.sub, ctx.case, format!("terminal #{} own command changed to {:?} during update; the newest command read has stamp {:?} (command reads {:?}); {}", k, o.after[k].1, newest_c, rc, det()));
        }
    }
    ctx.rep.violation_count == v0
}
fn spec_ops(spec: &[TS]) -> Vec<Op> {
    let mut ops = Vec::new();
    for (k, s) in spec.iter().enumerate() {
        if let Some(d) = s.own_s {
            ops.push(Op::S { k, ext: false, d });
        }
        if let Some(d) = s.par_s {
            ops.push(Op::S { k, ext: true, d });
        }
        if let Some(d) = s.own_c {
            ops.push(Op::C { k, ext: false, d });
        }
        if let Some(d) = s.par_c {
            ops.push(Op::C { k, ext: true, d });
        }
    }
    ops
}
/// One update of a device on a prepared scenario.
fn device_case(ctx: &mut Ctx, kind: usize, spec: &[TS], ratio: f32, template: &'static str) {
    let conn: Vec<bool> = spec.iter().map(|s| s.conn).collect();
    let ops = spec_ops(spec);
    run_history(kind, &conn, ratio, 1, &mut |_, _, _| ops.clone(), &mut |o| check_round(ctx, kind, &conn, ratio, template, o));
}
fn shuffle<T>(rng: &mut Rng, v: &mut [T]) {
    for i in (1..v.len()).rev() {
        let j = rng.usize(i + 1);
        v.swap(i, j);
    }
}
/// `m` stamps for the slots of a scenario. Only comparisons are ever made on them, so the extreme
/// strata are included: distinct (moderate or any magnitude), all equal to one anchor ("every
/// contributor carries the same extreme stamp"), or drawn from a cluster of 2-3 neighbouring
/// extreme values (many ties and adjacencies at the boundary).
fn slot_stamps(rng: &mut Rng, m: usize) -> Vec<i64> {
    match rng.below(10) {
        0..=2 => {
            let mut v = ladder(rng, m, draw_mod);
            shuffle(rng, &mut v);
            v
        }
        3..=5 => {
            let mut v = ladder(rng, m, draw_any);
            shuffle(rng, &mut v);
            if rng.chance(0.3) {
                let (i, j) = (rng.usize(m), rng.usize(m));
                v[i] = v[j];
            }
            v
        }
        6..=7 => vec![*rng.pick(&ANCHORS); m],
        _ => {
            let cluster: &[i64] = match rng.below(4) {
                0 => &[i64::MIN, i64::MIN + 1, i64::MIN + 2],
                1 => &[i64::MAX - 2, i64::MAX - 1, i64::MAX],
                2 => &[-B62 - 1, -B62, -B62 + 1],
                _ => &[B62 - 1, B62, B62 + 1],
            };
            (0..m).map(|_| *rng.pick(cluster)).collect()
        }
    }
}
/// small-integer state (exact arithmetic in the devices)
fn ist(rng: &mut Rng) -> State {
    State::new_raw(rng.range_i64(-8, 8) as f32, rng.range_i64(-8, 8) as f32, rng.range_i64(-8, 8) as f32)
}
/// Random scenario for `n` terminals; presence of the state slots driven by `mask` (2 bits per
/// terminal) so that small devices see every presence combination. Values: distinct family, or
/// small integers with own == partner on some terminals (the terminal average is then exact).
fn scenario(rng: &mut Rng, n: usize, mask: u64) -> Vec<TS> {
    let stamps = slot_stamps(rng, 4 * n);
    let salt = rng.next_u64() as u32;
    let ints = rng.chance(0.4);
    (0..n)
        .map(|k| {
            let own = mask >> (2 * k) & 1 != 0;
            let par = mask >> (2 * k + 1) & 1 != 0;
            let (vo, vp) = if ints {
                let a = ist(rng);
                let b = match rng.below(3) {
                    0 => a,
                    1 => -a,
                    _ => ist(rng),
                };
                (a, b)
            } else {
                (State::make(salt, 2 * k), State::make(salt, 2 * k + 1))
            };
            TS {
                conn: par || rng.chance(0.5),
                own_s: if own { Some(Datum::new(Time(stamps[4 * k]), vo)) } else { None },
                par_s: if par { Some(Datum::new(Time(stamps[4 * k + 1]), vp)) } else { None },
                own_c: if rng.chance(0.5) { Some(Datum::new(Time(stamps[4 * k + 2]), Command::make(salt, 2 * k))) } else { None },
                par_c: if rng.chance(0.5) { Some(Datum::new(Time(stamps[4 * k + 3]), Command::make(salt, 2 * k + 1))) } else { None },
            }
        })
        .collect()
}
/// Generator of multi-round device histories. Round 0 sets up a situation from a template; later
/// rounds re-issue bit-identical values, values copied from the other side of a connection, or the
/// exact constraint image of another terminal's value (negation for Invert, x*ratio / x/ratio for
/// GearTrain, the same value for Axle, side1+side2 / sum-side for Differential), mostly with a stamp
/// newer than everything so far and on one slot only.
struct Hist {
    kind: usize,
    n: usize,
    ratio: f32,
    conn: Vec<bool>,
    /// strictly increasing stamps; `next` = first unused
    lad: Vec<i64>,
    next: usize,
    template: usize,
    pd: PositionDerivative,
}
const TEMPLATES: [&str; 4] = ["single-source", "random-ints", "uniform-stamp", "consistent-start"];
impl Hist {
    fn new(rng: &mut Rng, kind: usize, rounds: usize) -> Hist {
        let n = kind_terms(kind);
        let draw: fn(&mut Rng) -> i64 = if rng.chance(0.5) { draw_any } else { draw_mod };
        let lad = ladder(rng, 4 * n + 2 + rounds * (n + 4), draw);
        Hist {
            kind,
            n,
            ratio: *rng.pick(&[1.0f32, -1.0, 2.0, 0.5]),
            conn: (0..n).map(|_| rng.chance(0.7)).collect(),
            lad,
            next: 0,
            template: rng.usize(4),
            pd: pd_of(rng.next_u64() as u32),
        }
    }
    /// mostly the next unused (newest so far) stamp, sometimes an already used one
    fn stamp(&mut self, rng: &mut Rng) -> Time {
        if self.next > 0 && rng.chance(0.12) {
            return Time(self.lad[rng.usize(self.next)]);
        }
        let t = self.lad[self.next];
        if self.next + 1 < self.lad.len() {
            self.next += 1;
        }
        Time(t)
    }
    fn side(&self, rng: &mut Rng, k: usize) -> bool {
        self.conn[k] && rng.chance(0.6)
    }
    /// exact image on terminal `dst` of the current values `v` under the device's constraint
    fn image(&self, src: usize, dst: usize, v: &[Option<State>]) -> Option<State> {
        match self.kind {
            0 => v[src].map(|x| -x),
            1 => v[src].map(|x| if src == 0 { x * self.ratio } else { x / self.ratio }),
            2..=7 => v[src],
            _ => match dst {
                2 => Some(v[0]? + v[1]?),
                0 => Some(v[2]? - v[1]?),
                _ => Some(v[2]? - v[0]?),
            },
        }
    }
    fn ops(&mut self, rng: &mut Rng, round: usize, own: &[Snap], ext: &[Snap]) -> Vec<Op> {
        let n = self.n;
        let mut ops = Vec::new();
        if round == 0 {
            match self.template {
                0 => {
                    let k = rng.usize(n);
                    let e = self.side(rng, k);
                    ops.push(Op::S { k, ext: e, d: Datum::new(self.stamp(rng), ist(rng)) });
                    if rng.chance(0.5) {
                        let e = self.side(rng, k);
                        ops.push(Op::C { k, ext: e, d: Datum::new(self.stamp(rng), Command::new(self.pd, rng.range_i64(-8, 8) as f32)) });
                    }
                }
                1 => {
                    let mut st: Vec<Time> = (0..4 * n).map(|_| self.stamp(rng)).collect();
                    shuffle(rng, &mut st);
                    for k in 0..n {
                        if rng.chance(0.6) {
                            ops.push(Op::S { k, ext: false, d: Datum::new(st[4 * k], ist(rng)) });
                        }
                        if self.conn[k] && rng.chance(0.6) {
                            ops.push(Op::S { k, ext: true, d: Datum::new(st[4 * k + 1], ist(rng)) });
                        }
                        if rng.chance(0.4) {
                            ops.push(Op::C { k, ext: false, d: Datum::new(st[4 * k + 2], Command::new(self.pd, rng.range_i64(-8, 8) as f32)) });
                        }
                        if self.conn[k] && rng.chance(0.4) {
                            ops.push(Op::C { k, ext: true, d: Datum::new(st[4 * k + 3], Command::new(self.pd, rng.range_i64(-8, 8) as f32)) });
                        }
                    }
                }
                2 => {
                    // every slot present, all with one and the same stamp (often an extreme one)
                    let t = if rng.chance(0.6) { Time(*rng.pick(&EXTREME)) } else { self.stamp(rng) };
                    for k in 0..n {
                        ops.push(Op::S { k, ext: false, d: Datum::new(t, ist(rng)) });
                        if self.conn[k] {
                            ops.push(Op::S { k, ext: true, d: Datum::new(t, ist(rng)) });
                        }
                        ops.push(Op::C { k, ext: false, d: Datum::new(t, Command::new(self.pd, rng.range_i64(-8, 8) as f32)) });
                    }
                }
                _ => {
                    // values that satisfy the constraint exactly, one slot per terminal, different stamps
                    let a = ist(rng);
                    let b = ist(rng);
                    let vals: Vec<State> = match self.kind {
                        0 => vec![a, -a],
                        1 => vec![a, a * self.ratio],
                        2..=7 => vec![a; n],
                        _ => vec![a, b, a + b],
                    };
                    for k in 0..n {
                        let e = self.side(rng, k);
                        ops.push(Op::S { k, ext: e, d: Datum::new(self.stamp(rng), vals[k]) });
                    }
                }
            }
            return ops;
        }
        // current value per terminal: own slot, else the connected external one
        let cur: Vec<Option<State>> = (0..n).map(|k| own[k].0.map(|d| d.value).or(if self.conn[k] { ext[k].0.map(|d| d.value) } else { None })).collect();
        // present state slots (terminal, external?)
        let mut slots: Vec<(usize, bool, State)> = Vec::new();
        for k in 0..n {
            if let Some(d) = own[k].0 {
                slots.push((k, false, d.value));
            }
            if self.conn[k] {
                if let Some(d) = ext[k].0 {
                    slots.push((k, true, d.value));
                }
            }
        }
        let count = if rng.chance(0.7) { 1 } else { 2 };
        for _ in 0..count {
            match rng.below(9) {
                0..=1 if !slots.is_empty() => {
                    // the bit-identical value again on the same slot
                    let (k, e, v) = *rng.pick(&slots);
                    ops.push(Op::S { k, ext: e, d: Datum::new(self.stamp(rng), v) });
                }
                2 => {
                    // the partner reports exactly what the device terminal holds (or vice versa)
                    let ks: Vec<usize> = (0..n).filter(|&k| self.conn[k] && (own[k].0.is_some() || ext[k].0.is_some())).collect();
                    if !ks.is_empty() {
                        let k = *rng.pick(&ks);
                        match (own[k].0, ext[k].0) {
                            (Some(d), _) if rng.chance(0.7) || ext[k].0.is_none() => ops.push(Op::S { k, ext: true, d: Datum::new(self.stamp(rng), d.value) }),
                            (_, Some(d)) => ops.push(Op::S { k, ext: false, d: Datum::new(self.stamp(rng), d.value) }),
                            _ => {}
                        }
                    }
                }
                3 => {
                    // every partner agrees exactly with its device terminal
                    for k in 0..n {
                        if self.conn[k] {
                            if let Some(d) = own[k].0 {
                                ops.push(Op::S { k, ext: true, d: Datum::new(self.stamp(rng), d.value) });
                            }
                        }
                    }
                }
                4..=6 if n >= 2 => {
                    // exact constraint image of another terminal's value
                    let src = rng.usize(n);
                    let dst = (src + 1 + rng.usize(n - 1)) % n;
                    if let Some(v) = self.image(src, dst, &cur) {
                        let e = self.side(rng, dst);
                        ops.push(Op::S { k: dst, ext: e, d: Datum::new(self.stamp(rng), v) });
                        if e && own[dst].0.is_some() && rng.chance(0.5) {
                            // and the same on the own slot so that the read is exactly the image
                            ops.push(Op::S { k: dst, ext: false, d: Datum::new(self.stamp(rng), v) });
                        }
                    }
                }
                7 => {
                    let k = rng.usize(n);
                    let e = self.side(rng, k);
                    ops.push(Op::S { k, ext: e, d: Datum::new(self.stamp(rng), ist(rng)) });
                }
                _ => {
                    // a command: the same one again on a slot that has one, or a fresh one
                    let k = rng.usize(n);
                    let e = self.side(rng, k);
                    let old = if e { ext[k].1 } else { own[k].1 };
                    let v = match old {
                        Some(d) if rng.chance(0.6) => d.value,
                        _ => Command::new(self.pd, rng.range_i64(-8, 8) as f32),
                    };
                    ops.push(Op::C { k, ext: e, d: Datum::new(self.stamp(rng), v) });
                }
            }
        }
        ops
    }
}

fn main() {
    let args = Args::parse();
    let mut rep = Report::new("C03", &args);

    // ---- 1a. Datum operators, binary forms: exhaustive over 15x15 anchor pairs x rhs value
    // {0, -0, 1, -1, 2, 0.5, random} x lhs value {random, == rhs, special} x form x payload
    let reps = args.pick(1, 10);
    let na = ANCHORS.len() as u64;
    for idx in 0..reps * na * na * 21 {
        if !args.mine("datum-binary", idx) {
            continue;
        }
        let (ri, lmode) = ((idx % 7) as usize, (idx / 7 % 3) as usize);
        let (i, j) = ((idx / 21 / na % na) as usize, (idx / 21 % na) as usize);
        let mut rng = Rng::new(args.seed, 301, idx);
        let salt = rng.next_u64() as u32;
        let v = Vals::enumerated(&mut rng, salt, ri, lmode);
        let mut ctx = Ctx { rep: &mut rep, sub: "datum-binary", case: idx, vkey: ("", "", "") };
        datum_ops(&mut ctx, true, false, ANCHORS[i], ANCHORS[j], salt, v);
        if ri == 2 && rep.want_sample("datum-binary") {
            rep.sample("datum-binary", format!("Datum(t={}) op Datum(t={}) for the 32 (Datum-rhs operator form x payload) cells, operand values {:?}", ANCHORS[i], ANCHORS[j], v));
        }
    }
    rep.exhaustive("15x15 ordered anchor-stamp pairs (equal, adjacent +-1, negative, 0, +-2^62, i64::MIN/MAX) x rhs payload value {+0,-0,1,-1,2,0.5,random} x lhs value {random, bit-equal to rhs, special} x every Datum-rhs operator impl of datum.rs x payload {f32,Quantity,State,Command}");
    // ---- 1b. scalar / unary forms: exhaustive over the 15 anchors x the same value classes
    let reps = args.pick(2, 40);
    for idx in 0..reps * na * 21 {
        if !args.mine("datum-scalar", idx) {
            continue;
        }
        let (ri, lmode) = ((idx % 7) as usize, (idx / 7 % 3) as usize);
        let i = (idx / 21 % na) as usize;
        let mut rng = Rng::new(args.seed, 302, idx);
        let salt = rng.next_u64() as u32;
        let v = Vals::enumerated(&mut rng, salt, ri, lmode);
        let mut ctx = Ctx { rep: &mut rep, sub: "datum-scalar", case: idx, vkey: ("", "", "") };
        datum_ops(&mut ctx, false, true, ANCHORS[i], 0, salt, v);
        if rep.want_sample("datum-scalar") {
            rep.sample("datum-scalar", format!("Datum(t={}) op bare scalar / Neg / Not for the 37 (scalar or unary form x payload) cells, operand values {:?}", ANCHORS[i], v));
        }
    }
    rep.exhaustive("15 anchor stamps x scalar value {+0,-0,1,-1,2,0.5,random} x lhs value {random, equal, special} x every scalar-rhs / Neg / Not operator impl of datum.rs x payload {f32,Quantity,State,Command,bool}");
    // ---- 1c. random stamp pairs and random / special operand values, all forms
    for case in args.cases("datum-random", 15_000, 1_000_000) {
        let mut rng = Rng::new(args.seed, 303, case);
        let (tl, tr) = draw_pair(&mut rng);
        let salt = rng.next_u64() as u32;
        let v = Vals::random(&mut rng, salt);
        let mut ctx = Ctx { rep: &mut rep, sub: "datum-random", case, vkey: ("", "", "") };
        datum_ops(&mut ctx, true, true, tl, tr, salt, v);
        if rep.want_sample("datum-random") {
            rep.sample("datum-random", format!("all 69 operator cells on stamps ({}, {}), operand values {:?}", tl, tr, v));
        }
    }

    // ---- 2. latest() + replace helpers: exhaustive anchors pairs x payload x slot/candidate presence
    let reps = args.pick(1, 10);
    for idx in 0..reps * na * na {
        if !args.mine("helpers", idx) {
            continue;
        }
        let (i, j) = ((idx / na % na) as usize, (idx % na) as usize);
        let mut rng = Rng::new(args.seed, 304, idx);
        let salt = rng.next_u64() as u32;
        let mut ctx = Ctx { rep: &mut rep, sub: "helpers", case: idx, vkey: ("", "", "") };
        helpers_all(&mut ctx, ANCHORS[i], ANCHORS[j], salt);
        if rep.want_sample("helpers") {
            rep.sample("helpers", format!("slot stamp {} candidate stamp {}: latest() both argument orders, replace_if_older_than, replace_if_none_or_older_than(_option) on empty/full slot with Some/None candidate, 5 payloads", ANCHORS[i], ANCHORS[j]));
        }
    }
    rep.exhaustive("15x15 anchor pairs x {latest, replace_if_older_than, replace_if_none_or_older_than, .._option} x slot {empty, full} x candidate {Some, None} x 5 payloads");
    for case in args.cases("helpers-random", 30_000, 2_000_000) {
        let mut rng = Rng::new(args.seed, 305, case);
        let (tl, tr) = draw_pair(&mut rng);
        let salt = rng.next_u64() as u32;
        let mut ctx = Ctx { rep: &mut rep, sub: "helpers-random", case, vkey: ("", "", "") };
        helpers_all(&mut ctx, tl, tr, salt);
        if rep.want_sample("helpers-random") {
            rep.sample("helpers-random", format!("slot stamp {} candidate stamp {}", tl, tr));
        }
    }

    // ---- 3a. Latest<_, 1..=5>: exhaustive (presence, weak order) patterns, stamps from a random ladder
    {
        let mut idx = 0u64;
        for rpt in 0..args.pick(1, 12) {
            for n in 1..=5usize {
                for pat in 0..(n as u64 + 1).pow(n as u32) {
                    let case = idx;
                    idx += 1;
                    if !args.mine("latest-patterns", case) {
                        continue;
                    }
                    let mut rng = Rng::new(args.seed, 306, case);
                    let stamps = ladder(&mut rng, n, draw_any);
                    let salt = rng.next_u64() as u32;
                    let mut ctx = Ctx { rep: &mut rep, sub: "latest-patterns", case, vkey: ("", "", "") };
                    match (rpt + pat) % 5 {
                        0 => check_latest::<f32>(&mut ctx, &pattern_events(n, pat, &stamps, salt)),
                        1 => check_latest::<Quantity>(&mut ctx, &pattern_events(n, pat, &stamps, salt)),
                        2 => check_latest::<State>(&mut ctx, &pattern_events(n, pat, &stamps, salt)),
                        3 => check_latest::<Command>(&mut ctx, &pattern_events(n, pat, &stamps, salt)),
                        _ => check_latest::<bool>(&mut ctx, &pattern_events(n, pat, &stamps, salt)),
                    }
                    if pat % 97 == 5 && rep.want_sample("latest-patterns") {
                        rep.sample("latest-patterns", format!("Latest<f32-or-other,{}> inputs {:?}", n, pattern_events::<f32>(n, pat, &stamps, salt)));
                    }
                }
            }
        }
        rep.exhaustive("Latest arity 1..=5: every assignment of {absent, rank 1..n} to the n inputs (sum (n+1)^n = 8476 patterns), payload rotating over the 5 types");
    }
    // ---- 3b. Latest random, with occasional failing inputs
    for case in args.cases("latest-random", 60_000, 4_000_000) {
        let mut rng = Rng::new(args.seed, 307, case);
        let n = 1 + rng.usize(5);
        let stamps = ladder(&mut rng, n, draw_any);
        let salt = rng.next_u64() as u32;
        let with_err = rng.chance(0.1);
        let pat = rng.below((n as u64 + 1).pow(n as u32));
        macro_rules! go {
            ($P:ty) => {{
                let mut evs = pattern_events::<$P>(n, pat, &stamps, salt);
                if with_err {
                    let k = rng.usize(n);
                    evs[k] = Ev::Err(1);
                }
                let mut ctx = Ctx { rep: &mut rep, sub: "latest-random", case, vkey: ("", "", "") };
                check_latest::<$P>(&mut ctx, &evs);
                if rep.want_sample("latest-random") {
                    rep.sample("latest-random", format!("Latest<{},{}> inputs {:?}", <$P>::NAME, n, evs));
                }
            }};
        }
        match rng.below(5) {
            0 => go!(f32),
            1 => go!(Quantity),
            2 => go!(State),
            3 => go!(Command),
            _ => go!(bool),
        }
    }

    // ---- 4a. two-input streams: exhaustive anchors pairs x presence x rhs value class
    let reps = args.pick(1, 6);
    for idx in 0..reps * na * na * 4 * 7 {
        if !args.mine("streams2", idx) {
            continue;
        }
        let pres = idx % 4;
        let ri = (idx / 4 % 7) as usize;
        let (i, j) = ((idx / 28 / na % na) as usize, (idx / 28 % na) as usize);
        let mut rng = Rng::new(args.seed, 308, idx);
        let salt = rng.next_u64() as u32;
        let lmode = rng.usize(3);
        let v = Vals::enumerated(&mut rng, salt, ri, lmode);
        let mut ctx = Ctx { rep: &mut rep, sub: "streams2", case: idx, vkey: ("", "", "") };
        two_input_streams(&mut ctx, pres, ANCHORS[i], ANCHORS[j], salt, v);
        if pres == 3 && rep.want_sample("streams2") {
            rep.sample("streams2", format!("Sum2/Difference x4 payloads, Product2/Quotient x2, Exponent, And/Or x4 value combos, Not on inputs Some(t={}), Some(t={}) with values {:?}", ANCHORS[i], ANCHORS[j], v));
        }
    }
    rep.exhaustive("15x15 anchor pairs x 4 input-presence combinations x second-input value {+0,-0,1,-1,2,0.5,random} x {Sum2, DifferenceStream (f32,Quantity,State,Command), Product2, QuotientStream (f32,Quantity), ExponentStream, AndStream, OrStream (4 value combos), NotStream}");
    for case in args.cases("streams2-random", 15_000, 1_000_000) {
        let mut rng = Rng::new(args.seed, 309, case);
        let (tl, tr) = draw_pair(&mut rng);
        let pres = if rng.chance(0.7) { 3 } else { rng.below(4) };
        let salt = rng.next_u64() as u32;
        let v = Vals::random(&mut rng, salt);
        let mut ctx = Ctx { rep: &mut rep, sub: "streams2-random", case, vkey: ("", "", "") };
        two_input_streams(&mut ctx, pres, tl, tr, salt, v);
        if rep.want_sample("streams2-random") {
            rep.sample("streams2-random", format!("all two-input streams, presence mask {:02b}, stamps ({}, {}), values {:?}", pres, tl, tr, v));
        }
    }
    // ---- 4b. SumStream / ProductStream arity 1..=4: exhaustive patterns
    {
        let mut idx = 0u64;
        for rpt in 0..args.pick(4, 40) {
            let sp = rpt % 2 == 1;
            for n in 1..=4usize {
                for pat in 0..(n as u64 + 1).pow(n as u32) {
                    let case = idx;
                    idx += 1;
                    if !args.mine("nary-patterns", case) {
                        continue;
                    }
                    let mut rng = Rng::new(args.seed, 310, case);
                    let stamps = ladder(&mut rng, n, draw_any);
                    let salt = rng.next_u64() as u32;
                    let mut ctx = Ctx { rep: &mut rep, sub: "nary-patterns", case, vkey: ("", "", "") };
                    check_sum::<f32>(&mut ctx, &pattern_events_v(n, pat, &stamps, salt, sp));
                    check_sum::<Quantity>(&mut ctx, &pattern_events_v(n, pat, &stamps, salt, sp));
                    check_sum::<State>(&mut ctx, &pattern_events_v(n, pat, &stamps, salt, sp));
                    check_sum::<Command>(&mut ctx, &pattern_events_v(n, pat, &stamps, salt, sp));
                    check_prod::<f32>(&mut ctx, &pattern_events_v(n, pat, &stamps, salt, sp));
                    check_prod::<Quantity>(&mut ctx, &pattern_events_v(n, pat, &stamps, salt, sp));
                    if pat % 53 == 7 && rep.want_sample("nary-patterns") {
                        rep.sample("nary-patterns", format!("SumStream x4 payloads / ProductStream x2 payloads, arity {}, inputs {:?}", n, pattern_events::<f32>(n, pat, &stamps, salt)));
                    }
                }
            }
        }
        rep.exhaustive("SumStream (f32,Quantity,State,Command) and ProductStream (f32,Quantity) arity 1..=4: every assignment of {absent, rank 1..n} to the inputs (700 patterns), each with distinct random values and with values from {+0,-0,1,-1,2,0.5}");
    }

    // ---- 5a. terminals: exhaustive presence (16) x connected (2) x anchor pairs (15x15, extremes
    // included: terminal reads only compare stamps), own/partner values in 4 relations
    let reps = args.pick(1, 10);
    for idx in 0..reps * 32 * na * na {
        if !args.mine("terminal", idx) {
            continue;
        }
        let m = idx % 32;
        let (i, j) = ((idx / 32 / na % na) as usize, (idx / 32 % na) as usize);
        let mut rng = Rng::new(args.seed, 311, idx);
        let salt = rng.next_u64() as u32;
        // own / partner payloads: distinct, bit-identical, exact negations, or special values
        let (vo, vp, vmode) = match rng.below(4) {
            0 => (State::make(salt, 0), State::make(salt, 1), "distinct"),
            1 => (State::make(salt, 0), State::make(salt, 0), "identical"),
            2 => (State::make(salt, 0), -State::make(salt, 0), "negated"),
            _ => (State::from_val(salt, *rng.pick(&SPECIAL)), State::from_val(salt, *rng.pick(&SPECIAL)), "special"),
        };
        // states see the stamp pair (i, j), commands the pair (j, i)
        let s = TS {
            conn: m & 16 != 0,
            own_s: if m & 1 != 0 { Some(Datum::new(Time(ANCHORS[i]), vo)) } else { None },
            par_s: if m & 2 != 0 { Some(Datum::new(Time(ANCHORS[j]), vp)) } else { None },
            own_c: if m & 4 != 0 { Some(Datum::new(Time(ANCHORS[j]), Command::make(salt, 2))) } else { None },
            par_c: if m & 8 != 0 { Some(Datum::new(Time(ANCHORS[i]), Command::make(salt, 3))) } else { None },
        };
        let mut ctx = Ctx { rep: &mut rep, sub: "terminal", case: idx, vkey: ("", "", "") };
        ctx.rep.distinct(("terminal-values", m, vmode, stratum(ANCHORS[i]), stratum(ANCHORS[j]), rel(ANCHORS[i], ANCHORS[j])));
        terminal_case(&mut ctx, &s);
        if m == 31 && rep.want_sample("terminal") {
            rep.sample("terminal", format!("{:?}", s));
        }
    }
    rep.exhaustive("terminal: {own,partner} x {state,command} presence (16) x connected/unconnected x 15x15 anchor stamp pairs incl. i64::MIN/MAX and +-2^62");
    for case in args.cases("terminal-random", 40_000, 3_000_000) {
        let mut rng = Rng::new(args.seed, 312, case);
        let mask = rng.below(4);
        let mut s = scenario(&mut rng, 1, mask)[0];
        if rng.chance(0.8) {
            s.conn = true;
        }
        let mut ctx = Ctx { rep: &mut rep, sub: "terminal-random", case, vkey: ("", "", "") };
        terminal_case(&mut ctx, &s);
        if rep.want_sample("terminal-random") {
            rep.sample("terminal-random", format!("{:?}", s));
        }
    }

    // ---- 5a'. terminals under changing topology: the wiring is not set up once. Exhaustive: every
    // sequence of 3 topology operations from {connect(0,1), connect(0,2), connect(1,2), disconnect(0),
    // disconnect(1), disconnect(2)} on three terminals, then a strictly newer state and command is
    // written to each terminal in turn; every terminal is read after every step and judged against
    // the set-of-pairs wiring model (connect severs the previous links of both arguments).
    {
        const TOPS: [TOp; 6] = [TOp::Connect(0, 1), TOp::Connect(0, 2), TOp::Connect(1, 2), TOp::Disconnect(0), TOp::Disconnect(1), TOp::Disconnect(2)];
        let reps = args.pick(2, 40);
        for idx in 0..reps * 216 {
            if !args.mine("terminal-topology", idx) {
                continue;
            }
            let mut rng = Rng::new(args.seed, 316, idx);
            let seq = [TOPS[(idx % 6) as usize], TOPS[(idx / 6 % 6) as usize], TOPS[(idx / 36 % 6) as usize]];
            let lad = ladder(&mut rng, 12, draw_any);
            let salt = rng.next_u64() as u32;
            // initial writes (older stamps, random presence), then the topology ops, then the pokes
            let mut script: Vec<TOp> = Vec::new();
            let mut first: Vec<i64> = lad[..6].to_vec();
            shuffle(&mut rng, &mut first);
            for t in 0..3 {
                if rng.chance(0.7) {
                    script.push(TOp::SetS(t, Datum::new(Time(first[2 * t]), State::make(salt, t))));
                }
                if rng.chance(0.7) {
                    script.push(TOp::SetC(t, Datum::new(Time(first[2 * t + 1]), Command::make(salt, t))));
                }
            }
            script.extend(seq);
            let mut order = [0usize, 1, 2];
            shuffle(&mut rng, &mut order);
            for (q, &t) in order.iter().enumerate() {
                script.push(TOp::SetS(t, Datum::new(Time(lad[6 + 2 * q]), State::make(salt, 3 + t))));
                script.push(TOp::SetC(t, Datum::new(Time(lad[7 + 2 * q]), Command::make(salt, 3 + t))));
            }
            let mut ctx = Ctx { rep: &mut rep, sub: "terminal-topology", case: idx, vkey: ("", "", "") };
            topo_history(&mut ctx, 3, &mut |i, _| script.get(i).copied());
            if idx % 216 == 37 && rep.want_sample("terminal-topology") {
                rep.sample("terminal-topology", format!("{:?}", script));
            }
        }
        rep.exhaustive("terminal topology: all 216 sequences of three operations from {connect(0,1), connect(0,2), connect(1,2), disconnect(0), disconnect(1), disconnect(2)} on three terminals, each followed by strictly newer state+command writes to every terminal, all terminals read after every step");
    }
    // random longer histories on 3..=5 terminals: connect (also of already linked terminals and of the
    // same pair again), disconnect, writes with mostly newer stamps; all terminals read after every step
    for case in args.cases("terminal-topology-random", 3_000, 250_000) {
        let mut rng = Rng::new(args.seed, 317, case);
        let n = 3 + rng.usize(3);
        let steps = 8 + rng.usize(7);
        let lad = ladder(&mut rng, steps + 1, draw_any);
        let salt = rng.next_u64() as u32;
        let mut next = 0usize;
        let mut last_pair: Option<(usize, usize)> = None;
        let mut script: Vec<TOp> = Vec::new();
        let mut ctx = Ctx { rep: &mut rep, sub: "terminal-topology-random", case, vkey: ("", "", "") };
        {
            let script = &mut script;
            let rng = &mut rng;
            topo_history(&mut ctx, n, &mut |i, m| {
                if i >= steps {
                    return None;
                }
                let op = match rng.below(20) {
                    0..=6 => {
                        // connect: a random pair, the same pair again, or deliberately a terminal that is linked
                        let (x, y) = match (rng.below(4), last_pair) {
                            (0, Some(p)) => p,
                            (1, _) => {
                                let linked: Vec<usize> = (0..n).filter(|&t| m.partner[t].is_some()).collect();
                                let x = if linked.is_empty() { rng.usize(n) } else { *rng.pick(&linked) };
                                (x, (x + 1 + rng.usize(n - 1)) % n)
                            }
                            _ => {
                                let x = rng.usize(n);
                                (x, (x + 1 + rng.usize(n - 1)) % n)
                            }
                        };
                        last_pair = Some((x, y));
                        TOp::Connect(x, y)
                    }
                    7..=9 => TOp::Disconnect(rng.usize(n)),
                    k => {
                        let t = rng.usize(n);
                        let stamp = if next > 0 && rng.chance(0.15) { lad[rng.usize(next)] } else { lad[next] };
                        next += 1;
                        if k % 2 == 0 {
                            TOp::SetS(t, Datum::new(Time(stamp), State::make(salt, i % 8)))
                        } else {
                            TOp::SetC(t, Datum::new(Time(stamp), Command::make(salt, i % 8)))
                        }
                    }
                };
                script.push(op);
                Some(op)
            });
        }
        if rep.want_sample("terminal-topology-random") {
            rep.sample("terminal-topology-random", format!("{} terminals: {:?}", n, script));
        }
    }

    // ---- 5b. devices, one update: random scenario (distinct / tied / clustered-extreme stamps on
    // every terminal slot; device updates only compare stamps)
    for case in args.cases("device", 12 * 3_000, 12 * 250_000) {
        let kind = (case % 12) as usize;
        let round = case / 12;
        let n = kind_terms(kind);
        let mut rng = Rng::new(args.seed, 313, case);
        // presence of the 2n state slots: enumerated round-robin for n <= 3, half the time all-present
        let full = (1u64 << (2 * n)) - 1;
        let mask = if n <= 3 {
            if round % 2 == 0 {
                (round / 2) % (full + 1)
            } else if rng.chance(0.6) {
                full
            } else {
                rng.below(full + 1)
            }
        } else if rng.chance(0.5) {
            full
        } else {
            rng.below(full + 1)
        };
        let spec = scenario(&mut rng, n, mask);
        let ratio = if rng.chance(0.3) { *rng.pick(&[1.0f32, -1.0, 2.0, 0.5]) } else { (rng.sign() * rng.log_uniform(0.25, 8.0)) as f32 };
        let mut ctx = Ctx { rep: &mut rep, sub: "device", case, vkey: ("", "", "") };
        device_case(&mut ctx, kind, &spec, ratio, "one-update");
        if round == 5 && rep.want_sample(KINDS[kind]) {
            rep.sample(KINDS[kind], format!("ratio {} scenario {:?}", ratio, spec));
        }
    }
    // ---- 5c. devices, one update, every contributor carries the same stamp: exhaustive over
    // device kind x anchor stamp x {every slot present, own slots only, partner slots only, random}
    {
        let reps = args.pick(2, 40);
        for idx in 0..reps * 12 * na * 4 {
            if !args.mine("device-uniform", idx) {
                continue;
            }
            let kind = (idx % 12) as usize;
            let a = (idx / 12 % na) as usize;
            let pm = idx / 12 / na % 4;
            let n = kind_terms(kind);
            let mut rng = Rng::new(args.seed, 314, idx);
            let t = Time(ANCHORS[a]);
            let spec: Vec<TS> = (0..n)
                .map(|_| {
                    let (o, p) = match pm {
                        0 => (true, true),
                        1 => (true, false),
                        2 => (false, true),
                        _ => (rng.chance(0.6), rng.chance(0.6)),
                    };
                    TS {
                        conn: p || rng.chance(0.5),
                        own_s: if o { Some(Datum::new(t, ist(&mut rng))) } else { None },
                        par_s: if p { Some(Datum::new(t, ist(&mut rng))) } else { None },
                        own_c: if o { Some(Datum::new(t, Command::new(PositionDerivative::Velocity, rng.range_i64(-8, 8) as f32))) } else { None },
                        par_c: if p { Some(Datum::new(t, Command::new(PositionDerivative::Velocity, rng.range_i64(-8, 8) as f32))) } else { None },
                    }
                })
                .collect();
            let ratio = *rng.pick(&[1.0f32, -1.0, 2.0, 0.5, 3.0]);
            let mut ctx = Ctx { rep: &mut rep, sub: "device-uniform", case: idx, vkey: ("", "", "") };
            device_case(&mut ctx, kind, &spec, ratio, "uniform-stamp");
            if a == 0 && rep.want_sample("device-uniform") {
                rep.sample("device-uniform", format!("{} ratio {} scenario {:?}", KINDS[kind], ratio, spec));
            }
        }
        rep.exhaustive("device kind (12) x anchor stamp (15, incl. i64::MIN/MAX) carried by every slot x slot presence {all, own only, partner only, random}");
    }
    // ---- 5d. devices, histories of 2-4 updates: later rounds re-issue bit-identical / mirrored /
    // exactly constraint-consistent values with newer stamps on one side; own slots are checked
    // after every update
    for case in args.cases("device-history", 12 * 2_500, 12 * 200_000) {
        let kind = (case % 12) as usize;
        let mut rng = Rng::new(args.seed, 315, case);
        let rounds = 2 + rng.usize(3);
        let mut h = Hist::new(&mut rng, kind, rounds);
        let conn = h.conn.clone();
        let ratio = h.ratio;
        let template = TEMPLATES[h.template];
        let mut log: Vec<Vec<Op>> = Vec::new();
        let mut ctx = Ctx { rep: &mut rep, sub: "device-history", case, vkey: ("", "", "") };
        {
            let log = &mut log;
            let rng = &mut rng;
            run_history(
                kind,
                &conn,
                ratio,
                rounds,
                &mut |round, own, ext| {
                    let ops = h.ops(rng, round, own, ext);
                    log.push(ops.clone());
                    ops
                },
                &mut |o| {
                    ctx.rep.tally("device_history_updates");
                    check_round(&mut ctx, kind, &conn, ratio, template, o)
                },
            );
        }
        if case / 12 == 3 && rep.want_sample("device-history") {
            rep.sample("device-history", format!("{} ratio {} connected {:?} template {}: writes per round {:?}", KINDS[kind], ratio, conn, template, log));
        }
    }

    // ---- coverage floors (merged over shards): the checks above are vacuous without these
    rep.floor("datum_ops_binary", 10_000);
    rep.floor("datum_ops_scalar_or_unary", 4_000);
    rep.floor("replace_expected", 2_000);
    rep.floor("keep_expected", 2_000);
    rep.floor("replace_into_empty_slot", 1_000);
    rep.floor("replace_with_none_candidate", 1_000);
    rep.floor("selection_some", 5_000);
    rep.floor("selection_tie_for_newest", 500);
    rep.floor("combined_output_some", 10_000);
    rep.floor("latest_stream_cases", 5_000);
    rep.floor("terminal_state_averaged", 1_000);
    rep.floor("terminal_state_one_part", 1_000);
    rep.floor("terminal_command_two_parts", 1_000);
    rep.floor("terminal_command_one_part", 1_000);
    rep.floor("topology_connect_involving_previously_linked_terminal", 1_000);
    rep.floor("topology_disconnect", 1_000);
    rep.floor("topology_reads_of_unlinked_terminal_with_former_partner", 2_000);
    rep.floor("topology_reads_of_terminal_whose_partner_was_rewired_away", 1_000);
    rep.floor("topology_unlinked_read_while_former_partner_holds_newer_state", 500);
    rep.floor("topology_unlinked_read_while_former_partner_holds_newer_command", 500);
    rep.floor("topology_reads_over_a_link_made_after_rewiring", 1_000);
    rep.floor("device_state_writes_checked", 3_000);
    rep.floor("device_state_one_sided_propagation", 100);
    rep.floor("device_command_writes_checked", 1_000);
    for k in KINDS.iter() {
        rep.floor(&format!("device_state_writes_checked/{}", k), 50);
    }
    for k in KINDS.iter().take(8) {
        rep.floor(&format!("device_command_writes_checked/{}", k), 50);
    }
    rep.floor("device_history_updates", 10_000);
    rep.floor("device_updates_checked/round1", 3_000);
    rep.floor("device_updates_checked/round2", 1_000);
    rep.floor("device_all_contributors_same_extreme_stamp", 500);
    for (i, k) in KINDS.iter().enumerate() {
        rep.floor(&format!("device_all_contributors_same_extreme_stamp/{}", k), 20);
        if i != 2 {
            // (an Axle<1> has a single read: nothing to be consistent with)
            rep.floor(&format!("device_reads_exactly_consistent_with_different_stamps/{}", k), 20);
        }
    }
    rep.finish(&args);
}
