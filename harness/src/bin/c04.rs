//! C04 — PIDControllerStream = textbook discrete PID of its input history.
//! (a) f64 reference with forward error bound, (b) metamorphic bit-exact: timestamp shift and
//! power-of-two scaling, (c) differential against the controller assembled from the crate's own
//! streams exactly as examples/pid.rs does (every node updated every step).
use rrtk::streams::control::*;
use rrtk::streams::converters::*;
use rrtk::streams::math::*;
use rrtk::*;
use rrtk_mon::*;
use std::cell::RefCell;
use std::rc::Rc;
type DQ = dyn Getter<Quantity, E>;
type DF = dyn Getter<f32, E>;
fn dynq<T: Getter<Quantity, E> + 'static>(r: &Rc<RefCell<T>>) -> Reference<DQ> {
    let x: Rc<RefCell<DQ>> = r.clone();
    Reference::from_rc_ref_cell(x)
}
fn dynf<T: Getter<f32, E> + 'static>(r: &Rc<RefCell<T>>) -> Reference<DF> {
    let x: Rc<RefCell<DF>> = r.clone();
    Reference::from_rc_ref_cell(x)
}
/// The composition of examples/pid.rs, node for node.
struct StreamPid {
    nodes: Vec<Reference<dyn Updatable<E>>>,
    output: SumStream<f32, 3, E>,
}
fn dynu<T: Updatable<E> + 'static>(r: &Rc<RefCell<T>>) -> Reference<dyn Updatable<E>> {
    let x: Rc<RefCell<dyn Updatable<E>>> = r.clone();
    Reference::from_rc_ref_cell(x)
}
impl StreamPid {
    fn new(input: Reference<DQ>, setpoint: f32, kp: f32, ki: f32, kd: f32) -> Self {
        let time_getter = rc(TimeGetterFromGetter::new(input.clone()));
        let tg = || Reference::from_rc_ref_cell(time_getter.clone());
        let setpoint = rc(ConstantGetter::new(tg(), Quantity::new(setpoint, MILLIMETER)));
        let kp = rc(ConstantGetter::new(tg(), Quantity::dimensionless(kp)));
        let ki = rc(ConstantGetter::new(tg(), Quantity::dimensionless(ki)));
        let kd = rc(ConstantGetter::new(tg(), Quantity::dimensionless(kd)));
        let error = rc(DifferenceStream::new(dynq(&setpoint), input.clone()));
        let int = rc(IntegralStream::new(dynq(&error)));
        let drv = rc(DerivativeStream::new(dynq(&error)));
        let int_zeroer = rc(NoneToValue::new(dynq(&int), tg(), Quantity::new(0.0, MILLIMETER)));
        let drv_zeroer = rc(NoneToValue::new(dynq(&drv), tg(), Quantity::new(0.0, MILLIMETER)));
        let kp_mul = rc(ProductStream::new([dynq(&kp), dynq(&error)]));
        let pro_f = rc(QuantityToFloat::new(dynq(&kp_mul)));
        let ki_mul = rc(ProductStream::new([dynq(&ki), dynq(&int_zeroer)]));
        let int_f = rc(QuantityToFloat::new(dynq(&ki_mul)));
        let kd_mul = rc(ProductStream::new([dynq(&kd), dynq(&drv_zeroer)]));
        let drv_f = rc(QuantityToFloat::new(dynq(&kd_mul)));
        let output = SumStream::new([dynf(&pro_f), dynf(&int_f), dynf(&drv_f)]);
        StreamPid { nodes: vec![dynu(&int), dynu(&drv), dynu(&pro_f), dynu(&int_f), dynu(&drv_f)], output }
    }
    /// every node updated every step (errors of individual nodes do not stop the others)
    fn update_all(&mut self) {
        for n in &self.nodes {
            let _ = n.borrow_mut().update();
        }
    }
}
#[derive(Clone, Debug)]
struct Case {
    sp: f32,
    kp: f32,
    ki: f32,
    kd: f32,
    h: Vec<Ev<f32>>,
}
fn gen(rng: &mut Rng, case: u64) -> Case {
    let mut h = Vec::new();
    let sp = rng.moderate(1e4);
    let mut last = sp;
    let target = 2 + rng.usize(63);
    let mut t = rng.range_i64(-1_000_000_000_000_000, 1_000_000_000_000_000);
    // intervals: log-uniform 1 us .. 100 h, plus the exact ends and round values (guards written with <= / >= or
    // with a power-of-two threshold in seconds only show there)
    fn interval(rng: &mut Rng) -> i64 {
        match rng.below(20) {
            0 => 1_000,
            1 => *rng.pick(&[1_001i64, 999_999, 1_000_000, 1_000_000_000, 3_600_000_000_000, 36_000_000_000_000, 65_536_000_000_000, 65_537_000_000_000, 86_400_000_000_000, 360_000_000_000_000]),
            _ => rng.step_ns(1_000, 360_000_000_000_000),
        }
    }
    let const_dt = if case % 3 == 0 { Some(interval(rng)) } else { None };
    while h.len() < target {
        let run = match rng.below(5) { 0 => 1, 1 => 2, 2 => 3, 3 => 4 + rng.usize(6), _ => 10 + rng.usize(30) };
        // creeping runs: the error changes by a few units in its last place from sample to sample (a slowly moving
        // axis far from its setpoint): D is then a small difference of nearby values, exactly representable
        let creep = rng.chance(0.15);
        for _ in 0..run {
            t += const_dt.unwrap_or_else(|| interval(rng));
            // strata: fresh value, the previous value again (error unchanged, D = 0), exactly the setpoint (e = 0)
            let v = if creep && (sp as f64 - last as f64).abs() >= 1e-3 { // (no creeping around e = 0: nothing there but underflow)
                let e = sp as f64 - last as f64;
                let ulp_e = e.abs() * (2.0f64).powi(-23);
                (last as f64 + rng.sign() * (1 + rng.below(24)) as f64 * ulp_e) as f32
            } else { match rng.below(12) { 0 => last, 1 => sp, _ => rng.moderate(1e4) } };
            last = v;
            h.push(Ev::Some(t, v));
        }
        for _ in 0..1 + rng.usize(2) {
            t += interval(rng);
            h.push(match rng.below(4) { 0 => Ev::None, k => Ev::Err(k as u8 - 1) }); // Err(0) = Error::FromNone, Err(1|2) = Error::Other
        }
    }
    h.truncate(target.min(64));
    // "all finite gains": in a fraction of the cases some gains are huge (every documented term is then checked only at
    // the steps where it stays below f32::MAX/8, see the guard in main)
    let huge = rng.chance(0.06);
    let mut gain = |rng: &mut Rng| if huge && rng.chance(0.5) { (rng.sign() * rng.log_uniform(1e20, 3e37)) as f32 } else { rng.moderate(1e4) };
    Case { sp, kp: gain(rng), ki: gain(rng), kd: gain(rng), h }
}
fn run_real(c: &Case, shift: i64, scale: f32) -> Vec<Out<f32>> {
    run_observed(c, shift, scale, None)
}
/// `skip[i]`: do not call get() after step i (placeholder Ok(None) returned there, never compared)
fn run_observed(c: &Case, shift: i64, scale: f32, skip: Option<&[bool]>) -> Vec<Out<f32>> {
    run_alongside(c, shift, scale, skip, false)
}
/// `alongside`: a second controller with other gains and setpoint is updated with the same timestamps (other values)
/// just before the one under test at every step
fn run_alongside(c: &Case, shift: i64, scale: f32, skip: Option<&[bool]>, alongside: bool) -> Vec<Out<f32>> {
    let src = Src::<f32>::new();
    let mut pid = PIDControllerStream::new(src.dynref(), c.sp * scale, PIDKValues::new(c.kp, c.ki, c.kd));
    let dsrc = Src::<f32>::new();
    let mut other = PIDControllerStream::new(dsrc.dynref(), 1.0 - c.sp, PIDKValues::new(0.5, -2.0, 0.125));
    let mut outs = Vec::with_capacity(c.h.len());
    for e in &c.h {
        if alongside {
            match e { Ev::Some(t, v) => dsrc.some(*t + shift, 3.0 - 0.5 * *v), Ev::None => dsrc.none(), Ev::Err(x) => dsrc.err(*x) }
            let _ = other.update();
            let _ = other.get();
        }
        match e {
            Ev::Some(t, v) => src.some(*t + shift, *v * scale),
            Ev::None => src.none(),
            Ev::Err(x) => src.err(*x),
        }
        let _ = pid.update();
        let i = outs.len();
        outs.push(if skip.map(|s| s[i]).unwrap_or(false) { Ok(None) } else { pid.get() });
    }
    outs
}
/// forward-error constant: grows with the number of samples accumulated in the run (each partial sum of
/// the integral adds one rounding relative to the running magnitude)
fn kk(n: usize) -> f64 {
    40.0 + 4.0 * n as f64
}
fn main() {
    let args = Args::parse();
    let mut rep = Report::new("C04", &args);
    for case in args.cases("pid", 30_000, 2_000_000) {
        let mut rng = Rng::new(args.seed, 401, case);
        let c = gen(&mut rng, case);
        let outs = match catch(|| run_real(&c, 0, 1.0)) {
            Ok(o) => o,
            Err(m) => { rep.violation("C04/panic", "pid", case, format!("{} case={:?}", m, c)); continue; }
        };
        // ---- (a) reference
        let (sp, kp, ki, kd) = (c.sp as f64, c.kp as f64, c.ki as f64, c.kd as f64);
        let mut prev: Option<(i64, f64)> = None;
        let mut integ = 0.0f64;
        let mut integ_abs = 0.0f64;
        let mut run_len = 0usize;
        let mut lens = [0u8; 4];
        let mut dtclass = 0u32;
        for (i, e) in c.h.iter().enumerate() {
            match e {
                Ev::Some(t, x) => {
                    let err = sp - *x as f64;
                    let (dterm, dmag) = match prev {
                        Some((tp, ep)) => {
                            let dt = (*t - tp) as f64 / 1e9;
                            let add = dt * (ep + err) / 2.0;
                            integ += add;
                            integ_abs += dt * (ep.abs() + err.abs()) / 2.0;
                            dtclass |= 1 << (((*t - tp) as f64).log10() as u32).min(15);
                            if err != ep && (err - ep).abs() <= 16.0 * (2.0f64).powi(-23) * err.abs().max(ep.abs()) { rep.tally("steps_with_error_change_of_a_few_ulps"); }
                            ((err - ep) / dt, (err.abs() + ep.abs()) / dt)
                        }
                        None => { integ = 0.0; integ_abs = 0.0; (0.0, 0.0) }
                    };
                    run_len += 1;
                    let expect = kp * err + ki * integ + kd * dterm;
                    // bound in units of 2^-24. P and I terms: K(n) x magnitude. D term: the error e = fl(setpoint - x) carries
                    // at most 2^-24|e| each, so the difference quotient carries (|e|+|e_prev|)/dt (x3 for safety) plus a few
                    // roundings relative to the quotient ITSELF - not K x (|e|+|e_prev|)/dt, which would hide a derivative
                    // that is wrong by many times its own size when the two errors are close
                    let mag = ((kp * err).abs() + ki.abs() * integ_abs) + kd.abs() * (3.0 * dmag + 12.0 * dterm.abs()) / kk(run_len);
                    let biggest = (kp * err).abs().max((ki * integ).abs()).max((kd * dterm).abs()); // the documented terms themselves (an earlier, larger integral does not disqualify this step)
                    rep.eval();
                    rep.tally("steps_present");
                    if biggest > f32::MAX as f64 / 8.0 { rep.tally("steps_skipped_term_near_overflow"); prev = Some((*t, err)); continue; }
                    if biggest > 1e30 { rep.tally("steps_with_huge_terms_checked"); }
                    match &outs[i] {
                        Ok(Some(d)) => {
                            if d.time.0 != *t {
                                rep.violation("C04/timestamp", "pid", case, format!("step {} output stamped {} but input stamped {}; case={:?}", i, d.time.0, t, c));
                                break;
                            }
                            let (ok, ratio) = within(d.value, expect, kk(run_len) * U * mag);
                            rep.max("reference_err_over_bound", ratio);
                            if !ok {
                                rep.violation("C04/reference", "pid", case, format!("step {} (sample {} of its run): output {} but textbook PID gives {:e} (bound {:e}, ratio {:.3e}); case={:?}", i, run_len, f(d.value), expect, kk(run_len) * U * mag, ratio, c));
                                break;
                            }
                        }
                        other => {
                            rep.violation("C04/not-present", "pid", case, format!("step {} saw a present input but output is {:?}; case={:?}", i, other, c));
                            break;
                        }
                    }
                    prev = Some((*t, err));
                }
                _ => {
                    if run_len > 0 { lens[run_len.min(4) - 1] = 1; }
                    run_len = 0;
                    prev = None;
                    rep.tally(if matches!(e, Ev::None) { "steps_absent" } else { "steps_error" });
                    if i + 1 < c.h.len() && matches!(c.h[i + 1], Ev::Some(..)) { rep.tally(if matches!(e, Ev::None) { "resets_by_absent" } else { "resets_by_error" }); }
                }
            }
        }
        rep.distinct(("pid", lens, dtclass, c.h.iter().filter(|e| matches!(e, Ev::None)).count().min(3), c.h.iter().filter(|e| matches!(e, Ev::Err(_))).count().min(3)));
        if rep.want_sample("pid") { rep.sample("pid", format!("{:?}", Case { h: c.h[..c.h.len().min(8)].to_vec(), ..c.clone() })); }
        // ---- (b) metamorphic, bit-exact
        let shift = match rng.below(4) { 0 => rng.range_i64(-1000, 1000), 1 => rng.range_i64(-(1 << 40), 1 << 40), 2 => (1i64 << 61) + rng.range_i64(-1000, 1000), _ => -(1i64 << 61) + rng.range_i64(-1000, 1000) };
        let shifted = run_real(&c, shift, 1.0);
        rep.eval();
        rep.tally("shift_comparisons");
        for i in 0..outs.len() {
            let ok = match (&outs[i], &shifted[i]) {
                (Ok(Some(a)), Ok(Some(b))) => b.time.0 == a.time.0 + shift && same(a.value, b.value),
                (a, b) => out_same(a, b, fsame),
            };
            if !ok {
                rep.violation("C04/shift-invariance", "pid", case, format!("step {}: {:?} vs shifted by {}: {:?}; case={:?}", i, outs[i], shift, shifted[i], c));
                break;
            }
        }
        let mut k = rng.range_i64(-8, 8) as i32;
        if c.kp.abs().max(c.ki.abs()).max(c.kd.abs()) > 1e19 { k = -k.abs(); } // huge gains: only scale down (scaling up overflows legitimately)
        let scale = (2.0f32).powi(k);
        let scaled = run_real(&c, 0, scale);
        rep.eval();
        rep.tally("scale_comparisons");
        for i in 0..outs.len() {
            let ok = match (&outs[i], &scaled[i]) {
                (Ok(Some(a)), Ok(Some(b))) => b.time == a.time && (same(a.value * scale, b.value) || !(a.value * scale).is_normal() || !a.value.is_normal()),
                (a, b) => out_same(a, b, fsame),
            };
            if !ok {
                rep.violation("C04/pow2-scaling", "pid", case, format!("step {}: {:?} vs inputs*2^{}: {:?}; case={:?}", i, outs[i], k, scaled[i], c));
                break;
            }
        }
        // ---- (b') the output does not depend on whether get() was called after earlier updates
        let skip: Vec<bool> = (0..c.h.len()).map(|_| rng.chance(0.6)).collect();
        let sparse = run_observed(&c, 0, 1.0, Some(&skip));
        rep.eval();
        rep.tally("sparse_observation_runs");
        for i in 0..outs.len() {
            if !skip[i] && !out_same(&outs[i], &sparse[i], fsame) {
                rep.violation("C04/get-schedule-affects-output", "pid", case, format!("step {}: {:?} when read after every update, {:?} when earlier reads are skipped (skip={:?}); case={:?}", i, outs[i], sparse[i], skip, c));
                break;
            }
        }
        // ---- (b'') ... nor on a second controller living (and being updated) alongside
        let along = run_alongside(&c, 0, 1.0, None, true);
        rep.eval();
        rep.tally("runs_with_a_second_instance_alongside");
        if let Some(i) = (0..outs.len()).find(|&i| !out_same(&outs[i], &along[i], fsame)) {
            rep.violation("C04/instances-not-independent", "pid", case, format!("step {}: {:?} alone, {:?} with a second PIDControllerStream updated alongside; case={:?}", i, outs[i], along[i], c));
        }
        // ---- (c) differential against the assembled controller
        let qsrc = Src::<Quantity>::new();
        let mut sp_ = StreamPid::new(qsrc.dynref(), c.sp, c.kp, c.ki, c.kd);
        // replay reference magnitudes for the bound
        let mut prev: Option<(i64, f64)> = None;
        let mut integ_abs = 0.0f64;
        for (i, e) in c.h.iter().enumerate() {
            match e {
                Ev::Some(t, v) => qsrc.some(*t, Quantity::new(*v, MILLIMETER)),
                Ev::None => qsrc.none(),
                Ev::Err(x) => qsrc.err(*x),
            }
            if catch(|| sp_.update_all()).is_err() {
                rep.violation("C04/composition-panic", "pid", case, format!("assembled controller panicked at step {}; case={:?}", i, c));
                break;
            }
            if let Ev::Some(t, x) = e {
                let err = sp - *x as f64;
                let dmag = match prev {
                    Some((tp, ep)) => { let dt = (*t - tp) as f64 / 1e9; integ_abs += dt * (ep.abs() + err.abs()) / 2.0; (err.abs() + ep.abs()) / dt }
                    None => { integ_abs = 0.0; 0.0 }
                };
                prev = Some((*t, err));
                let mag = (kp * err).abs() + ki.abs() * integ_abs + kd.abs() * dmag;
                if (kp * err).abs().max(ki.abs() * integ_abs).max(kd.abs() * dmag) > f32::MAX as f64 / 8.0 { continue; }
                rep.eval();
                rep.tally("composition_steps");
                let got = sp_.output.get();
                match (&outs[i], &got) {
                    (Ok(Some(a)), Ok(Some(b))) => {
                        if same(a.value, b.value) { rep.tally("composition_bit_identical"); }
                        let (ok, ratio) = within(b.value, a.value as f64, 2.0 * kk(i + 1) * U * mag);
                        rep.max("composition_err_over_bound", ratio);
                        if !ok || a.time != b.time {
                            rep.violation("C04/composition", "pid", case, format!("step {}: PIDControllerStream {:?} vs assembled {:?} (bound {:e}); case={:?}", i, a, b, 2.0 * kk(i + 1) * U * mag, c));
                            break;
                        }
                    }
                    (a, b) => {
                        rep.violation("C04/composition-category", "pid", case, format!("step {}: PIDControllerStream {:?} vs assembled {:?}; case={:?}", i, a, b, c));
                        break;
                    }
                }
            } else {
                prev = None;
            }
        }
    }
    rep.floor("resets_by_absent", 50);
    rep.floor("resets_by_error", 50);
    rep.floor("composition_steps", 1000);
    rep.floor("steps_with_error_change_of_a_few_ulps", 500);
    rep.floor("steps_with_huge_terms_checked", 500);
    rep.finish(&args);
}
