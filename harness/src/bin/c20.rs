//! C20 — device wrappers relay data between getters/settables and terminals unaltered.
//!
//! Three wrappers, three families of sub-checks, all driven through the public API only:
//! * `ActuatorWrapper`: a recording `Settable<TerminalData>` (shared through `Rc`) as inner object;
//!   per `update()` the expected log is computed from what the wrapper's terminal showed (combined
//!   own + partner read) immediately before the update.
//! * `GetterStateDeviceWrapper`: a scripted, *latched* `Getter<State>` (its output only changes when
//!   the wrapper updates it, so "update, then read the present state" is observable); the terminal's
//!   own state slot is read back after each update.
//! * `PIDWrapper`: a recording `Settable<f32>` motor and a twin stand-alone `CommandPID` wired exactly
//!   like the wrapper documents (clock, two constant getters, PID following the command getter) and fed
//!   the times / states / commands seen at the wrapper's terminal; motor log compared on canonical bits
//!   (same code on both sides — the PID law itself is C11's job).
//! * "Observing inner object" stratum (sub-checks `*-observing`), for every wrapper: the inner object
//!   holds handles to the wrapper's own terminal and/or to the external terminal connected to it and,
//!   inside its `impl_set` / `update` / `get`, READS them (the three `Getter` views and both
//!   `get_last_request` slots) like a servo with feedback looking at the shaft it sits on. On the
//!   unchanged crate every one of these reads is permitted in every wrapper (an actuator wrapper holds
//!   at most a shared borrow of its terminal while it calls `inner.set`, nothing otherwise). Oracle: no
//!   read panics, and each read returns what the monitor's own read returned immediately before the
//!   wrapper's `update()` (slots: what the monitor last wrote there) — the wrapper relays, it does not
//!   change what the terminal shows before it has called the inner object. For the encoder wrapper only
//!   the reads made in `inner.update()` and in the first `inner.get()` after it are compared (they
//!   causally precede the write of that state); later ones are only required not to panic.
//! * "Writing inner object" stratum (sub-checks `*-writing`), for every wrapper: the inner object WRITES
//!   (`Settable::<Datum<State>>::set` / the command counterpart, fresh stamps) to terminals from inside
//!   its methods — a servo reporting its measured state into the shaft terminal. Performed only where the
//!   unchanged crate holds no borrow that forbids it, and conservatively: to the wrapper's OWN terminal
//!   only inside `inner.update()` (during `inner.set` the unchanged actuator wrapper holds a shared
//!   borrow of its terminal, so an own write there is outside what the code supports), to the connected
//!   EXTERNAL terminal inside `update()`, `impl_set` and `get`. Oracle: the write neither panics nor
//!   errs, the slot holds the datum immediately afterwards and (unless the statement says the wrapper
//!   overwrites it: the encoder wrapper's own state slot when the getter is present) after the wrapper's
//!   update; the monitor's slot model takes these writes as third-party writes, so the following
//!   rounds' "what the terminal sees" includes them.
//! * "Following" stratum (sub-checks `*-following`), for every wrapper: the wrapper's OWN terminal follows
//!   a scripted state getter and a scripted command getter (present / absent, never erring; payload
//!   stamps older / equal / newer than what the slot holds), so data reach it the way other devices
//!   deliver them: the wrapper pulls them in during its own update. "What the terminal sees" is then
//!   the view AFTER the pull: the monitor's slot model with a present followed datum replacing the own
//!   slot, turned into the expected combined read by a scratch pair of the crate's own terminals (and
//!   cross-checked against the independent model as everywhere else). Encoder wrapper: only "a present
//!   getter state ends up in the state slot (a followed state must not win over it)" is asserted; when
//!   nothing is written each own slot may hold its old content or the followed datum, and the command
//!   slot is never judged (whether/when the pull happens on those paths is not in the statement).
//! Where the statement is silent (is `inner.update()` still called after a failing `inner.set`? does
//! the encoder wrapper touch the command slot when it writes a state? how many times is an inner method
//! called? does the PID wrapper's motor get its value by following the PID inside its own `update()` or
//! by a direct `set` from the wrapper, before or after its `update()`?) every behaviour is accepted:
//! only "at least one update", "every set of the round carries exactly the expected value", the
//! actuator's "set, then update" and error propagation are demanded.
use rrtk::devices::wrappers::{ActuatorWrapper, GetterStateDeviceWrapper, PIDWrapper};
use rrtk::streams::control::CommandPID;
use rrtk::*;
use rrtk_mon::*;
use std::cell::RefCell;
use std::rc::Rc;
type Term<'a> = RefCell<Terminal<'a, E>>;
// ------------------------------------------------------------------------------------------------
// observers / fault injectors
// ------------------------------------------------------------------------------------------------
/// Handle given (by value) to a wrapper; everything is recorded in the shared `RecSettable`.
/// The `SettableData` lives here (the trait hands out plain references to it), so `follow` (used by
/// `PIDWrapper::new`) lands here and `update` performs the following as the trait docs require.
struct Shared<'a, S: Clone> {
    data: SettableData<S, E>,
    rec: Rc<RefCell<RecSettable<S>>>,
    /// observing stratum: terminals this inner object looks at from inside its own methods
    probe: Option<Rc<RefCell<Probe<'a>>>>,
}
impl<'a, S: Clone> Shared<'a, S> {
    fn new(rec: Rc<RefCell<RecSettable<S>>>, probe: Option<Rc<RefCell<Probe<'a>>>>) -> Self {
        Shared { data: SettableData::new(), rec, probe }
    }
}
impl<S: Clone> Settable<S, E> for Shared<'_, S> {
    fn impl_set(&mut self, value: S) -> NothingOrError<E> {
        if let Some(p) = &self.probe {
            p.borrow_mut().observe('s');
        }
        self.rec.borrow_mut().impl_set(value)
    }
    fn get_settable_data_ref(&self) -> &SettableData<S, E> {
        &self.data
    }
    fn get_settable_data_mut(&mut self) -> &mut SettableData<S, E> {
        &mut self.data
    }
}
impl<S: Clone> Updatable<E> for Shared<'_, S> {
    fn update(&mut self) -> NothingOrError<E> {
        // records 'u' and yields the scripted update error (the RecSettable itself follows nothing)
        let r = self.rec.borrow_mut().update();
        if let Some(p) = &self.probe {
            p.borrow_mut().observe('u');
        }
        // following (PID motor): a followed value arrives through impl_set and is recorded as 's'
        self.update_following_data()?;
        r
    }
}
/// Scripted latched state getter: `update()` makes `next` the present output.
struct GState {
    cur: Out<State>,
    next: Out<State>,
    upd_err: Option<u8>,
    updates: u64,
    gets: u64,
}
struct SGetter<'a>(Rc<RefCell<GState>>, Option<Rc<RefCell<Probe<'a>>>>);
impl Getter<State, E> for SGetter<'_> {
    fn get(&self) -> Out<State> {
        if let Some(p) = &self.1 {
            p.borrow_mut().observe('g');
        }
        let mut g = self.0.borrow_mut();
        g.gets += 1;
        g.cur.clone()
    }
}
impl Updatable<E> for SGetter<'_> {
    fn update(&mut self) -> NothingOrError<E> {
        if let Some(p) = &self.1 {
            p.borrow_mut().observe('u');
        }
        let mut g = self.0.borrow_mut();
        g.updates += 1;
        g.cur = g.next.clone();
        match g.upd_err {
            Some(e) => Err(Error::Other(e)),
            None => Ok(()),
        }
    }
}
// ------------------------------------------------------------------------------------------------
// terminal helpers
// ------------------------------------------------------------------------------------------------
fn st(v: [f32; 3]) -> State {
    State::new_raw(v[0], v[1], v[2])
}
fn set_state(t: &Term<'_>, d: Datum<State>) {
    let _ = <Terminal<E> as Settable<Datum<State>, E>>::set(&mut t.borrow_mut(), d);
}
fn set_command(t: &Term<'_>, d: Datum<Command>) {
    let _ = <Terminal<E> as Settable<Datum<Command>, E>>::set(&mut t.borrow_mut(), d);
}
fn own_state(t: &Term<'_>) -> Option<Datum<State>> {
    <Terminal<E> as Settable<Datum<State>, E>>::get_last_request(&t.borrow())
}
fn own_command(t: &Term<'_>) -> Option<Datum<Command>> {
    <Terminal<E> as Settable<Datum<Command>, E>>::get_last_request(&t.borrow())
}
fn read_td(t: &Term<'_>) -> Result<Out<TerminalData>, String> {
    catch(|| <Terminal<E> as Getter<TerminalData, E>>::get(&t.borrow()))
}
fn opt_same<T>(a: &Option<T>, b: &Option<T>, eq: impl Fn(&T, &T) -> bool) -> bool {
    match (a, b) {
        (None, None) => true,
        (Some(x), Some(y)) => eq(x, y),
        _ => false,
    }
}
fn td_same(a: &TerminalData, b: &TerminalData) -> bool {
    a.time == b.time && opt_same(&a.command, &b.command, csame) && opt_same(&a.state, &b.state, ssame)
}
fn ds_same(a: &Option<Datum<State>>, b: &Option<Datum<State>>) -> bool {
    opt_same(a, b, |x, y| x.time == y.time && ssame(&x.value, &y.value))
}
fn dc_same(a: &Option<Datum<Command>>, b: &Option<Datum<Command>>) -> bool {
    opt_same(a, b, |x, y| x.time == y.time && csame(&x.value, &y.value))
}
fn err_of(e: Option<u8>) -> NothingOrError<E> {
    match e {
        Some(e) => Err(Error::Other(e)),
        None => Ok(()),
    }
}
// ------------------------------------------------------------------------------------------------
// observing inner objects: what an inner object sees when it reads a terminal from inside its methods
// ------------------------------------------------------------------------------------------------
/// Every read the terminal API offers, each one individually guarded (Err = the read panicked).
#[derive(Clone, Debug)]
struct View {
    td: Result<Out<TerminalData>, String>,
    s: Result<Out<State>, String>,
    c: Result<Out<Command>, String>,
    slot_s: Result<Option<Datum<State>>, String>,
    slot_c: Result<Option<Datum<Command>>, String>,
}
fn view(t: &Term<'_>) -> View {
    View {
        td: catch(|| <Terminal<E> as Getter<TerminalData, E>>::get(&t.borrow())),
        s: catch(|| <Terminal<E> as Getter<State, E>>::get(&t.borrow())),
        c: catch(|| <Terminal<E> as Getter<Command, E>>::get(&t.borrow())),
        slot_s: catch(|| own_state(t)),
        slot_c: catch(|| own_command(t)),
    }
}
impl View {
    fn all_ok(&self) -> bool {
        self.td.is_ok() && self.s.is_ok() && self.c.is_ok() && self.slot_s.is_ok() && self.slot_c.is_ok()
    }
}
/// One call of an inner-object method: 's' impl_set, 'u' update, 'g' get.
#[derive(Clone, Debug)]
struct Obs {
    site: char,
    own: Option<View>,
    ext: Option<View>,
}
struct Probe<'a> {
    own: Option<&'a Term<'a>>,
    ext: Option<&'a Term<'a>>,
    log: Vec<Obs>,
    /// writing stratum: terminals to write to, this round's script, which entries were performed, results
    w_own: Option<&'a Term<'a>>,
    w_ext: Option<&'a Term<'a>>,
    script: Vec<WriteOp>,
    done: Vec<bool>,
    wlog: Vec<WriteRec>,
}
impl<'a> Probe<'a> {
    fn new() -> Probe<'a> {
        Probe { own: None, ext: None, log: Vec::new(), w_own: None, w_ext: None, script: Vec::new(), done: Vec::new(), wlog: Vec::new() }
    }
    fn observe(&mut self, site: char) {
        let o = Obs { site, own: self.own.map(view), ext: self.ext.map(view) };
        self.log.push(o);
        // scripted writes of this site, each performed once per round (on the first call of that method)
        for k in 0..self.script.len() {
            let op = self.script[k];
            if op.site != site || self.done[k] {
                continue;
            }
            let t = match if op.own { self.w_own } else { self.w_ext } {
                Some(t) => t,
                None => continue,
            };
            self.done[k] = true;
            let (res, back_ok) = match op.d {
                WDatum::S(ts, v) => {
                    let d = Datum::new(Time(ts), st(v));
                    let res = catch(|| <Terminal<E> as Settable<Datum<State>, E>>::set(&mut t.borrow_mut(), d));
                    (res, catch(|| own_state(t)).map(|b| ds_same(&b, &Some(d))))
                }
                WDatum::C(ts, c) => {
                    let d = Datum::new(Time(ts), c);
                    let res = catch(|| <Terminal<E> as Settable<Datum<Command>, E>>::set(&mut t.borrow_mut(), d));
                    (res, catch(|| own_command(t)).map(|b| dc_same(&b, &Some(d))))
                }
            };
            self.wlog.push(WriteRec { idx: k, res, back_ok });
        }
    }
}
#[derive(Clone, Copy, Debug, PartialEq)]
enum WDatum {
    S(i64, [f32; 3]),
    C(i64, Command),
}
/// One scripted write of the inner object: in which of its methods, to which terminal, what.
#[derive(Clone, Copy, Debug, PartialEq)]
struct WriteOp {
    site: char,
    own: bool,
    d: WDatum,
}
#[derive(Clone, Debug)]
struct WriteRec {
    idx: usize,
    /// Err = the write panicked
    res: Result<NothingOrError<E>, String>,
    /// read-back with get_last_request immediately after the write: Ok(true) = the slot holds the datum
    back_ok: Result<bool, String>,
}
/// What the monitor itself last wrote into the four slots (expected `get_last_request` values).
#[derive(Clone, Copy, Default)]
struct Slots {
    own_s: Option<Datum<State>>,
    own_c: Option<Datum<Command>>,
    ext_s: Option<Datum<State>>,
    ext_c: Option<Datum<Command>>,
    /// whether the monitor's last link operation left the two terminals connected
    linked: bool,
}
impl Slots {
    fn note(&mut self, o: &TermOps) {
        match o.link {
            1 | 2 => self.linked = true,
            3 | 4 => self.linked = false,
            _ => {}
        }
        if let Some((t, v)) = o.ext_s {
            self.ext_s = Some(Datum::new(Time(t), st(v)));
        }
        if let Some((t, c)) = o.ext_c {
            self.ext_c = Some(Datum::new(Time(t), c));
        }
        if let Some((t, v)) = o.own_s {
            self.own_s = Some(Datum::new(Time(t), st(v)));
        }
        if let Some((t, c)) = o.own_c {
            self.own_c = Some(Datum::new(Time(t), c));
        }
    }
}
/// Independent model of what the wrapper's terminal sees (its combined read), computed only from what
/// the MONITOR wrote into the own and the connected terminal's slots and from the link operations it
/// performed — so that a wrong combined read cannot hide behind "whatever was read was handed on".
/// Used for the actuator and PID wrappers (which never write to a terminal themselves; the encoder
/// wrapper's clause does not involve the combined read). Per the terminal's documented behaviour:
/// * state = the only existing one (identical), or the mean of own and partner's, each component
///   within 2 ulps of the f64 mean rounded to f32 (not asserted when the f32 sum would overflow or the
///   mean is below 2*f32::MIN_POSITIVE — association / scaling order is not promised), stamped with
///   the newer of the two state stamps;
/// * command = the newer of the two commands (either one on equal stamps), identical;
/// * combined = both, with the state's timestamp when there is a state (with only a command the
///   timestamp is not asserted); nothing iff there is neither a state nor a command.
/// Returns false after recording a violation `C20/<wrapper>/terminal-sees/<field>`.
fn check_sees(rep: &mut Report, wrapper: &str, sub: &'static str, case: u64, round: usize, got: &Option<Datum<TerminalData>>, m: &Slots, hist: &dyn Fn() -> String) -> bool {
    let (ps, pc) = if m.linked { (m.ext_s, m.ext_c) } else { (None, None) };
    let ctx = |what: String| format!("round {}: {}; the wrapper's terminal reads {:?}; monitor wrote own state {:?}, own command {:?}, partner state {:?}, partner command {:?}, linked = {}; {}", round, what, got, m.own_s, m.own_c, m.ext_s, m.ext_c, m.linked, hist());
    macro_rules! bad {
        ($field:expr, $what:expr) => {{
            rep.violation(&format!("C20/{}/terminal-sees/{}", wrapper, $field), sub, case, ctx($what));
            return false;
        }};
    }
    rep.eval();
    let any = m.own_s.is_some() || ps.is_some() || m.own_c.is_some() || pc.is_some();
    let d = match got {
        None => {
            if any {
                bad!("presence", "the terminal reports nothing although a state or command is visible to it".to_string());
            }
            rep.tally(&format!("{}_terminal_sees_compared/nothing", wrapper));
            return true;
        }
        Some(d) => {
            if !any {
                bad!("presence", "the terminal reports data although nothing was written to it or to a connected terminal".to_string());
            }
            d
        }
    };
    // ---- state
    let state_stamp: Option<Time> = match (m.own_s, ps) {
        (None, None) => {
            if d.value.state.is_some() {
                bad!("state", "a state is reported although none exists".to_string());
            }
            None
        }
        (Some(x), None) | (None, Some(x)) => {
            if !opt_same(&d.value.state, &Some(x.value), ssame) {
                bad!("state", format!("the only existing state is {:?}", x.value));
            }
            rep.tally(&format!("{}_terminal_sees_compared/single_state", wrapper));
            Some(x.time)
        }
        (Some(a), Some(b)) => {
            let g = match d.value.state {
                Some(g) => g,
                None => bad!("state", "no state is reported although two exist".to_string()),
            };
            for (name, x, y, z) in [("position", a.value.position, b.value.position, g.position), ("velocity", a.value.velocity, b.value.velocity, g.velocity), ("acceleration", a.value.acceleration, b.value.acceleration, g.acceleration)] {
                let sum = x as f64 + y as f64;
                let mean = sum / 2.0;
                if sum.abs() >= f32::MAX as f64 || mean.abs() < 2.0 * f32::MIN_POSITIVE as f64 {
                    rep.tally("terminal_sees_mean_not_asserted(overflowing_sum_or_tiny)");
                    continue;
                }
                let dist = ulp_dist(z, mean as f32);
                rep.max("terminal_sees_mean_ulp_dist", dist as f64);
                if dist > 2 {
                    bad!("state", format!("{} {} is not the mean of {} and {} (f64 mean rounded: {}, {} ulps away)", name, f(z), f(x), f(y), f(mean as f32), dist));
                }
                rep.tally("terminal_sees_state_mean_components_compared");
            }
            rep.tally(&format!("{}_terminal_sees_compared/mean_state", wrapper));
            Some(if a.time >= b.time { a.time } else { b.time })
        }
    };
    // ---- command
    let cmd_ok = match (m.own_c, pc) {
        (None, None) => d.value.command.is_none(),
        (Some(x), None) | (None, Some(x)) => opt_same(&d.value.command, &Some(x.value), csame),
        (Some(a), Some(b)) => {
            if a.time == b.time {
                rep.tally("terminal_sees_command_tie(either_accepted)");
                opt_same(&d.value.command, &Some(a.value), csame) || opt_same(&d.value.command, &Some(b.value), csame)
            } else {
                rep.tally("terminal_sees_newer_command_selected");
                opt_same(&d.value.command, &Some(if a.time > b.time { a.value } else { b.value }), csame)
            }
        }
    };
    if !cmd_ok {
        bad!("command", "the reported command is not the newer of the own and the partner's command".to_string());
    }
    // ---- timestamp: the state's when there is a state
    match state_stamp {
        Some(t) => {
            if d.time != t || d.value.time != t {
                bad!("time", format!("there is a state stamped {:?} but the combined data carry {:?} (datum) / {:?} (payload)", t, d.time, d.value.time));
            }
            rep.tally(&format!("{}_terminal_sees_time_compared", wrapper));
            if let Some(c) = match (m.own_c, pc) { (Some(a), Some(b)) => Some(a.time.max(b.time)), (Some(a), None) | (None, Some(a)) => Some(a.time), _ => None } {
                if c > t {
                    rep.tally(&format!("{}_terminal_sees_time_compared/command_newer_than_state", wrapper));
                }
            }
        }
        None => rep.tally("terminal_sees_time_not_asserted(no_state)"),
    }
    true
}
/// Expected views of (own, ext) for the coming update: the monitor's own reads right now, with the slot
/// reads replaced by what the monitor wrote. None if the monitor's own read fails (not judged here).
fn expected_views(term: &Term<'_>, ext: &Term<'_>, m: &Slots) -> Option<(View, View)> {
    let (mut a, mut b) = (view(term), view(ext));
    if !(a.all_ok() && b.all_ok()) {
        return None;
    }
    a.slot_s = Ok(m.own_s);
    a.slot_c = Ok(m.own_c);
    b.slot_s = Ok(m.ext_s);
    b.slot_c = Ok(m.ext_c);
    Some((a, b))
}
enum Bad {
    Panic(String),
    Differs(String),
}
fn fld<T: std::fmt::Debug>(name: &str, seen: &Result<T, String>, exp: &Result<T, String>, eq: impl Fn(&T, &T) -> bool, compare: bool) -> Result<u64, Bad> {
    match (seen, exp) {
        (Err(m), _) => Err(Bad::Panic(format!("{} panicked: {}", name, m))),
        (Ok(v), Ok(e)) if compare => {
            if eq(v, e) {
                Ok(1)
            } else {
                Err(Bad::Differs(format!("{} returned {:?} to the inner object; immediately before update() it was {:?}", name, v, e)))
            }
        }
        _ => Ok(0),
    }
}
fn view_chk(which: &str, seen: &View, exp: &View, compare: bool) -> Result<u64, Bad> {
    let mut n = 0;
    n += fld(&format!("Getter<TerminalData>::get on the {} terminal", which), &seen.td, &exp.td, |a, b| out_same(a, b, td_same), compare)?;
    n += fld(&format!("Getter<State>::get on the {} terminal", which), &seen.s, &exp.s, |a, b| out_same(a, b, ssame), compare)?;
    n += fld(&format!("Getter<Command>::get on the {} terminal", which), &seen.c, &exp.c, |a, b| out_same(a, b, csame), compare)?;
    n += fld(&format!("Settable<Datum<State>>::get_last_request on the {} terminal", which), &seen.slot_s, &exp.slot_s, ds_same, compare)?;
    n += fld(&format!("Settable<Datum<Command>>::get_last_request on the {} terminal", which), &seen.slot_c, &exp.slot_c, dc_same, compare)?;
    Ok(n)
}
/// Judge the observations an inner object made during one wrapper update. `compare(k, obs)` says whether
/// observation k is one whose content the statement pins down (all of them must be panic-free).
/// Returns false after recording a violation.
fn judge_obs(rep: &mut Report, wrapper: &str, sub: &'static str, case: u64, round: usize, obs: &[Obs], exp: &(View, View), compare: impl Fn(usize, &Obs) -> bool, hist: &dyn Fn() -> String) -> bool {
    for (k, o) in obs.iter().enumerate() {
        let cmp = compare(k, o);
        let site = match o.site { 's' => "impl_set", 'u' => "update", _ => "get" };
        rep.tally(&format!("{}_inner_observations/in={}", wrapper, site));
        for (which, seen, e) in [("wrapper's own", &o.own, &exp.0), ("connected external", &o.ext, &exp.1)] {
            let seen = match seen {
                Some(v) => v,
                None => continue,
            };
            rep.eval();
            match view_chk(which, seen, e, cmp) {
                Ok(n) => rep.tally_n(&format!("{}_inner_reads_compared", wrapper), n),
                Err(Bad::Panic(m)) => {
                    rep.violation(&format!("C20/{}/inner-reads-terminal/panic", wrapper), sub, case, format!("round {}: inside the inner object's {}() (call {} of this update): {}; {}", round, site, k, m, hist()));
                    return false;
                }
                Err(Bad::Differs(m)) => {
                    rep.violation(&format!("C20/{}/inner-reads-terminal/changed", wrapper), sub, case, format!("round {}: inside the inner object's {}() (call {} of this update): {}; {}", round, site, k, m, hist()));
                    return false;
                }
            }
        }
    }
    true
}
// ---- writing stratum -----------------------------------------------------------------------------
/// Judge the writes the inner object performed during one wrapper update and enter them into the slot
/// model in the order they were made. Returns false after recording a violation.
fn judge_writes(rep: &mut Report, wrapper: &str, sub: &'static str, case: u64, round: usize, script: &[WriteOp], wlog: &[WriteRec], m: &mut Slots, hist: &dyn Fn() -> String) -> bool {
    for w in wlog {
        let op = script[w.idx];
        let site = match op.site { 's' => "impl_set", 'u' => "update", _ => "get" };
        let target = if op.own { "own" } else { "external" };
        let what = match op.d { WDatum::S(..) => "state", WDatum::C(..) => "command" };
        let desc = format!("the inner object's {}() wrote {:?} to the {} terminal", site, op.d, if op.own { "wrapper's own" } else { "connected external" });
        rep.eval();
        match &w.res {
            Err(msg) => {
                rep.violation(&format!("C20/{}/inner-writes-terminal/panic", wrapper), sub, case, format!("round {}: {}: the write panicked: {}; {}", round, desc, msg, hist()));
                return false;
            }
            Ok(Err(e)) => {
                rep.violation(&format!("C20/{}/inner-writes-terminal/error", wrapper), sub, case, format!("round {}: {}: the write returned {:?}; {}", round, desc, e, hist()));
                return false;
            }
            Ok(Ok(())) => {}
        }
        match &w.back_ok {
            Err(msg) => {
                rep.violation(&format!("C20/{}/inner-writes-terminal/panic", wrapper), sub, case, format!("round {}: {}: reading the slot back panicked: {}; {}", round, desc, msg, hist()));
                return false;
            }
            Ok(false) => {
                rep.violation(&format!("C20/{}/inner-writes-terminal/lost", wrapper), sub, case, format!("round {}: {}: the slot does not hold it immediately afterwards; {}", round, desc, hist()));
                return false;
            }
            Ok(true) => {}
        }
        rep.tally(&format!("{}_inner_writes/in={}/to={}_{}", wrapper, site, target, what));
        match (op.own, op.d) {
            (true, WDatum::S(t, v)) => m.own_s = Some(Datum::new(Time(t), st(v))),
            (true, WDatum::C(t, c)) => m.own_c = Some(Datum::new(Time(t), c)),
            (false, WDatum::S(t, v)) => m.ext_s = Some(Datum::new(Time(t), st(v))),
            (false, WDatum::C(t, c)) => m.ext_c = Some(Datum::new(Time(t), c)),
        }
    }
    true
}
/// After the wrapper's update: the real slots hold what the model (third-party writes included) says.
/// `own_state_judged` = false for the encoder wrapper, whose own state slot has its own oracle.
fn check_slots(rep: &mut Report, wrapper: &str, sub: &'static str, case: u64, round: usize, term: &Term<'_>, ext: &Term<'_>, m: &Slots, own_state_judged: bool, own_command_judged: bool, hist: &dyn Fn() -> String) -> bool {
    rep.eval();
    let (a, b, c, d) = (own_state(term), own_command(term), own_state(ext), own_command(ext));
    let ok = (!own_state_judged || ds_same(&a, &m.own_s)) && (!own_command_judged || dc_same(&b, &m.own_c)) && ds_same(&c, &m.ext_s) && dc_same(&d, &m.ext_c);
    if !ok {
        rep.violation(&format!("C20/{}/inner-writes-terminal/lost", wrapper), sub, case, format!("round {}: after the wrapper's update the slots hold own ({:?}, {:?}) external ({:?}, {:?}); written by the monitor and by the inner object: own ({:?}, {:?}) external ({:?}, {:?}) (own state judged: {}, own command judged: {}); {}", round, a, b, c, d, m.own_s, m.own_c, m.ext_s, m.ext_c, own_state_judged, own_command_judged, hist()));
        return false;
    }
    rep.tally(&format!("{}_slots_after_inner_writes_compared", wrapper));
    true
}
/// Scripted inner writes for a history. Stamps are fresh: newer than every stamp used so far in the
/// history (steps <= 5e9 ns, at most 2 writes per round, so |t| stays below 2^41).
/// `sites`: permitted (method, to own terminal) pairs for this wrapper.
fn gen_writes(rng: &mut Rng, ops: &[TermOps], v: Vals, sites: &[(char, bool)]) -> Vec<Vec<WriteOp>> {
    let p = *rng.pick(&[0.3, 0.7]);
    let mut mx: Option<i64> = None;
    let mut out = Vec::with_capacity(ops.len());
    for o in ops {
        for t in [o.ext_s.map(|x| x.0), o.ext_c.map(|x| x.0), o.own_s.map(|x| x.0), o.own_c.map(|x| x.0)].into_iter().flatten() {
            mx = Some(mx.map(|m| m.max(t)).unwrap_or(t));
        }
        let mut ws = Vec::new();
        if rng.chance(p) {
            for _ in 0..1 + rng.usize(2) {
                let (site, own) = *rng.pick(sites);
                let t = match mx {
                    Some(m) => m + rng.step_ns(1, 5_000_000_000),
                    None => rng.range_i64(-(1i64 << 39), 1i64 << 39),
                };
                mx = Some(t);
                let d = if rng.chance(0.6) { WDatum::S(t, [val(rng, v), val(rng, v), val(rng, v)]) } else { WDatum::C(t, gen_cmd(rng, v)) };
                ws.push(WriteOp { site, own, d });
            }
        }
        out.push(ws);
    }
    out
}
const SETTABLE_WRITE_SITES: [(char, bool); 3] = [('u', true), ('u', false), ('s', false)];
const GETTER_WRITE_SITES: [(char, bool); 3] = [('u', true), ('u', false), ('g', false)];
// ---- following stratum ---------------------------------------------------------------------------
/// What one followed getter of the wrapper's own terminal does in a round.
#[derive(Clone, Copy, Debug, PartialEq)]
enum FEv<T> {
    /// keeps returning what it returned before (a present datum is pulled again by every update)
    Keep,
    Absent,
    /// present: payload stamp, payload value
    Present(i64, T),
}
impl<T> FEv<T> {
    fn kind(&self) -> u8 {
        match self {
            FEv::Keep => 0,
            FEv::Absent => 1,
            FEv::Present(..) => 2,
        }
    }
}
#[derive(Clone, Copy, Debug)]
struct FollowRound {
    s: FEv<[f32; 3]>,
    c: FEv<Command>,
    /// stamp of the getters' outer datum (ignored by following; any value)
    outer: i64,
}
/// The two scripted getters the wrapper's own terminal follows, and what they currently return.
struct Followed {
    src_s: Src<Datum<State>>,
    src_c: Src<Datum<Command>>,
    cur_s: Option<Datum<State>>,
    cur_c: Option<Datum<Command>>,
}
impl Followed {
    fn attach(term: &Term<'_>) -> Followed {
        let f = Followed { src_s: Src::new(), src_c: Src::new(), cur_s: None, cur_c: None };
        Settable::<Datum<State>, E>::follow(&mut *term.borrow_mut(), f.src_s.dynref());
        Settable::<Datum<Command>, E>::follow(&mut *term.borrow_mut(), f.src_c.dynref());
        f
    }
    fn rel(rep: &mut Report, wrapper: &str, what: &str, new: i64, stored: Option<i64>) {
        let r = match stored {
            None => "slot_empty",
            Some(t) if new < t => "older_than_stored",
            Some(t) if new == t => "same_stamp_as_stored",
            Some(_) => "newer_than_stored",
        };
        rep.tally(&format!("{}_followed_{}_present/{}", wrapper, what, r));
    }
    fn deliver(&mut self, rep: &mut Report, wrapper: &str, f: &FollowRound, m: &Slots) {
        match f.s {
            FEv::Keep => {}
            FEv::Absent => {
                self.cur_s = None;
                self.src_s.none();
            }
            FEv::Present(t, v) => {
                let d = Datum::new(Time(t), st(v));
                self.cur_s = Some(d);
                self.src_s.some(f.outer, d);
            }
        }
        match f.c {
            FEv::Keep => {}
            FEv::Absent => {
                self.cur_c = None;
                self.src_c.none();
            }
            FEv::Present(t, c) => {
                let d = Datum::new(Time(t), c);
                self.cur_c = Some(d);
                self.src_c.some(f.outer, d);
            }
        }
        match self.cur_s {
            Some(d) => Self::rel(rep, wrapper, "state", d.time.0, m.own_s.map(|x| x.time.0)),
            None => rep.tally(&format!("{}_followed_state_absent", wrapper)),
        }
        match self.cur_c {
            Some(d) => Self::rel(rep, wrapper, "command", d.time.0, m.own_c.map(|x| x.time.0)),
            None => rep.tally(&format!("{}_followed_command_absent", wrapper)),
        }
    }
    /// the slots as they are once the terminal has pulled: a present followed datum replaces the own slot
    fn after_pull(&self, m: &Slots) -> Slots {
        let mut n = *m;
        if let Some(d) = self.cur_s {
            n.own_s = Some(d);
        }
        if let Some(d) = self.cur_c {
            n.own_c = Some(d);
        }
        n
    }
}
/// Combined read of a terminal whose slots are `m`, asked of a scratch pair of the crate's own terminals
/// (the read semantics are cross-checked separately by `check_sees`).
fn scratch_read(m: &Slots) -> Result<Out<TerminalData>, String> {
    catch(|| {
        let a: Term<'_> = Terminal::new();
        let b: Term<'_> = Terminal::new();
        if let Some(d) = m.own_s {
            set_state(&a, d);
        }
        if let Some(d) = m.own_c {
            set_command(&a, d);
        }
        if let Some(d) = m.ext_s {
            set_state(&b, d);
        }
        if let Some(d) = m.ext_c {
            set_command(&b, d);
        }
        if m.linked {
            connect(&a, &b);
        }
        let r = <Terminal<E> as Getter<TerminalData, E>>::get(&a.borrow());
        r
    })
}
/// Follow events for a history with the given terminal traffic. Payload stamps are placed relative to
/// the stamp the generator believes the own slot holds (older / equal / newer, offsets <= 5e9 ns, so
/// |t| stays below 2^41).
fn gen_follow(rng: &mut Rng, ops: &[TermOps], v: Vals) -> Vec<FollowRound> {
    let p_ev = *rng.pick(&[0.3, 0.7]);
    let use_s = rng.chance(0.85);
    let use_c = rng.chance(0.6) || !use_s;
    let mut st_s: Option<i64> = None;
    let mut st_c: Option<i64> = None;
    let mut base = rng.range_i64(-(1i64 << 39), 1i64 << 39);
    let mut cur_s: Option<i64> = None;
    let mut cur_c: Option<i64> = None;
    let mut out = Vec::with_capacity(ops.len());
    for o in ops {
        if let Some((t, _)) = o.own_s {
            st_s = Some(t);
        }
        if let Some((t, _)) = o.own_c {
            st_c = Some(t);
        }
        if let Some((t, _)) = o.ext_s {
            base = t;
        }
        let mut stamp = |rng: &mut Rng, stored: Option<i64>| match stored {
            Some(t) => match rng.below(4) {
                0 => t - rng.step_ns(1, 5_000_000_000),
                1 => t,
                _ => t + rng.step_ns(1, 5_000_000_000),
            },
            None => base,
        };
        let s = if use_s && rng.chance(p_ev) {
            if rng.chance(0.3) {
                cur_s = None;
                FEv::Absent
            } else {
                let t = stamp(rng, st_s);
                cur_s = Some(t);
                FEv::Present(t, [val(rng, v), val(rng, v), val(rng, v)])
            }
        } else {
            FEv::Keep
        };
        let c = if use_c && rng.chance(p_ev) {
            if rng.chance(0.3) {
                cur_c = None;
                FEv::Absent
            } else {
                let t = stamp(rng, st_c);
                cur_c = Some(t);
                FEv::Present(t, gen_cmd(rng, v))
            }
        } else {
            FEv::Keep
        };
        // what the slot holds after this round's pull (a kept present datum is pulled again)
        if cur_s.is_some() {
            st_s = cur_s;
        }
        if cur_c.is_some() {
            st_c = cur_c;
        }
        out.push(FollowRound { s, c, outer: rng.stamp() });
    }
    out
}
/// Which handles the inner object of an observing case holds: (own terminal, external terminal).
fn gen_handles(rng: &mut Rng) -> (bool, bool) {
    *rng.pick(&[(true, true), (true, true), (true, false), (false, true)])
}
// ------------------------------------------------------------------------------------------------
// what the harness does to the two terminals in one round
// ------------------------------------------------------------------------------------------------
#[derive(Clone, Copy, Debug, PartialEq, Default)]
struct TermOps {
    /// 0 nothing, 1 connect(wrapper, ext), 2 connect(ext, wrapper), 3 wrapper.disconnect(), 4 ext.disconnect()
    link: u8,
    ext_s: Option<(i64, [f32; 3])>,
    ext_c: Option<(i64, Command)>,
    own_s: Option<(i64, [f32; 3])>,
    own_c: Option<(i64, Command)>,
}
fn apply<'a>(o: &TermOps, term: &'a Term<'a>, ext: &'a Term<'a>) {
    match o.link {
        1 => connect(term, ext),
        2 => connect(ext, term),
        3 => term.borrow_mut().disconnect(),
        4 => ext.borrow_mut().disconnect(),
        _ => {}
    }
    if let Some((t, v)) = o.ext_s {
        set_state(ext, Datum::new(Time(t), st(v)));
    }
    if let Some((t, c)) = o.ext_c {
        set_command(ext, Datum::new(Time(t), c));
    }
    if let Some((t, v)) = o.own_s {
        set_state(term, Datum::new(Time(t), st(v)));
    }
    if let Some((t, c)) = o.own_c {
        set_command(term, Datum::new(Time(t), c));
    }
}
const PDS: [PositionDerivative; 3] = [PositionDerivative::Position, PositionDerivative::Velocity, PositionDerivative::Acceleration];
fn pd_idx(c: Command) -> usize {
    match PositionDerivative::from(c) {
        PositionDerivative::Position => 0,
        PositionDerivative::Velocity => 1,
        PositionDerivative::Acceleration => 2,
    }
}
#[derive(Clone, Copy, PartialEq)]
enum Vals {
    Moderate,
    AnyFinite,
}
fn val(rng: &mut Rng, v: Vals) -> f32 {
    match v {
        Vals::Moderate => rng.moderate(1e3),
        Vals::AnyFinite => rng.any_finite(),
    }
}
fn gen_cmd(rng: &mut Rng, v: Vals) -> Command {
    Command::new(*rng.pick(&PDS), val(rng, v))
}
/// Terminal traffic of one history. Stamps: two non-decreasing clocks (states, commands), |t| <= 2^40
/// by construction (start within +-2^39, at most 32 steps of at most 1e10 ns). `strict` histories
/// deliver a new state with a strictly newer stamp in every round (finite PID derivatives).
struct Traffic {
    ops: Vec<TermOps>,
    strict: bool,
}
fn gen_traffic(rng: &mut Rng, n: usize, v: Vals, strict: bool, p_cmd_choices: &[f64]) -> Traffic {
    let p_state = if strict { 1.0 } else { *rng.pick(&[0.15, 0.5, 0.9]) };
    let p_cmd = *rng.pick(p_cmd_choices);
    let own_writes = rng.chance(0.3);
    let relink = rng.chance(0.3);
    let linked0 = rng.chance(0.85);
    let tied_clocks = rng.chance(0.5);
    let mut ts = rng.range_i64(-(1i64 << 39), 1i64 << 39);
    let mut tc = if tied_clocks { ts } else { rng.range_i64(-(1i64 << 39), 1i64 << 39) };
    let mut last_cmd: Option<Command> = None;
    let mut ops = Vec::with_capacity(n);
    for i in 0..n {
        let mut o = TermOps::default();
        if i == 0 && linked0 {
            o.link = 1 + rng.below(2) as u8;
        } else if relink && rng.chance(0.15) {
            o.link = 1 + rng.below(4) as u8;
        }
        let step = |rng: &mut Rng| {
            if strict {
                rng.step_ns(1, 10_000_000_000)
            } else if rng.chance(0.25) {
                0
            } else {
                rng.step_ns(1, 10_000_000_000)
            }
        };
        // the state clock moves once per round (every new state of a strict history is strictly newer)
        let ds = step(rng);
        ts += ds;
        if tied_clocks {
            tc = ts;
        } else if rng.chance(0.6) {
            // independent command clock, also bounded by 32 steps of <= 1e10
            tc += if rng.chance(0.25) { 0 } else { rng.step_ns(1, 10_000_000_000) };
        }
        if rng.chance(p_state) {
            let s = [val(rng, v), val(rng, v), val(rng, v)];
            let dest = if own_writes { rng.below(10) } else { 0 };
            match dest {
                7 | 8 | 9 => o.own_s = Some((ts, s)),
                6 => {
                    o.own_s = Some((ts, s));
                    o.ext_s = Some((ts, [val(rng, v), val(rng, v), val(rng, v)]));
                }
                _ => o.ext_s = Some((ts, s)),
            }
        }
        if rng.chance(p_cmd) {
            let c = match last_cmd {
                Some(c) if rng.chance(0.4) => c,
                Some(c) if rng.chance(0.4) => Command::new(PositionDerivative::from(c), val(rng, v)),
                _ => gen_cmd(rng, v),
            };
            last_cmd = Some(c);
            if own_writes && rng.chance(0.35) {
                o.own_c = Some((tc, c));
            } else {
                o.ext_c = Some((tc, c));
            }
        }
        ops.push(o);
    }
    Traffic { ops, strict }
}
fn seen_kind(d: &Option<Datum<TerminalData>>) -> u8 {
    match d {
        None => 0,
        Some(d) => match (d.value.state.is_some(), d.value.command.is_some()) {
            (true, false) => 1,
            (false, true) => 2,
            (true, true) => 3,
            (false, false) => 4,
        },
    }
}
const SEEN: [&str; 5] = ["nothing", "state", "command", "state+command", "time-only"];
fn inner_kind(reject: Option<u8>, upd_err: Option<u8>) -> u8 {
    (reject.is_some() as u8) | ((upd_err.is_some() as u8) << 1)
}
const INNER: [&str; 4] = ["accept", "reject", "accept+update-error", "reject+update-error"];
// ------------------------------------------------------------------------------------------------
// 1. ActuatorWrapper
// ------------------------------------------------------------------------------------------------
#[derive(Clone, Debug)]
struct SetRound {
    ops: TermOps,
    reject: Option<u8>,
    upd_err: Option<u8>,
}
fn gen_inner(rng: &mut Rng, p_reject: f64, p_upd: f64) -> (Option<u8>, Option<u8>) {
    (
        if rng.chance(p_reject) { Some(5 + rng.below(2) as u8) } else { None },
        if rng.chance(p_upd) { Some(7 + rng.below(2) as u8) } else { None },
    )
}
fn gen_act(rng: &mut Rng) -> Vec<SetRound> {
    let n = 1 + rng.usize(32);
    let v = if rng.chance(0.3) { Vals::AnyFinite } else { Vals::Moderate };
    let tr = gen_traffic(rng, n, v, false, &[0.1, 0.4, 0.8]);
    let (pr, pu) = *rng.pick(&[(0.0, 0.0), (0.15, 0.1), (0.4, 0.3)]);
    tr.ops.into_iter().map(|ops| { let (reject, upd_err) = gen_inner(rng, pr, pu); SetRound { ops, reject, upd_err } }).collect()
}
fn run_act(rep: &mut Report, sub: &'static str, case: u64, rounds: &[SetRound], observe: Option<(bool, bool)>, follow: Option<&[FollowRound]>, writes: Option<&[Vec<WriteOp>]>) {
    let ext: Term<'_> = Terminal::new();
    let rec = rc(RecSettable::<TerminalData>::new());
    let probe = if observe.is_some() || writes.is_some() { Some(rc(Probe::new())) } else { None };
    let mut w = ActuatorWrapper::new(Shared::new(rec.clone(), probe.clone()));
    let term = w.get_terminal();
    if let (Some(p), Some((own, other))) = (&probe, observe) {
        let mut p = p.borrow_mut();
        p.own = if own { Some(term) } else { None };
        p.ext = if other { Some(&ext) } else { None };
    }
    if let (Some(p), Some(_)) = (&probe, writes) {
        let mut p = p.borrow_mut();
        p.w_own = Some(term);
        p.w_ext = Some(&ext);
    }
    let mut slots = Slots::default();
    let mut followed = follow.map(|_| Followed::attach(term));
    let mut fseq: Vec<(u8, u8)> = Vec::new();
    let mut seq: Vec<(u8, u8)> = Vec::with_capacity(rounds.len());
    let hist = || format!("inner object holds (own terminal, external terminal) = {:?}; own terminal follows getters: {:?}; inner object writes: {:?}; rounds={:?}", observe, follow, writes, rounds);
    for (i, r) in rounds.iter().enumerate() {
        apply(&r.ops, term, &ext);
        slots.note(&r.ops);
        // following stratum: what the own terminal will have pulled in at the start of the update
        let mut pulled: Option<Slots> = None;
        if let (Some(fw), Some(fr)) = (followed.as_mut(), follow) {
            fw.deliver(rep, "actuator", &fr[i], &slots);
            fseq.push((fr[i].s.kind(), fr[i].c.kind()));
            pulled = Some(fw.after_pull(&slots));
        }
        {
            let mut m = rec.borrow_mut();
            m.reject = r.reject.is_some();
            m.reject_with = r.reject.unwrap_or(9);
            m.update_err = r.upd_err;
        }
        let exp_views = if observe.is_some() { expected_views(term, &ext, &slots) } else { None };
        let o0p = probe.as_ref().map(|p| p.borrow().log.len()).unwrap_or(0);
        if let (Some(p), Some(ws)) = (&probe, writes) {
            let mut p = p.borrow_mut();
            p.script = ws[i].clone();
            p.done = vec![false; ws[i].len()];
            p.wlog.clear();
        }
        let pre_pull = read_td(term);
        let before = match if let Some(n) = &pulled { scratch_read(n) } else { pre_pull.clone() } {
            Ok(Ok(b)) => b,
            other => {
                // not this property's business (C03/C09), but nothing can be judged without it
                rep.tally("actuator_terminal_read_failed(not_judged)");
                if rep.verbose {
                    eprintln!("terminal read failed: {:?}", other);
                }
                return;
            }
        };
        // ---- (m) what the terminal sees, against the monitor's own model of the slots it wrote
        if let Some(n) = pulled {
            if let Ok(Ok(p)) = &pre_pull {
                if !out_same(&Ok(*p), &Ok(before), td_same) {
                    rep.tally("actuator_follow_pull_changes_what_terminal_sees");
                }
            }
            slots = n;
        }
        if !check_sees(rep, "actuator", sub, case, i, &before, &slots, &hist) {
            return;
        }
        let (l0, o0) = {
            let m = rec.borrow();
            (m.log.len(), m.order.len())
        };
        let res = catch(|| w.update());
        let (sets, order): (Vec<(TerminalData, bool)>, String) = {
            let m = rec.borrow();
            (m.log[l0..].to_vec(), m.order[o0..].iter().collect())
        };
        let (sk, ik) = (seen_kind(&before), inner_kind(r.reject, r.upd_err));
        seq.push((sk, ik));
        rep.tally(&format!("actuator_round/sees={}/inner={}", SEEN[sk as usize], INNER[ik as usize]));
        if rep.verbose {
            eprintln!("round {}: sees {:?}; update -> {:?}; sets {:?}; order {:?}", i, before, res, sets, order);
        }
        // ---- (o) observing inner object: its reads of the terminals neither panic nor differ from
        // what the terminals showed immediately before the update (judged before anything else so that
        // a panic inside the inner object is attributed to the read that caused it)
        if let (Some(p), Some(_)) = (&probe, observe) {
            let obs: Vec<Obs> = p.borrow().log[o0p..].to_vec();
            if rep.verbose {
                eprintln!("round {}: inner object observed {:?}", i, obs);
            }
            match &exp_views {
                Some(e) => {
                    if !judge_obs(rep, "actuator", sub, case, i, &obs, e, |_, _| true, &hist) {
                        return;
                    }
                }
                None => rep.tally("actuator_monitor_pre_read_failed(not_judged)"),
            }
        }
        // ---- (w) writing inner object: its writes neither panic nor get lost; they enter the model
        if let (Some(p), Some(ws)) = (&probe, writes) {
            let wlog: Vec<WriteRec> = p.borrow().wlog.clone();
            if rep.verbose {
                eprintln!("round {}: inner object wrote {:?}", i, wlog);
            }
            if !judge_writes(rep, "actuator", sub, case, i, &ws[i], &wlog, &mut slots, &hist) {
                return;
            }
            if res.is_ok() && !check_slots(rep, "actuator", sub, case, i, term, &ext, &slots, true, true, &hist) {
                return;
            }
        }
        let res = match res {
            Ok(r) => r,
            Err(m) => {
                rep.eval();
                rep.violation("C20/actuator/panic", sub, case, format!("round {}: update() panicked: {}; terminal saw {:?}; {}", i, m, before, hist()));
                return;
            }
        };
        // ---- (a) the data handed to the inner settable
        rep.eval();
        match &before {
            Some(d) => {
                // at least one set, and every set of this round carries exactly that data (the statement
                // does not say how many times the data are handed over)
                if !(!sets.is_empty() && sets.iter().all(|x| td_same(&x.0, &d.value))) {
                    rep.violation("C20/actuator/handed-data", sub, case, format!("round {}: terminal saw {:?} but the inner settable received {:?} (expected that data and nothing else); {}", i, d.value, sets, hist()));
                    return;
                }
                rep.tally("actuator_sets_compared");
            }
            None => {
                if !sets.is_empty() {
                    rep.violation("C20/actuator/set-without-data", sub, case, format!("round {}: terminal saw nothing but the inner settable received {:?}; {}", i, sets, hist()));
                    return;
                }
                rep.tally("actuator_rounds_terminal_sees_nothing");
            }
        }
        // ---- (b) "hands ... and then updates it": an inner update follows the (last) set; with no data
        // there is at least one update. Call counts are not part of the statement. After a failing set
        // the statement only promises propagation, so an update is allowed but not required.
        rep.eval();
        let set_failed = before.is_some() && r.reject.is_some();
        let order_ok = match (before.is_some(), set_failed) {
            (true, false) => order.ends_with('u'),
            (true, true) => true,
            (false, _) => order.contains('u'),
        };
        if order != (if before.is_none() { "u" } else if set_failed { "s" } else { "su" }) && !(set_failed && order == "su") {
            rep.tally("actuator_call_sequence_other_than_one_set_one_update(not_judged)");
        }
        if !order_ok {
            rep.violation("C20/actuator/inner-update", sub, case, format!("round {}: inner settable call sequence {:?} (s = set, u = update), terminal saw {:?}, set rejected = {}; {}", i, order, before, set_failed, hist()));
            return;
        }
        // ---- (c) error propagation / no invented errors
        rep.eval();
        let expected = if set_failed { err_of(r.reject) } else { err_of(r.upd_err) };
        if res != expected {
            rep.violation("C20/actuator/error-propagation", sub, case, format!("round {}: update() returned {:?}, expected {:?} (inner set error {:?}, inner update error {:?}, terminal saw {:?}); {}", i, res, expected, r.reject, r.upd_err, before, hist()));
            return;
        }
        if expected.is_err() {
            rep.tally(if set_failed { "actuator_set_errors_propagated" } else { "actuator_update_errors_propagated" });
        }
    }
    rep.distinct((sub, seq, observe, fseq, writes.map(|w| w.iter().map(|r| r.iter().map(|o| (o.site, o.own, matches!(o.d, WDatum::S(..)))).collect::<Vec<_>>()).collect::<Vec<_>>())));
    if rep.want_sample(sub) && rounds.iter().any(|r| r.ops.ext_s.is_some() || r.ops.own_c.is_some()) {
        rep.sample(sub, format!("{} rounds, first 3: {:?}; followed getters, first 3: {:?}", rounds.len(), &rounds[..rounds.len().min(3)], follow.map(|f| &f[..f.len().min(3)])));
    }
}
// ------------------------------------------------------------------------------------------------
// 2. GetterStateDeviceWrapper
// ------------------------------------------------------------------------------------------------
#[derive(Clone, Debug)]
struct EncRound {
    ops: TermOps,
    getter: Ev<[f32; 3]>,
    upd_err: Option<u8>,
}
fn gen_enc_round(rng: &mut Rng, t: i64, v: Vals, p: (f64, f64, f64)) -> (Ev<[f32; 3]>, Option<u8>) {
    let x = rng.unit();
    let getter = if x < p.0 {
        Ev::None
    } else if x < p.0 + p.1 {
        Ev::Err(1 + rng.below(2) as u8)
    } else {
        Ev::Some(t, [val(rng, v), val(rng, v), val(rng, v)])
    };
    (getter, if rng.chance(p.2) { Some(3 + rng.below(2) as u8) } else { None })
}
fn gen_enc(rng: &mut Rng) -> Vec<EncRound> {
    let n = 1 + rng.usize(32);
    let v = if rng.chance(0.5) { Vals::AnyFinite } else { Vals::Moderate };
    let tr = gen_traffic(rng, n, v, false, &[0.1, 0.4]);
    let p = *rng.pick(&[(0.0, 0.0, 0.0), (0.2, 0.1, 0.1), (0.4, 0.25, 0.2)]);
    // the wrapper only copies the getter's stamp: a third of the histories use stamps from every
    // magnitude stratum in any order, the others a non-decreasing moderate clock with repeats
    let wild = rng.chance(0.33);
    let mut t = rng.range_i64(-(1i64 << 39), 1i64 << 39);
    tr.ops
        .into_iter()
        .map(|ops| {
            if !rng.chance(0.25) {
                t += rng.step_ns(1, 10_000_000_000);
            }
            let stamp = if wild { rng.stamp() } else { t };
            let (getter, upd_err) = gen_enc_round(rng, stamp, v, p);
            EncRound { ops, getter, upd_err }
        })
        .collect()
}
fn run_enc(rep: &mut Report, sub: &'static str, case: u64, rounds: &[EncRound], observe: Option<(bool, bool)>, follow: Option<&[FollowRound]>, writes: Option<&[Vec<WriteOp>]>) {
    let ext: Term<'_> = Terminal::new();
    let gs = rc(GState { cur: Ok(None), next: Ok(None), upd_err: None, updates: 0, gets: 0 });
    let probe = if observe.is_some() || writes.is_some() { Some(rc(Probe::new())) } else { None };
    let mut w = GetterStateDeviceWrapper::new(SGetter(gs.clone(), probe.clone()));
    let term = w.get_terminal();
    if let (Some(p), Some((own, other))) = (&probe, observe) {
        let mut p = p.borrow_mut();
        p.own = if own { Some(term) } else { None };
        p.ext = if other { Some(&ext) } else { None };
    }
    if let (Some(p), Some(_)) = (&probe, writes) {
        let mut p = p.borrow_mut();
        p.w_own = Some(term);
        p.w_ext = Some(&ext);
    }
    let mut slots = Slots::default();
    let mut followed = follow.map(|_| Followed::attach(term));
    let mut fseq: Vec<(u8, u8)> = Vec::new();
    let mut seq: Vec<(u8, bool, bool)> = Vec::with_capacity(rounds.len());
    let hist = || format!("inner object holds (own terminal, external terminal) = {:?}; own terminal follows getters: {:?}; inner object writes: {:?}; rounds={:?}", observe, follow, writes, rounds);
    for (i, r) in rounds.iter().enumerate() {
        apply(&r.ops, term, &ext);
        slots.note(&r.ops);
        if let (Some(fw), Some(fr)) = (followed.as_mut(), follow) {
            fw.deliver(rep, "encoder", &fr[i], &slots);
            fseq.push((fr[i].s.kind(), fr[i].c.kind()));
        }
        let (fol_s, fol_c) = followed.as_ref().map(|f| (f.cur_s, f.cur_c)).unwrap_or((None, None));
        let exp_views = if observe.is_some() { expected_views(term, &ext, &slots) } else { None };
        let o0p = probe.as_ref().map(|p| p.borrow().log.len()).unwrap_or(0);
        if let (Some(p), Some(ws)) = (&probe, writes) {
            let mut p = p.borrow_mut();
            p.script = ws[i].clone();
            p.done = vec![false; ws[i].len()];
            p.wlog.clear();
        }
        let present: Out<State> = match &r.getter {
            Ev::Some(t, v) => Ok(Some(Datum::new(Time(*t), st(*v)))),
            Ev::None => Ok(None),
            Ev::Err(e) => Err(Error::Other(*e)),
        };
        let u0 = {
            let mut g = gs.borrow_mut();
            g.next = present.clone();
            g.upd_err = r.upd_err;
            g.updates
        };
        let (s0, c0) = (own_state(term), own_command(term));
        let res = catch(|| w.update());
        let (s1, c1) = (own_state(term), own_command(term));
        let du = gs.borrow().updates - u0;
        seq.push((r.getter.kind(), r.upd_err.is_some(), s0.is_some()));
        let gk = ["present", "absent", "error", "error"][r.getter.kind() as usize];
        rep.tally(&format!("encoder_round/getter={}/inner_update={}", gk, if r.upd_err.is_some() { "error" } else { "ok" }));
        if rep.verbose {
            eprintln!("round {}: getter {:?} upd_err {:?}; update -> {:?}; own state {:?} -> {:?}; own command {:?} -> {:?}; inner updates {}", i, r.getter, r.upd_err, res, s0, s1, c0, c1, du);
        }
        // ---- (o) observing inner getter: reads made in update() and in the first get() after it
        // causally precede the write of that state, so they must show the terminals as they were
        // immediately before the wrapper's update; every read must be panic-free
        // ---- (w) writing inner getter: its writes neither panic nor get lost; they enter the model.
        // The own STATE slot is judged by (b) below (a present getter state legitimately overwrites an
        // inner write made in update()); the own command slot and the external terminal keep the writes.
        let (mut base_s, mut base_c) = (s0, c0);
        if let (Some(p), Some(ws)) = (&probe, writes) {
            let wlog: Vec<WriteRec> = p.borrow().wlog.clone();
            if rep.verbose {
                eprintln!("round {}: inner object wrote {:?}", i, wlog);
            }
            let (ms, mc) = (slots.own_s, slots.own_c);
            if !judge_writes(rep, "encoder", sub, case, i, &ws[i], &wlog, &mut slots, &hist) {
                return;
            }
            // an own slot the inner object wrote to now holds that datum instead of its old content
            if wlog.iter().any(|w| ws[i][w.idx].own && matches!(ws[i][w.idx].d, WDatum::S(..))) {
                base_s = slots.own_s;
            } else {
                slots.own_s = ms;
            }
            if wlog.iter().any(|w| ws[i][w.idx].own && matches!(ws[i][w.idx].d, WDatum::C(..))) {
                base_c = slots.own_c;
            } else {
                slots.own_c = mc;
            }
            let wrote_own_c = wlog.iter().any(|w| ws[i][w.idx].own && matches!(ws[i][w.idx].d, WDatum::C(..)));
            if res.is_ok() && !check_slots(rep, "encoder", sub, case, i, term, &ext, &slots, false, wrote_own_c, &hist) {
                return;
            }
        }
        if let (Some(p), Some(_)) = (&probe, observe) {
            let obs: Vec<Obs> = p.borrow().log[o0p..].to_vec();
            if rep.verbose {
                eprintln!("round {}: inner object observed {:?}", i, obs);
            }
            let first_get = obs.iter().position(|o| o.site == 'g');
            match &exp_views {
                Some(e) => {
                    if !judge_obs(rep, "encoder", sub, case, i, &obs, e, |k, o| o.site == 'u' && first_get.map(|g| k < g).unwrap_or(true) || Some(k) == first_get, &hist) {
                        return;
                    }
                }
                None => rep.tally("encoder_monitor_pre_read_failed(not_judged)"),
            }
        }
        let res = match res {
            Ok(r) => r,
            Err(m) => {
                rep.eval();
                rep.violation("C20/encoder/panic", sub, case, format!("round {}: update() panicked: {}; {}", i, m, hist()));
                return;
            }
        };
        // ---- (a) the inner getter is updated by every update (how many times is not part of the statement)
        rep.eval();
        if du != 1 {
            rep.tally("encoder_inner_updated_more_or_less_than_once(not_judged_if_more)");
        }
        if du < 1 {
            rep.violation("C20/encoder/inner-update", sub, case, format!("round {}: inner getter updated {} times by one update(); {}", i, du, hist()));
            return;
        }
        // following stratum: whether / when the wrapper lets its terminal pull on a path that writes
        // nothing is not in the statement, so each own slot may hold its old content or the followed datum
        // (writing stratum: "old content" of a slot the inner object wrote to is what it wrote)
        let untouched = (ds_same(&base_s, &s1) || (fol_s.is_some() && ds_same(&fol_s, &s1))) && (dc_same(&base_c, &c1) || (fol_c.is_some() && dc_same(&fol_c, &c1)));
        let (expected, write): (NothingOrError<E>, Option<Datum<State>>) = match (r.upd_err, &present) {
            (Some(e), _) => (Err(Error::Other(e)), None),
            (None, Err(e)) => (Err(*e), None),
            (None, Ok(None)) => (Ok(()), None),
            (None, Ok(Some(d))) => (Ok(()), Some(*d)),
        };
        // ---- (b) terminal contents
        rep.eval();
        match write {
            Some(d) => {
                if !ds_same(&s1, &Some(d)) {
                    rep.violation("C20/encoder/state-altered", sub, case, format!("round {}: getter's present state is {:?} but the terminal's state slot holds {:?} (before the update: {:?}); {}", i, d, s1, s0, hist()));
                    return;
                }
                rep.tally("encoder_states_compared");
                slots.own_s = Some(d);
                if let Some(fd) = fol_s {
                    if !ds_same(&Some(fd), &Some(d)) {
                        rep.tally("encoder_follow_getter_state_written_not_followed_state");
                    }
                }
                if !dc_same(&c0, &c1) {
                    rep.tally("encoder_command_slot_changed_while_writing_state(not_judged)");
                }
            }
            None => {
                if !untouched {
                    let which = if r.upd_err.is_some() { "update-error" } else if present.is_err() { "get-error" } else { "absent" };
                    rep.violation(&format!("C20/encoder/terminal-touched/{}", which), sub, case, format!("round {}: getter {:?}, inner update error {:?}: terminal own slots changed from ({:?}, {:?}) to ({:?}, {:?}); {}", i, r.getter, r.upd_err, base_s, base_c, s1, c1, hist()));
                    return;
                }
                rep.tally(if expected.is_err() { "encoder_untouched_on_error" } else { "encoder_untouched_on_absent" });
                if fol_s.is_some() || fol_c.is_some() {
                    rep.tally(if ds_same(&s0, &s1) && dc_same(&c0, &c1) { "encoder_follow_nothing_written/slots_as_before_or_equal" } else { "encoder_follow_nothing_written/followed_data_pulled(not_judged)" });
                }
            }
        }
        if followed.is_some() {
            // the model of the own slots follows the read-back here (pull not predicted on every path)
            slots.own_s = s1;
            slots.own_c = c1;
        }
        // ---- (c) error propagation / no invented errors
        rep.eval();
        if res != expected {
            rep.violation("C20/encoder/error-propagation", sub, case, format!("round {}: update() returned {:?}, expected {:?} (getter {:?}, inner update error {:?}); {}", i, res, expected, r.getter, r.upd_err, hist()));
            return;
        }
        if expected.is_err() {
            rep.tally(if r.upd_err.is_some() { "encoder_update_errors_propagated" } else { "encoder_get_errors_propagated" });
        }
    }
    rep.distinct((sub, seq, observe, fseq, writes.map(|w| w.iter().map(|r| r.iter().map(|o| (o.site, o.own, matches!(o.d, WDatum::S(..)))).collect::<Vec<_>>()).collect::<Vec<_>>())));
    if rep.want_sample(sub) {
        rep.sample(sub, format!("{} rounds, first 3: {:?}; followed getters, first 3: {:?}", rounds.len(), &rounds[..rounds.len().min(3)], follow.map(|f| &f[..f.len().min(3)])));
    }
}
// ------------------------------------------------------------------------------------------------
// 3. PIDWrapper
// ------------------------------------------------------------------------------------------------
#[derive(Clone, Debug)]
struct PidCase {
    t0: i64,
    s0: [f32; 3],
    c0: Command,
    gains: [[f32; 3]; 3],
    strict: bool,
    rounds: Vec<SetRound>,
}
fn kvals(g: &[[f32; 3]; 3]) -> PositionDerivativeDependentPIDKValues {
    PositionDerivativeDependentPIDKValues::new(
        PIDKValues::new(g[0][0], g[0][1], g[0][2]),
        PIDKValues::new(g[1][0], g[1][1], g[1][2]),
        PIDKValues::new(g[2][0], g[2][1], g[2][2]),
    )
}
fn gen_pid(rng: &mut Rng) -> PidCase {
    let n = 1 + rng.usize(32);
    let strict = rng.chance(0.6);
    let tr = gen_traffic(rng, n, Vals::Moderate, strict, &[0.0, 0.05, 0.2, 0.5]);
    let (pr, pu) = *rng.pick(&[(0.0, 0.0), (0.0, 0.0), (0.15, 0.1), (0.4, 0.3)]);
    let rounds = tr.ops.into_iter().map(|ops| { let (reject, upd_err) = gen_inner(rng, pr, pu); SetRound { ops, reject, upd_err } }).collect();
    let g = |rng: &mut Rng| [rng.moderate(1e2), rng.moderate(1e1), rng.moderate(1e1)];
    PidCase {
        t0: rng.range_i64(-(1i64 << 39), 1i64 << 39),
        s0: [rng.moderate(1e3), rng.moderate(1e3), rng.moderate(1e3)],
        c0: gen_cmd(rng, Vals::Moderate),
        gains: [g(rng), g(rng), g(rng)],
        strict: tr.strict,
        rounds,
    }
}
fn run_pid(rep: &mut Report, sub: &'static str, case: u64, c: &PidCase, observe: Option<(bool, bool)>, follow: Option<&[FollowRound]>, writes: Option<&[Vec<WriteOp>]>) {
    let hist = || format!("inner object holds (own terminal, external terminal) = {:?}; own terminal follows getters: {:?}; inner object writes: {:?}; case={:?}", observe, follow, writes, c);
    let ext: Term<'_> = Terminal::new();
    let rec = rc(RecSettable::<f32>::new());
    let probe = if observe.is_some() || writes.is_some() { Some(rc(Probe::new())) } else { None };
    let built = catch(|| PIDWrapper::new(Shared::new(rec.clone(), probe.clone()), Time(c.t0), st(c.s0), c.c0, kvals(&c.gains)));
    let mut w = match built {
        Ok(w) => w,
        Err(m) => {
            rep.eval();
            rep.violation("C20/pid/panic", sub, case, format!("PIDWrapper::new panicked: {}; {}", m, hist()));
            return;
        }
    };
    let term = w.get_terminal();
    if let (Some(p), Some((own, other))) = (&probe, observe) {
        let mut p = p.borrow_mut();
        p.own = if own { Some(term) } else { None };
        p.ext = if other { Some(&ext) } else { None };
    }
    if let (Some(p), Some(_)) = (&probe, writes) {
        let mut p = p.borrow_mut();
        p.w_own = Some(term);
        p.w_ext = Some(&ext);
    }
    let mut slots = Slots::default();
    let mut followed = follow.map(|_| Followed::attach(term));
    let mut fseq: Vec<(u8, u8)> = Vec::new();
    // ---- the twin: a stand-alone CommandPID wired as the wrapper documents
    let time = rc(Time(c.t0));
    let time_ref: Reference<Time> = Reference::from_rc_ref_cell(time.clone());
    let state = rc(ConstantGetter::<State, Time, E>::new(time_ref.clone(), st(c.s0)));
    let command = rc(ConstantGetter::<Command, Time, E>::new(time_ref.clone(), c.c0));
    let mut twin = CommandPID::new(Reference::from_rc_ref_cell(state.clone()), c.c0, kvals(&c.gains));
    let cmd_dyn: Rc<RefCell<dyn Getter<Command, E>>> = command.clone();
    twin.follow(Reference::from_rc_ref_cell(cmd_dyn));
    let mut seq: Vec<(u8, u8, u8)> = Vec::with_capacity(c.rounds.len());
    let mut cmd_in_force = c.c0;
    for (i, r) in c.rounds.iter().enumerate() {
        apply(&r.ops, term, &ext);
        slots.note(&r.ops);
        // following stratum: what the own terminal will have pulled in at the start of the update
        let mut pulled: Option<Slots> = None;
        if let (Some(fw), Some(fr)) = (followed.as_mut(), follow) {
            fw.deliver(rep, "pid", &fr[i], &slots);
            fseq.push((fr[i].s.kind(), fr[i].c.kind()));
            pulled = Some(fw.after_pull(&slots));
        }
        {
            let mut m = rec.borrow_mut();
            m.reject = r.reject.is_some();
            m.reject_with = r.reject.unwrap_or(9);
            m.update_err = r.upd_err;
        }
        let exp_views = if observe.is_some() { expected_views(term, &ext, &slots) } else { None };
        let o0p = probe.as_ref().map(|p| p.borrow().log.len()).unwrap_or(0);
        if let (Some(p), Some(ws)) = (&probe, writes) {
            let mut p = p.borrow_mut();
            p.script = ws[i].clone();
            p.done = vec![false; ws[i].len()];
            p.wlog.clear();
        }
        let pre_pull = read_td(term);
        let before = match if let Some(n) = &pulled { scratch_read(n) } else { pre_pull.clone() } {
            Ok(Ok(b)) => b,
            _ => {
                rep.tally("pid_terminal_read_failed(not_judged)");
                return;
            }
        };
        if let Some(n) = pulled {
            if let Ok(Ok(p)) = &pre_pull {
                if !out_same(&Ok(*p), &Ok(before), td_same) {
                    rep.tally("pid_follow_pull_changes_what_terminal_sees");
                }
            }
            slots = n;
        }
        // ---- (m) what the terminal sees, against the monitor's own model of the slots it wrote
        if !check_sees(rep, "pid", sub, case, i, &before, &slots, &hist) {
            return;
        }
        // feed the twin the same time / state / command
        let twin_res: Result<NothingOrError<E>, String> = match &before {
            Some(d) => {
                *time.borrow_mut() = d.value.time;
                if let Some(s) = d.value.state {
                    let _ = state.borrow_mut().set(s);
                }
                if let Some(cm) = d.value.command {
                    let _ = command.borrow_mut().set(cm);
                    if cm != cmd_in_force {
                        cmd_in_force = cm;
                        rep.tally("pid_command_changes");
                    }
                }
                catch(|| twin.update())
            }
            None => Ok(Ok(())),
        };
        let (l0, o0) = {
            let m = rec.borrow();
            (m.log.len(), m.order.len())
        };
        let res = catch(|| w.update());
        let (sets, order): (Vec<(f32, bool)>, String) = {
            let m = rec.borrow();
            (m.log[l0..].to_vec(), m.order[o0..].iter().collect())
        };
        let (sk, ik) = (seen_kind(&before), inner_kind(r.reject, r.upd_err));
        rep.tally(&format!("pid_round/sees={}/motor={}", SEEN[sk as usize], INNER[ik as usize]));
        let twin_res = match twin_res {
            Ok(t) => t,
            Err(m) => {
                // the stand-alone PID itself cannot digest this input: nothing to compare against
                rep.tally("pid_twin_panicked(not_judged)");
                if rep.verbose {
                    eprintln!("twin panicked at round {}: {}", i, m);
                }
                return;
            }
        };
        let twin_out = twin.get();
        if rep.verbose {
            eprintln!("round {}: sees {:?}; twin update {:?} get {:?}; wrapper update -> {:?}; motor sets {:?} order {:?}", i, before, twin_res, twin_out, res, sets, order);
        }
        // ---- (o) observing motor: its reads of the terminals (in update() and in the impl_set its
        // following triggers) neither panic nor differ from what the terminals showed before the update
        if let (Some(p), Some(_)) = (&probe, observe) {
            let obs: Vec<Obs> = p.borrow().log[o0p..].to_vec();
            if rep.verbose {
                eprintln!("round {}: inner object observed {:?}", i, obs);
            }
            match &exp_views {
                Some(e) => {
                    if !judge_obs(rep, "pid", sub, case, i, &obs, e, |_, _| true, &hist) {
                        return;
                    }
                }
                None => rep.tally("pid_monitor_pre_read_failed(not_judged)"),
            }
        }
        // ---- (w) writing motor: its writes neither panic nor get lost; they enter the model
        if let (Some(p), Some(ws)) = (&probe, writes) {
            let wlog: Vec<WriteRec> = p.borrow().wlog.clone();
            if rep.verbose {
                eprintln!("round {}: inner object wrote {:?}", i, wlog);
            }
            if !judge_writes(rep, "pid", sub, case, i, &ws[i], &wlog, &mut slots, &hist) {
                return;
            }
            if res.is_ok() && !check_slots(rep, "pid", sub, case, i, term, &ext, &slots, true, true, &hist) {
                return;
            }
        }
        let res = match res {
            Ok(r) => r,
            Err(m) => {
                rep.eval();
                rep.violation("C20/pid/panic", sub, case, format!("round {}: update() panicked: {} (the stand-alone CommandPID did not); terminal saw {:?}; {}", i, m, before, hist()));
                return;
            }
        };
        // what a motor following the twin would have received, and the resulting outcome
        let (exp_sets, expected): (Option<Vec<(f32, bool)>>, NothingOrError<E>) = match (twin_res, &twin_out) {
            (Err(e), _) => (None, Err(e)),
            (Ok(()), Err(e)) => (Some(vec![]), Err(*e)),
            (Ok(()), Ok(None)) => (Some(vec![]), err_of(r.upd_err)),
            (Ok(()), Ok(Some(d))) => (Some(vec![(d.value, r.reject.is_none())]), if r.reject.is_some() { err_of(r.reject) } else { err_of(r.upd_err) }),
        };
        seq.push((sk, ik, match &twin_out { Ok(Some(d)) => 1 + d.value.is_finite() as u8, _ => 0 }));
        // ---- (a) motor values
        if let Some(exp_sets) = &exp_sets {
            rep.eval();
            // twin output present: the motor is set at least once and every set of this round carries
            // exactly that value; absent: the motor is not set. (Neither the call path — following vs a
            // direct set — nor the number of sets is part of the statement.)
            let ok = match exp_sets.first() {
                Some(b) => !sets.is_empty() && sets.iter().all(|a| same(a.0, b.0) && a.1 == b.1),
                None => sets.is_empty(),
            };
            if !ok {
                rep.violation("C20/pid/motor-value", sub, case, format!("round {}: motor received {:?}, a motor following a stand-alone CommandPID fed the same data receives {:?} (terminal saw {:?}); {}", i, sets.iter().map(|s| f(s.0)).collect::<Vec<_>>(), exp_sets.iter().map(|s| f(s.0)).collect::<Vec<_>>(), before, hist()));
                return;
            }
            match exp_sets.first() {
                Some((v, _)) => {
                    rep.tally(if v.is_finite() { "pid_motor_sets_compared_finite" } else { "pid_motor_sets_compared_nonfinite" });
                    rep.tally(["pid_motor_set_under_position_command", "pid_motor_set_under_velocity_command", "pid_motor_set_under_acceleration_command"][pd_idx(cmd_in_force)]);
                }
                None => rep.tally("pid_rounds_no_motor_value"),
            }
            // ---- (b) the motor is updated at least once per wrapper update (otherwise its errors could
            // not be propagated). The statement fixes neither how often, nor whether before or after the
            // set; after a rejected set only propagation is promised, so no update is required then.
            rep.eval();
            let set_failed = !exp_sets.is_empty() && r.reject.is_some();
            if !set_failed && !order.contains('u') {
                rep.violation("C20/pid/motor-update", sub, case, format!("round {}: the motor was not updated during the wrapper's update() (motor call sequence {:?}, u = update, s = set); {}", i, order, hist()));
                return;
            }
            if order != (if exp_sets.is_empty() { "u" } else { "us" }) {
                rep.tally("pid_motor_call_sequence_other_than_follow_in_update(not_judged)");
            }
        }
        // ---- (c) errors
        rep.eval();
        if res != expected {
            rep.violation("C20/pid/error-propagation", sub, case, format!("round {}: update() returned {:?}, expected {:?} (motor set error {:?}, motor update error {:?}, twin output {:?}); {}", i, res, expected, r.reject, r.upd_err, twin_out, hist()));
            return;
        }
        if expected.is_err() {
            rep.tally("pid_motor_errors_propagated");
        }
    }
    rep.distinct((sub, seq, c.strict, observe, fseq, writes.map(|w| w.iter().map(|r| r.iter().map(|o| (o.site, o.own, matches!(o.d, WDatum::S(..)))).collect::<Vec<_>>()).collect::<Vec<_>>())));
    if rep.want_sample(sub) {
        rep.sample(sub, format!("t0={} s0={:?} c0={:?} gains={:?} strict={} {} rounds, first 3: {:?}", c.t0, c.s0, c.c0, c.gains, c.strict, c.rounds.len(), &c.rounds[..c.rounds.len().min(3)]));
    }
}
// ------------------------------------------------------------------------------------------------
fn main() {
    let args = Args::parse();
    let mut rep = Report::new("C20", &args);
    // ---- 1a. actuator: every single-round configuration of what the terminal can see x inner outcome
    {
        let mut idx = 0u64;
        for mask in 0..32u32 {
            for rel in 0..3u32 {
                for inner in 0..4u32 {
                    let case = idx;
                    idx += 1;
                    if !args.mine("act-grid", case) {
                        continue;
                    }
                    let mut rng = Rng::new(args.seed, 2001, case);
                    let t = rng.range_i64(-(1i64 << 39), 1i64 << 39);
                    let d = rng.step_ns(1, 10_000_000_000);
                    // rel: stamps of the wrapper-side data relative to the partner-side data
                    let (t_own, t_ext) = match rel { 0 => (t, t), 1 => (t + d, t), _ => (t, t + d) };
                    let mut s = || [rng.moderate(1e3), rng.moderate(1e3), rng.moderate(1e3)];
                    let (s1, s2) = (s(), s());
                    let (c1, c2) = (gen_cmd(&mut rng, Vals::Moderate), gen_cmd(&mut rng, Vals::Moderate));
                    let ops = TermOps {
                        link: if mask & 16 != 0 { 1 + rng.below(2) as u8 } else { 0 },
                        own_s: if mask & 1 != 0 { Some((t_own, s1)) } else { None },
                        own_c: if mask & 2 != 0 { Some((t_own, c1)) } else { None },
                        ext_s: if mask & 4 != 0 { Some((t_ext, s2)) } else { None },
                        ext_c: if mask & 8 != 0 { Some((t_ext, c2)) } else { None },
                    };
                    let r = SetRound { ops, reject: if inner & 1 != 0 { Some(5) } else { None }, upd_err: if inner & 2 != 0 { Some(7) } else { None } };
                    // second round: same terminal contents, inner object healthy again
                    let r2 = SetRound { ops: TermOps::default(), reject: None, upd_err: None };
                    run_act(&mut rep, "act-grid", case, &[r, r2], None, None, None);
                }
            }
        }
        rep.exhaustive("actuator wrapper, one round: {own state, own command, partner state, partner command} present/absent x linked/unlinked x stamp order {equal, own newer, partner newer} x inner {accept, reject, update error, both} (384 configurations), each followed by a healthy round");
    }
    // ---- 1b. actuator: random histories
    for case in args.cases("actuator", 60_000, 3_000_000) {
        let mut rng = Rng::new(args.seed, 2002, case);
        let rounds = gen_act(&mut rng);
        run_act(&mut rep, "actuator", case, &rounds, None, None, None);
    }
    // ---- 1c. actuator with an inner settable that reads the terminals from inside set / update
    for case in args.cases("act-observing", 20_000, 400_000) {
        let mut rng = Rng::new(args.seed, 2006, case);
        let rounds = gen_act(&mut rng);
        let h = gen_handles(&mut rng);
        run_act(&mut rep, "act-observing", case, &rounds, Some(h), None, None);
    }
    // ---- 2a. encoder: every single-round configuration
    {
        let mut idx = 0u64;
        for gk in 0..4u32 {
            for ue in 0..2u32 {
                for mask in 0..8u32 {
                    let case = idx;
                    idx += 1;
                    if !args.mine("enc-grid", case) {
                        continue;
                    }
                    let mut rng = Rng::new(args.seed, 2003, case);
                    let t = rng.range_i64(-(1i64 << 39), 1i64 << 39);
                    let mut s = || [rng.moderate(1e3), rng.moderate(1e3), rng.moderate(1e3)];
                    let (s1, s2, s3, s4) = (s(), s(), s(), s());
                    let cm = gen_cmd(&mut rng, Vals::Moderate);
                    let ops = TermOps {
                        link: if mask & 4 != 0 { 1 } else { 0 },
                        own_s: if mask & 1 != 0 { Some((t, s1)) } else { None },
                        own_c: if mask & 2 != 0 { Some((t, cm)) } else { None },
                        ext_s: if mask & 4 != 0 { Some((t, s2)) } else { None },
                        ext_c: None,
                    };
                    let getter = match gk { 0 => Ev::Some(t + 1, s3), 1 => Ev::None, 2 => Ev::Err(1), _ => Ev::Err(2) };
                    let r = EncRound { ops, getter, upd_err: if ue != 0 { Some(3) } else { None } };
                    let r2 = EncRound { ops: TermOps::default(), getter: Ev::Some(t + 2, s4), upd_err: None };
                    let r3 = EncRound { ops: TermOps::default(), getter: Ev::None, upd_err: None };
                    run_enc(&mut rep, "enc-grid", case, &[r, r2, r3], None, None, None);
                }
            }
        }
        rep.exhaustive("encoder wrapper, one round: getter {present, absent, error 1, error 2} x inner update {ok, error} x own state slot {empty, filled} x own command slot {empty, filled} x {unlinked, linked to a partner holding a state} (64 configurations), each followed by a present and an absent round");
    }
    // ---- 2b. encoder: random histories
    for case in args.cases("encoder", 60_000, 3_000_000) {
        let mut rng = Rng::new(args.seed, 2004, case);
        let rounds = gen_enc(&mut rng);
        run_enc(&mut rep, "encoder", case, &rounds, None, None, None);
    }
    // ---- 2c. encoder with an inner getter that reads the terminals from inside update / get
    for case in args.cases("enc-observing", 20_000, 400_000) {
        let mut rng = Rng::new(args.seed, 2007, case);
        let rounds = gen_enc(&mut rng);
        let h = gen_handles(&mut rng);
        run_enc(&mut rep, "enc-observing", case, &rounds, Some(h), None, None);
    }
    // ---- 3. PID wrapper vs twin CommandPID
    for case in args.cases("pid", 60_000, 3_000_000) {
        let mut rng = Rng::new(args.seed, 2005, case);
        let c = gen_pid(&mut rng);
        run_pid(&mut rep, "pid", case, &c, None, None, None);
    }
    // ---- 3b. PID wrapper with a motor that reads the terminals from inside update / set
    for case in args.cases("pid-observing", 20_000, 400_000) {
        let mut rng = Rng::new(args.seed, 2008, case);
        let c = gen_pid(&mut rng);
        let h = gen_handles(&mut rng);
        run_pid(&mut rep, "pid-observing", case, &c, Some(h), None, None);
    }
    // ---- 4. following stratum: the wrapper's own terminal receives data through followed getters
    for case in args.cases("act-following", 20_000, 400_000) {
        let mut rng = Rng::new(args.seed, 2009, case);
        let rounds = gen_act(&mut rng);
        let ops: Vec<TermOps> = rounds.iter().map(|r| r.ops).collect();
        let fl = gen_follow(&mut rng, &ops, Vals::Moderate);
        run_act(&mut rep, "act-following", case, &rounds, None, Some(&fl), None);
    }
    for case in args.cases("enc-following", 20_000, 400_000) {
        let mut rng = Rng::new(args.seed, 2010, case);
        let rounds = gen_enc(&mut rng);
        let ops: Vec<TermOps> = rounds.iter().map(|r| r.ops).collect();
        let fl = gen_follow(&mut rng, &ops, Vals::Moderate);
        run_enc(&mut rep, "enc-following", case, &rounds, None, Some(&fl), None);
    }
    for case in args.cases("pid-following", 20_000, 400_000) {
        let mut rng = Rng::new(args.seed, 2011, case);
        let c = gen_pid(&mut rng);
        let ops: Vec<TermOps> = c.rounds.iter().map(|r| r.ops).collect();
        let fl = gen_follow(&mut rng, &ops, Vals::Moderate);
        run_pid(&mut rep, "pid-following", case, &c, None, Some(&fl), None);
    }
    // ---- 5. writing stratum: the inner object writes to the terminals from inside its methods
    for case in args.cases("act-writing", 20_000, 400_000) {
        let mut rng = Rng::new(args.seed, 2012, case);
        let rounds = gen_act(&mut rng);
        let ops: Vec<TermOps> = rounds.iter().map(|r| r.ops).collect();
        let ws = gen_writes(&mut rng, &ops, Vals::Moderate, &SETTABLE_WRITE_SITES);
        run_act(&mut rep, "act-writing", case, &rounds, None, None, Some(&ws));
    }
    for case in args.cases("enc-writing", 20_000, 400_000) {
        let mut rng = Rng::new(args.seed, 2013, case);
        let rounds = gen_enc(&mut rng);
        let ops: Vec<TermOps> = rounds.iter().map(|r| r.ops).collect();
        let ws = gen_writes(&mut rng, &ops, Vals::Moderate, &GETTER_WRITE_SITES);
        run_enc(&mut rep, "enc-writing", case, &rounds, None, None, Some(&ws));
    }
    for case in args.cases("pid-writing", 20_000, 400_000) {
        let mut rng = Rng::new(args.seed, 2014, case);
        let c = gen_pid(&mut rng);
        let ops: Vec<TermOps> = c.rounds.iter().map(|r| r.ops).collect();
        let ws = gen_writes(&mut rng, &ops, Vals::Moderate, &SETTABLE_WRITE_SITES);
        run_pid(&mut rep, "pid-writing", case, &c, None, None, Some(&ws));
    }
    // coverage the verdict depends on (merged over shards; thorough budgets are 50x larger)
    let k = if args.thorough { 200 } else { 10 };
    rep.floor("actuator_sets_compared", 20_000 * k);
    rep.floor("actuator_rounds_terminal_sees_nothing", 2_000 * k);
    rep.floor("actuator_set_errors_propagated", 1_000 * k);
    rep.floor("actuator_update_errors_propagated", 1_000 * k);
    rep.floor("encoder_states_compared", 20_000 * k);
    rep.floor("encoder_untouched_on_absent", 3_000 * k);
    rep.floor("encoder_untouched_on_error", 3_000 * k);
    rep.floor("encoder_update_errors_propagated", 1_000 * k);
    rep.floor("encoder_get_errors_propagated", 1_000 * k);
    rep.floor("pid_motor_sets_compared_finite", 20_000 * k);
    rep.floor("pid_motor_set_under_position_command", 3_000 * k);
    rep.floor("pid_motor_set_under_velocity_command", 3_000 * k);
    rep.floor("pid_motor_set_under_acceleration_command", 2_000 * k);
    rep.floor("pid_rounds_no_motor_value", 2_000 * k);
    rep.floor("pid_command_changes", 2_000 * k);
    rep.floor("pid_motor_errors_propagated", 1_000 * k);
    // observing-inner-object stratum (20k / 400k histories per wrapper, i.e. thorough = 20x quick like k; about 4e6 reads compared per wrapper in the quick tier)
    for w in ["actuator", "encoder", "pid"] {
        rep.floor(&format!("{}_inner_reads_compared", w), 100_000 * k);
        rep.floor(&format!("{}_inner_observations/in=update", w), 5_000 * k);
    }
    // writing stratum (20k / 400k histories per wrapper)
    for w in ["actuator", "encoder", "pid"] {
        rep.floor(&format!("{}_slots_after_inner_writes_compared", w), 10_000 * k);
        let other = if w == "encoder" { "get" } else { "impl_set" };
        for t in ["own_state", "own_command", "external_state", "external_command"] {
            rep.floor(&format!("{}_inner_writes/in=update/to={}", w, t), 1_000 * k);
        }
        for t in ["external_state", "external_command"] {
            rep.floor(&format!("{}_inner_writes/in={}/to={}", w, other, t), 1_000 * k);
        }
    }
    // following stratum (20k / 400k histories per wrapper)
    for w in ["actuator", "pid"] {
        rep.floor(&format!("{}_follow_pull_changes_what_terminal_sees", w), 2_000 * k);
    }
    rep.floor("encoder_follow_getter_state_written_not_followed_state", 2_000 * k);
    for w in ["actuator", "encoder", "pid"] {
        rep.floor(&format!("{}_followed_state_absent", w), 2_000 * k);
        rep.floor(&format!("{}_followed_command_absent", w), 2_000 * k);
        // (encoder: what its own slots hold depends on paths the statement does not fix, so the stamp
        // relations are tallied but carry no floor there)
        if w != "encoder" {
            for r in ["older_than_stored", "same_stamp_as_stored", "newer_than_stored"] {
                rep.floor(&format!("{}_followed_state_present/{}", w, r), 1_000 * k);
                rep.floor(&format!("{}_followed_command_present/{}", w, r), 1_000 * k);
            }
        }
    }
    // independent model of the terminal's combined read
    for w in ["actuator", "pid"] {
        rep.floor(&format!("{}_terminal_sees_compared/nothing", w), 2_000 * k);
        rep.floor(&format!("{}_terminal_sees_compared/single_state", w), 10_000 * k);
        rep.floor(&format!("{}_terminal_sees_compared/mean_state", w), 1_000 * k);
        rep.floor(&format!("{}_terminal_sees_time_compared/command_newer_than_state", w), 1_000 * k);
    }
    rep.floor("terminal_sees_newer_command_selected", 1_000 * k);
    rep.floor("actuator_inner_observations/in=impl_set", 5_000 * k);
    rep.floor("pid_inner_observations/in=impl_set", 5_000 * k);
    rep.floor("encoder_inner_observations/in=get", 5_000 * k);
    rep.finish(&args);
}
