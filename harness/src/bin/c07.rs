//! C07 — the motion profile is a valid trapezoid: +-max_acc or 0, continuous, within limits, reaches
//! the goal, position = integral of velocity, exact negation symmetry, comfortable moves accepted.
use rrtk::*;
use rrtk_mon::mp::*;
use rrtk_mon::*;
struct RefTraj {
    p0: f64, v0: f64, a: f64, t1: f64, t2: f64, t3: f64,
}
impl RefTraj {
    fn vc(&self) -> f64 { self.v0 + self.a * self.t1 }
    fn p1(&self) -> f64 { self.p0 + self.v0 * self.t1 + 0.5 * self.a * self.t1 * self.t1 }
    fn p2(&self) -> f64 { self.p1() + self.vc() * (self.t2 - self.t1) }
    /// (acc, vel, pos, magnitude of velocity terms, magnitude of position terms) at t seconds
    fn at(&self, t: f64) -> (f64, f64, f64, f64, f64) {
        let (a, v0, p0) = (self.a, self.v0, self.p0);
        if t < self.t1 {
            (a, v0 + a * t, p0 + v0 * t + 0.5 * a * t * t, v0.abs() + (a * t).abs(), p0.abs() + (v0 * t).abs() + (0.5 * a * t * t).abs())
        } else if t < self.t2 {
            let vc = self.vc();
            (0.0, vc, self.p1() + vc * (t - self.t1), v0.abs() + (a * self.t1).abs(), p0.abs() + (v0 * t).abs() + (a * self.t1 * t).abs() + (0.5 * a * self.t1 * self.t1).abs())
        } else {
            let vc = self.vc();
            let d = t - self.t2;
            (-a, vc - a * d, self.p2() + vc * d - 0.5 * a * d * d,
             v0.abs() + (a * self.t1).abs() + (a * t).abs() + (a * self.t2).abs(),
             p0.abs() + (v0 * t).abs() + (a * self.t1 * self.t2).abs() + (0.5 * a * self.t1 * self.t1).abs() + (0.5 * a * (t * t + self.t2 * self.t2 + 2.0 * self.t1 * t + 2.0 * self.t1 * self.t2 + 2.0 * t * self.t2)).abs())
        }
    }
}
const K: f64 = 48.0;
fn main() {
    let args = Args::parse();
    let mut rep = Report::new("C07", &args);
    let n_random = args.pick(96, 512) as usize;
    for case in args.cases("profiles", 20_000, 800_000) {
        let mut rng = Rng::new(args.seed, 701, case);
        let c = gen_case(&mut rng, case);
        rep.eval();
        if c.comfortable { rep.tally("comfortable_tried"); }
        let mp = match build(&c) {
            Ok(mp) => mp,
            Err(m) => {
                rep.tally("constructor_panicked");
                if c.comfortable {
                    rep.violation("C07/comfortable-move-rejected", "profiles", case, format!("constructor panicked ({}) although displacement >= 1.05*(accel+decel distance)+1e-3 and speeds are inside the limit; case={:?}", m, c));
                }
                continue;
            }
        };
        if c.comfortable { rep.tally("comfortable_accepted"); }
        rep.tally("accepted");
        if mp.get_piece(Time(1i64 << 62)) != MotionProfilePiece::Complete { continue; } // C06 reports this
        let b = boundaries(&mp);
        if !(0 <= b[0] && b[0] <= b[1] && b[1] <= b[2]) { continue; } // C06 reports this
        let dp = c.end.position as f64 - c.start.position as f64;
        let mut sign = if c.end.position < c.start.position { -1.0f32 } else { 1.0f32 };
        if dp == 0.0 {
            // "the sign of the displacement" is undefined for a zero displacement: either direction is a legitimate
            // tie-break, so take the one the profile itself shows and check everything else against it
            let probe = if b[0] > 0 { mp.get_acceleration(Time(0)).map(|q| q.value) } else if b[2] > b[1] { mp.get_acceleration(Time(b[1])).map(|q| -q.value) } else { None };
            if let Some(x) = probe { if x < 0.0 { sign = -1.0; } else if x > 0.0 { sign = 1.0; } }
            rep.tally("zero_displacement_profiles");
        }
        let a32 = c.max_acc.abs() * sign;
        let r = RefTraj { p0: c.start.position as f64, v0: c.start.velocity as f64, a: a32 as f64, t1: b[0] as f64 / 1e9, t2: b[1] as f64 / 1e9, t3: b[2] as f64 / 1e9 };
        let phases = ((b[0] > 0) as u8) | (((b[1] > b[0]) as u8) << 1) | (((b[2] > b[1]) as u8) << 2);
        rep.distinct((sign > 0.0, phases, (b[2].max(1) as f64).log10() as u32, c.start.velocity > 0.0, c.end.velocity != 0.0, c.comfortable));
        if rep.want_sample("profiles") { rep.sample("profiles", format!("{:?} -> t1..t3={:?}", c, b)); }
        let vlimit = (c.max_vel.abs() as f64).max((c.start.velocity as f64).abs()).max((c.end.velocity as f64).abs());
        let mut ts = query_times(&mut rng, &b, n_random);
        ts.retain(|t| *t >= 0 && *t < b[2]);
        ts.sort();
        ts.dedup();
        let mut bad = false;
        let mut prev: Option<(i64, f32, f32)> = None;
        for &t in &ts {
            let (acc, vel, pos) = match (mp.get_acceleration(Time(t)), mp.get_velocity(Time(t)), mp.get_position(Time(t))) {
                (Some(a), Some(v), Some(p)) => (a.value, v.value, p.value),
                (a, v, p) => {
                    // presence at every instant is C06's clause, but "equals the start velocity / position at t = 0" and the
                    // per-time clauses of this property cannot hold for a value that is not there
                    rep.violation("C07/absent-during-move", "profiles", case, format!("t={} (0 <= t < t3): acceleration {:?} velocity {:?} position {:?}; t1..t3={:?} case={:?}", t, a.map(|q| q.value), v.map(|q| q.value), p.map(|q| q.value), b, c));
                    bad = true; break;
                }
            };
            let ts_ = t as f64 / 1e9;
            let (ea, ev, ep, vm, pm) = r.at(ts_);
            // the crate converts t (i64 ns) to f32 seconds: relative 2^-24 on t, i.e. |v|*t*2^-24 on position
            // ... and stores t1..t3 truncated to whole nanoseconds while cruising at exactly max_vel: against a reference
            // built from the recovered (truncated) boundaries that is a velocity offset of up to |a| x 1 ns per boundary,
            // which persists for the rest of the move (seen on the unchanged tree for a 55 us there-and-back move)
            let vb = K * U * vm + 2.0 * r.a.abs() * 1e-9;
            let pb = K * U * pm + 2.0 * r.a.abs() * 1e-9 * ts_.max(1e-9);
            rep.eval();
            rep.tally(["", "phase1", "phase2", "phase3"][if t < b[0] { 1 } else if t < b[1] { 2 } else { 3 }]);
            if !same(acc, ea as f32) {
                rep.violation("C07/acceleration", "profiles", case, format!("t={}: acceleration {} expected {} (a = sign(dp)*|max_acc|); t1..t3={:?} case={:?}", t, f(acc), ea, b, c));
                bad = true; break;
            }
            let (okv, rv) = within(vel, ev, vb);
            rep.max("velocity_err_over_bound", rv);
            if !okv {
                rep.violation("C07/velocity", "profiles", case, format!("t={}: velocity {} reference {:e} bound {:e}; t1..t3={:?} case={:?}", t, f(vel), ev, vb, b, c));
                bad = true; break;
            }
            let (okp, rp) = within(pos, ep, pb);
            rep.max("position_err_over_bound", rp);
            if !okp {
                rep.violation("C07/position", "profiles", case, format!("t={}: position {} reference {:e} bound {:e}; t1..t3={:?} case={:?}", t, f(pos), ep, pb, b, c));
                bad = true; break;
            }
            if (vel as f64).abs() > vlimit * (1.0 + 64.0 * U) + vb {
                rep.violation("C07/velocity-limit", "profiles", case, format!("t={}: |velocity| {} exceeds max(max_vel,|v_start|,|v_end|) = {}; case={:?}", t, vel, vlimit, c));
                bad = true; break;
            }
            // continuity between adjacent query times 1 ns apart (the phase joins are among them)
            if let Some((pt, pv, pp)) = prev {
                if t - pt <= 2 {
                    rep.tally("adjacent_ns_pairs");
                    let dt = (t - pt) as f64 / 1e9;
                    if ((vel - pv) as f64).abs() > 2.0 * vb + r.a.abs() * dt * 2.0 {
                        rep.violation("C07/velocity-jump", "profiles", case, format!("velocity jumps from {} at t={} to {} at t={}; t1..t3={:?} case={:?}", pv, pt, vel, t, b, c));
                        bad = true; break;
                    }
                    if ((pos - pp) as f64).abs() > 2.0 * pb + vlimit * dt * 2.0 {
                        rep.violation("C07/position-jump", "profiles", case, format!("position jumps from {} at t={} to {} at t={}; t1..t3={:?} case={:?}", pp, pt, pos, t, b, c));
                        bad = true; break;
                    }
                }
            }
            prev = Some((t, vel, pos));
        }
        if bad { continue; }
        // ---- start values (t = 0 is inside the move iff t3 > 0)
        if b[2] > 0 {
            rep.eval();
            let v = mp.get_velocity(Time(0)).map(|q| q.value);
            let p = mp.get_position(Time(0)).map(|q| q.value);
            if v.map(|v| ulp_dist(v, c.start.velocity) > 2).unwrap_or(true) { rep.violation("C07/start-velocity", "profiles", case, format!("v(0)={:?} start velocity {}; case={:?}", v, c.start.velocity, c)); continue; }
            if p.map(|p| ulp_dist(p, c.start.position) > 2).unwrap_or(true) { rep.violation("C07/start-position", "profiles", case, format!("p(0)={:?} start position {}; case={:?}", p, c.start.position, c)); continue; }
        }
        // ---- arrival: the reference trajectory (built from the inputs and the recovered boundaries) must end at the end state
        {
            rep.eval();
            let (_, ev, ep, _, _) = r.at(r.t3);
            // t1..t3 are stored as f32 seconds: the velocity formula a*(t1+t2-t)+v0 carries |a|*t magnitudes
            let mag_v = r.v0.abs() + (r.a * r.t1).abs() + (r.a * r.t2).abs() + (r.a * r.t3).abs() + (c.end.velocity as f64).abs();
            let mag_p = r.p0.abs() + (c.end.position as f64).abs() + (r.v0 * r.t3).abs() + (r.vc() * r.t3).abs() + (r.a * r.t3 * r.t3).abs();
            let (okv, rv) = within(c.end.velocity, ev, 2.0 * K * U * mag_v + r.a.abs() * 2e-9);
            let (okp, rp) = within(c.end.position, ep, K * U * mag_p + vlimit * 4e-9);
            rep.max("arrival_velocity_err_over_bound", rv);
            rep.max("arrival_position_err_over_bound", rp);
            if !okv { rep.violation("C07/arrival-velocity", "profiles", case, format!("velocity at completion {:e} but end velocity {}; t1..t3={:?} case={:?}", ev, c.end.velocity, b, c)); continue; }
            if !okp { rep.violation("C07/arrival-position", "profiles", case, format!("position at completion {:e} but end position {} (bound {:e}); t1..t3={:?} case={:?}", ep, c.end.position, K * U * mag_p, b, c)); continue; }
            // and the accessors just before completion agree with it (already checked against the reference above)
        }
        // ---- position = integral of velocity (accessor vs accessor; Simpson is exact on piecewise-linear v)
        for k in 0..3 {
            let (lo, hi) = (if k == 0 { 0 } else { b[k - 1] }, b[k] - 1);
            if hi - lo < 4 { continue; }
            let n = 64i64;
            let (mut integral, mut mag) = (0.0f64, 0.0f64);
            let h = (hi - lo) as f64 / n as f64;
            for j in 0..=n {
                let t = lo + ((hi - lo) as i128 * j as i128 / n as i128) as i64;
                let v = mp.get_velocity(Time(t)).map(|q| q.value as f64).unwrap_or(f64::NAN);
                let w = if j == 0 || j == n { 1.0 } else if j % 2 == 1 { 4.0 } else { 2.0 };
                integral += w * v;
                mag += w * v.abs();
            }
            integral *= h / 3.0 / 1e9;
            mag *= h / 3.0 / 1e9;
            let dpos = mp.get_position(Time(hi)).map(|q| q.value as f64).unwrap_or(f64::NAN) - mp.get_position(Time(lo)).map(|q| q.value as f64).unwrap_or(f64::NAN);
            let (_, _, _, _, pm) = r.at(hi as f64 / 1e9);
            let bound = 4.0 * K * U * (pm + mag) + vlimit * 64.0 * 2e-9;
            rep.eval();
            rep.tally("integral_relations");
            let err = (integral - dpos).abs();
            rep.max("integral_err_over_bound", err / bound);
            if !(err <= bound) {
                rep.violation("C07/position-not-integral-of-velocity", "profiles", case, format!("phase {}: integral of velocity {:e} vs position difference {:e} (bound {:e}); t1..t3={:?} case={:?}", k + 1, integral, dpos, bound, b, c));
                bad = true;
                break;
            }
        }
        if bad { continue; }
        // ---- mirror: negating every position and velocity (whole states) negates every output exactly
        if dp != 0.0 {
            let m = MpCase { start: -c.start, end: -c.end, ..c.clone() };
            rep.eval();
            match build(&m) {
                Err(msg) => { rep.violation("C07/mirror-rejected", "profiles", case, format!("mirrored profile panicked: {}; case={:?}", msg, c)); continue; }
                Ok(mm) => {
                    rep.tally("mirror_comparisons");
                    let bm = boundaries(&mm);
                    if bm != b { rep.violation("C07/mirror-boundaries", "profiles", case, format!("t1..t3 {:?} vs mirrored {:?}; case={:?}", b, bm, c)); continue; }
                    let neg = |a: Option<Quantity>, b: Option<Quantity>| match (a, b) { (None, None) => true, (Some(x), Some(y)) => same(x.value, -y.value), _ => false };
                    let mut all = query_times(&mut rng, &b, 24);
                    all.sort();
                    for &t in &all {
                        rep.eval();
                        let ok = neg(mp.get_acceleration(Time(t)), mm.get_acceleration(Time(t))) && neg(mp.get_velocity(Time(t)), mm.get_velocity(Time(t))) && neg(mp.get_position(Time(t)), mm.get_position(Time(t))) && mp.get_mode(Time(t)) == mm.get_mode(Time(t));
                        if !ok {
                            rep.violation("C07/mirror-not-negated", "profiles", case, format!("t={}: ({:?},{:?},{:?}) vs mirrored ({:?},{:?},{:?}); case={:?}", t, mp.get_acceleration(Time(t)), mp.get_velocity(Time(t)), mp.get_position(Time(t)), mm.get_acceleration(Time(t)), mm.get_velocity(Time(t)), mm.get_position(Time(t)), c));
                            break;
                        }
                    }
                }
            }
        }
    }
    rep.floor("comfortable_accepted", 1000);
    rep.floor("mirror_comparisons", 1000);
    rep.floor("integral_relations", 1000);
    rep.floor("adjacent_ns_pairs", 1000);
    rep.floor("phase1", 1000);
    rep.floor("phase2", 1000);
    rep.floor("phase3", 1000);
    rep.finish(&args);
}
