//! C02 — stateless combinator streams honour their documented error / absent / present contract.
//!
//! Every combinator is driven through `Getter::get` with scripted inputs. The space of *shapes*
//! (outcome category of every input x every weak ordering `< = >` of the timestamps of the present
//! inputs) is enumerated completely; payload values and the concrete timestamps are random per
//! (seed, sub-check, case). The oracle is a pure function per combinator written from the doc
//! comments / truth tables.
//!
//! Readings accepted where documentation and statement are silent (see `Discipline` rule 1):
//!  * `Expirer` with an absent input and an erroring time getter: `Ok(None)` or that error.
//!  * `NoneToValue` with a present input and an erroring time getter: the input or that error.
//!  * `Latest` with tied maximal timestamps: any of the tied inputs.
use rrtk::streams::converters::{NoneToError, NoneToValue};
use rrtk::streams::flow::{IfElseStream, IfStream};
use rrtk::streams::logic::{AndStream, NotStream, OrStream};
use rrtk::streams::math::{
    DifferenceStream, ExponentStream, Product2, ProductStream, QuotientStream, Sum2, SumStream,
};
use rrtk::streams::{Expirer, Latest};
use rrtk::*;
use rrtk_mon::*;
use std::fmt::Debug;
use std::ops::{Add, AddAssign, Div, Mul, MulAssign, Sub};

// ---------------------------------------------------------------------------------------------
// shapes
// ---------------------------------------------------------------------------------------------
/// input outcome codes: 0 = Err(FromNone) (the crate's own error, what an upstream NoneToError
/// produces), 1 = Err(Other(1)), 2 = Err(Other(2)), 3 = Ok(None), 4.. = present
/// (value payloads: 4; booleans: 4 = Some(false), 5 = Some(true))
const NONE: u8 = 3;
const PRES: u8 = 4;
const TRUE: u8 = 5;
/// alphabet sizes of a value input / a boolean input
const AV: u8 = 5;
const AB: u8 = 6;
const NOT_PRESENT: u8 = 255;
#[derive(Clone, Debug, Hash, PartialEq, Eq)]
struct Shape {
    codes: Vec<u8>,
    /// rank of the timestamp of every present input among the present inputs (equal rank = equal
    /// stamp, lower rank = strictly older); NOT_PRESENT for the others
    ranks: Vec<u8>,
}
impl Shape {
    fn nranks(&self) -> usize {
        self.ranks.iter().filter(|r| **r != NOT_PRESENT).map(|r| *r as usize + 1).max().unwrap_or(0)
    }
}
/// every weak ordering of k items as a rank vector (values form a prefix 0..m)
fn weak_orders(k: usize) -> Vec<Vec<u8>> {
    if k == 0 {
        return vec![vec![]];
    }
    let mut out = Vec::new();
    let total = (k as u64).pow(k as u32);
    for mut x in 0..total {
        let mut v = Vec::with_capacity(k);
        for _ in 0..k {
            v.push((x % k as u64) as u8);
            x /= k as u64;
        }
        let mx = *v.iter().max().unwrap();
        if (0..=mx).all(|r| v.contains(&r)) {
            out.push(v);
        }
    }
    out
}
/// all shapes for inputs with the given alphabet sizes (AV = value input, AB = boolean input)
fn shapes(alph: &[u8]) -> Vec<Shape> {
    let wo: Vec<Vec<Vec<u8>>> = (0..=alph.len()).map(weak_orders).collect();
    let total: u64 = alph.iter().map(|a| *a as u64).product();
    let mut out = Vec::new();
    for mut x in 0..total {
        let mut codes = Vec::with_capacity(alph.len());
        for a in alph {
            codes.push((x % *a as u64) as u8);
            x /= *a as u64;
        }
        let present: Vec<usize> = (0..codes.len()).filter(|i| codes[*i] > NONE).collect();
        for w in &wo[present.len()] {
            let mut ranks = vec![NOT_PRESENT; codes.len()];
            for (j, i) in present.iter().enumerate() {
                ranks[*i] = w[j];
            }
            out.push(Shape { codes: codes.clone(), ranks });
        }
    }
    out
}
fn gap(rng: &mut Rng) -> i64 {
    match rng.below(4) {
        0 => 1,
        1 => rng.range_i64(1, 1000),
        2 => rng.range_i64(1, 1i64 << 40),
        _ => rng.range_i64(1_000_000, 10_000_000_000),
    }
}
/// m strictly increasing timestamps. The combinators driven with these only *compare* stamps, so the
/// i64 extremes are included (guide, Discipline 4).
fn distinct_stamps(rng: &mut Rng, m: usize) -> Vec<i64> {
    let mut v = Vec::with_capacity(m);
    if m == 0 {
        return v;
    }
    match rng.below(6) {
        0 => {
            let b = rng.stamp();
            for i in 0..m {
                v.push(b + i as i64);
            }
        }
        1 => {
            if m == 1 {
                v.push(if rng.chance(0.5) { i64::MIN } else { i64::MAX });
            } else {
                v.push(i64::MIN);
                let mut t = rng.stamp();
                for _ in 0..m - 2 {
                    v.push(t);
                    t += gap(rng);
                }
                v.push(i64::MAX);
            }
        }
        _ => {
            let mut t = rng.stamp();
            for _ in 0..m {
                v.push(t);
                t += gap(rng);
            }
        }
    }
    v
}
fn stamps_for(rng: &mut Rng, sh: &Shape) -> Vec<i64> {
    let st = distinct_stamps(rng, sh.nranks());
    sh.ranks.iter().map(|r| if *r == NOT_PRESENT { 0 } else { st[*r as usize] }).collect()
}
fn mk<T>(code: u8, t: i64, v: T) -> Out<T> {
    match code {
        c if c < NONE => Err(err_code(c)),
        NONE => Ok(None),
        _ => Ok(Some(Datum::new(Time(t), v))),
    }
}
fn first_err<T>(outs: &[Out<T>]) -> Option<Error<E>> {
    outs.iter().find_map(|o| o.as_ref().err().copied())
}
fn present<T: Copy>(outs: &[Out<T>]) -> Vec<Datum<T>> {
    outs.iter().filter_map(|o| o.as_ref().ok().and_then(|x| *x)).collect()
}
fn max_time<T>(ds: &[Datum<T>]) -> Time {
    ds.iter().map(|d| d.time).max().unwrap()
}

// ---------------------------------------------------------------------------------------------
// payloads
// ---------------------------------------------------------------------------------------------
trait Pay:
    Copy
    + Debug
    + 'static
    + Add<Output = Self>
    + AddAssign
    + Sub<Output = Self>
    + Mul<Output = Self>
    + MulAssign
    + Div<Output = Self>
{
    const NAME: &'static str;
    fn veq(a: &Self, b: &Self) -> bool;
    /// n values that may be added / subtracted with one another (same unit)
    fn additive(rng: &mut Rng, n: usize) -> Vec<Self>;
    /// n values that may be multiplied / divided (any units; exponents stay far inside i8)
    fn multiplicative(rng: &mut Rng, n: usize) -> Vec<Self>;
    /// a fresh value that may be added to / subtracted from `proto` (same unit)
    fn like(rng: &mut Rng, proto: Self) -> Self;
    /// a value from the pool that fast paths / special cases key on (zeros, ones, extremes, non-finite),
    /// for constructor parameters that are only stored and handed back (NoneToValue, ConstantGetter)
    fn special(rng: &mut Rng, proto: Self) -> Self;
    /// ExponentStream exists for f32 only
    fn exponent(_base: &Src<Self>, _exponent: &Src<Self>) -> Option<Box<dyn Getter<Self, E>>> {
        None
    }
    fn exponent_refs(_base: Reference<dyn Getter<Self, E>>, _exponent: Reference<dyn Getter<Self, E>>) -> Option<Box<dyn Getter<Self, E>>> {
        None
    }
    /// the crate's own powf, through a second ExponentStream fed by two ConstantGetters
    fn reference_pow(_base: Self, _exponent: Self) -> Option<Self> {
        None
    }
}
fn fspecial(rng: &mut Rng) -> f32 {
    *rng.pick(&[
        0.0f32, -0.0, 1.0, -1.0, 2.0, 0.5, f32::MAX, f32::MIN, f32::MIN_POSITIVE, f32::EPSILON, 1e-45, f32::INFINITY,
        f32::NEG_INFINITY, f32::NAN,
    ])
}
/// the expiry-limit pool: extremes and round values next to the magnitude strata
/// 0: 0, 1: small positive, 2: large positive (<= 2^59), 3: negative, 4: exactly 1,
/// 5: i64::MAX ("never expires"), 6: i64::MAX - 1, 7: i64::MIN, 8: i64::MIN + 1
const NLIM: u8 = 9;
fn limit_of(rng: &mut Rng, lim: u8) -> i64 {
    match lim {
        0 => 0,
        1 => rng.range_i64(2, 1000),
        2 => rng.range_i64(1_000_000_000, 1i64 << 59),
        3 => -rng.range_i64(1, 1i64 << 40),
        4 => 1,
        5 => i64::MAX,
        6 => i64::MAX - 1,
        7 => i64::MIN,
        _ => i64::MIN + 1,
    }
}
/// documented Expirer rule on integers: absent iff now - t > limit
fn expired(now: i64, t: i64, limit: i64) -> bool {
    (now as i128 - t as i128) > limit as i128
}
fn fval(rng: &mut Rng) -> f32 {
    if rng.chance(0.4) {
        rng.any_finite()
    } else {
        rng.moderate(1e4)
    }
}
/// finite values with occasional exact ties between inputs
fn fvals(rng: &mut Rng, n: usize) -> Vec<f32> {
    let mut v: Vec<f32> = Vec::with_capacity(n);
    for i in 0..n {
        if i > 0 && rng.chance(0.15) {
            let j = rng.usize(i);
            v.push(v[j]);
        } else {
            v.push(fval(rng));
        }
    }
    v
}
fn unit(rng: &mut Rng) -> Unit {
    Unit::new(rng.range_i64(-3, 3) as i8, rng.range_i64(-3, 3) as i8)
}
impl Pay for f32 {
    const NAME: &'static str = "f32";
    fn veq(a: &f32, b: &f32) -> bool {
        same(*a, *b)
    }
    fn additive(rng: &mut Rng, n: usize) -> Vec<f32> {
        fvals(rng, n)
    }
    fn multiplicative(rng: &mut Rng, n: usize) -> Vec<f32> {
        fvals(rng, n)
    }
    fn like(rng: &mut Rng, _proto: f32) -> f32 {
        fval(rng)
    }
    fn special(rng: &mut Rng, _proto: f32) -> f32 {
        fspecial(rng)
    }
    fn exponent(base: &Src<f32>, exponent: &Src<f32>) -> Option<Box<dyn Getter<f32, E>>> {
        Some(Box::new(ExponentStream::new(base.dynref(), exponent.typed())))
    }
    fn exponent_refs(base: Reference<dyn Getter<f32, E>>, exponent: Reference<dyn Getter<f32, E>>) -> Option<Box<dyn Getter<f32, E>>> {
        Some(Box::new(ExponentStream::new(base, exponent)))
    }
    fn reference_pow(b: f32, x: f32) -> Option<f32> {
        let (t1, t2) = (TSrc::new(0), TSrc::new(0));
        let r = ExponentStream::new(refof(ConstantGetter::new(t1.dynref(), b)), refof(ConstantGetter::new(t2.dynref(), x)));
        match catch(|| r.get()) {
            Ok(Ok(Some(d))) => Some(d.value),
            _ => None,
        }
    }
}
impl Pay for Quantity {
    const NAME: &'static str = "Quantity";
    fn veq(a: &Quantity, b: &Quantity) -> bool {
        qsame(a, b)
    }
    fn additive(rng: &mut Rng, n: usize) -> Vec<Quantity> {
        let u = unit(rng);
        fvals(rng, n).into_iter().map(|x| Quantity::new(x, u)).collect()
    }
    fn multiplicative(rng: &mut Rng, n: usize) -> Vec<Quantity> {
        fvals(rng, n).into_iter().map(|x| Quantity::new(x, unit(rng))).collect()
    }
    fn like(rng: &mut Rng, proto: Quantity) -> Quantity {
        Quantity::new(fval(rng), proto.unit)
    }
    fn special(rng: &mut Rng, proto: Quantity) -> Quantity {
        Quantity::new(fspecial(rng), proto.unit)
    }
}
/// A payload whose `+` and `*` are associative but NOT commutative, so that "combined in input
/// order" is observable (for f32 and Quantity `b * a` and `a * b` have the same bits).
/// `*` is 2x2 integer matrix multiplication ([a b; c d] row-major); `+` composes two pairs of affine
/// maps x -> p*x + q (entries (0,1) and (2,3)); `-` is entrywise; `/` multiplies by the adjugate of
/// the right operand. All arithmetic wraps (it never overflows with the entries used anyway).
#[derive(Clone, Copy, PartialEq, Debug)]
struct M2([i64; 4]);
impl Mul for M2 {
    type Output = M2;
    fn mul(self, r: M2) -> M2 {
        let (a, b) = (self.0, r.0);
        let m = |x: i64, y: i64| x.wrapping_mul(y);
        M2([
            m(a[0], b[0]).wrapping_add(m(a[1], b[2])),
            m(a[0], b[1]).wrapping_add(m(a[1], b[3])),
            m(a[2], b[0]).wrapping_add(m(a[3], b[2])),
            m(a[2], b[1]).wrapping_add(m(a[3], b[3])),
        ])
    }
}
impl MulAssign for M2 {
    fn mul_assign(&mut self, r: M2) {
        *self = *self * r;
    }
}
impl Add for M2 {
    type Output = M2;
    fn add(self, r: M2) -> M2 {
        let (a, b) = (self.0, r.0);
        let m = |x: i64, y: i64| x.wrapping_mul(y);
        // (p, q) o (p', q') = (p*p', p*q' + q)
        M2([m(a[0], b[0]), m(a[0], b[1]).wrapping_add(a[1]), m(a[2], b[2]), m(a[2], b[3]).wrapping_add(a[3])])
    }
}
impl AddAssign for M2 {
    fn add_assign(&mut self, r: M2) {
        *self = *self + r;
    }
}
impl Sub for M2 {
    type Output = M2;
    fn sub(self, r: M2) -> M2 {
        let (a, b) = (self.0, r.0);
        M2([a[0].wrapping_sub(b[0]), a[1].wrapping_sub(b[1]), a[2].wrapping_sub(b[2]), a[3].wrapping_sub(b[3])])
    }
}
impl Div for M2 {
    type Output = M2;
    fn div(self, r: M2) -> M2 {
        let b = r.0;
        self * M2([b[3], b[1].wrapping_neg(), b[2].wrapping_neg(), b[0]])
    }
}
fn m2val(rng: &mut Rng) -> M2 {
    match rng.below(8) {
        0 => M2([1, 0, 0, 1]),
        1 => M2([0, -1, 1, 0]), // rotation
        2 => M2([1, rng.range_i64(1, 3), 0, 1]), // shear
        _ => M2([rng.range_i64(-3, 3), rng.range_i64(-3, 3), rng.range_i64(-3, 3), rng.range_i64(-3, 3)]),
    }
}
impl Pay for M2 {
    const NAME: &'static str = "M2";
    fn veq(a: &M2, b: &M2) -> bool {
        a == b
    }
    fn additive(rng: &mut Rng, n: usize) -> Vec<M2> {
        (0..n).map(|_| m2val(rng)).collect()
    }
    fn multiplicative(rng: &mut Rng, n: usize) -> Vec<M2> {
        (0..n).map(|_| m2val(rng)).collect()
    }
    fn like(rng: &mut Rng, _proto: M2) -> M2 {
        m2val(rng)
    }
    fn special(rng: &mut Rng, _proto: M2) -> M2 {
        *rng.pick(&[M2([0, 0, 0, 0]), M2([1, 0, 0, 1]), M2([i64::MAX, i64::MIN, -1, 1]), M2([i64::MIN, i64::MIN, i64::MIN, i64::MIN])])
    }
}
/// tally the folds whose result depends on the operand order (only meaningful for M2)
fn order_sensitive<T: Pay>(rep: &mut Report, stream: &str, outs: &[Out<T>], op: fn(T, T) -> T) {
    if T::NAME != "M2" || first_err(outs).is_some() {
        return;
    }
    let p = present(outs);
    if p.len() < 2 {
        return;
    }
    let fwd = p[1..].iter().fold(p[0].value, |a, d| op(a, d.value));
    let rev = p[..p.len() - 1].iter().rev().fold(p[p.len() - 1].value, |a, d| op(a, d.value));
    let swp = p[1..].iter().fold(p[0].value, |a, d| op(d.value, a));
    if !T::veq(&fwd, &rev) && !T::veq(&fwd, &swp) {
        rep.tally(&format!("order_sensitive:{}", stream));
    }
}
fn beq(a: &bool, b: &bool) -> bool {
    a == b
}

// ---------------------------------------------------------------------------------------------
// observation and comparison
// ---------------------------------------------------------------------------------------------
type Obs<T> = Result<[Out<T>; 3], String>;
/// three successive reads of the same combinator (panics captured)
fn get3<T, G: Getter<T, E> + ?Sized>(g: &G) -> Obs<T> {
    catch(|| [g.get(), g.get(), g.get()])
}
/// first of the three reads, for samples
fn first<T: Debug>(o: &Obs<T>) -> String {
    match o {
        Ok(o) => format!("{:?}", o[0]),
        Err(m) => format!("panic: {}", m),
    }
}
fn refof<T>(v: T) -> Reference<T> {
    Reference::from_rc_ref_cell(rc(v))
}
struct Ck<'a> {
    rep: &'a mut Report,
    sub: &'static str,
    case: u64,
}
impl Ck<'_> {
    /// Compare an observation with the set of acceptable outcomes; also purity of the three reads.
    /// Returns the index of the acceptable outcome that matched.
    fn check<T: Debug>(
        &mut self,
        stream: &str,
        obs: &Obs<T>,
        ok: &[Out<T>],
        veq: fn(&T, &T) -> bool,
        desc: &dyn Fn() -> String,
    ) -> Option<usize> {
        self.rep.eval();
        let o = match obs {
            Err(msg) => {
                self.rep.violation(&format!("C02/{}/panic", stream), self.sub, self.case,
                    format!("{}: get() panicked: {}; acceptable {:?}", desc(), msg, ok));
                return None;
            }
            Ok(o) => o,
        };
        // purity
        self.rep.eval();
        if !(out_same(&o[0], &o[1], veq) && out_same(&o[0], &o[2], veq)) {
            self.rep.violation(&format!("C02/{}/purity", stream), self.sub, self.case,
                format!("{}: three successive get() returned {:?}", desc(), o));
        }
        self.rep.tally(&format!("{}:{}", stream, cat(&o[0])));
        self.rep.tally(match cat(&o[0]) {
            "err" => "out_err",
            "none" => "out_none",
            _ => "out_some",
        });
        if let Some(i) = ok.iter().position(|e| out_same(&o[0], e, veq)) {
            return Some(i);
        }
        // which clause?
        let e = &ok[0];
        let clause = match (&o[0], e) {
            (Err(_), Err(_)) => "error",
            (Ok(Some(a)), Ok(Some(b))) => {
                if ok.iter().any(|e| matches!(e, Ok(Some(b)) if b.time == a.time)) && !veq(&a.value, &b.value) {
                    "value"
                } else if ok.iter().any(|e| matches!(e, Ok(Some(b)) if veq(&a.value, &b.value))) {
                    "time"
                } else {
                    "value"
                }
            }
            _ => "category",
        };
        self.rep.violation(&format!("C02/{}/{}", stream, clause), self.sub, self.case,
            format!("{}: observed {:?}, acceptable {:?}", desc(), o[0], ok));
        None
    }
    /// two combinators that must agree exactly (category, error, timestamp, value)
    fn agree<T: Debug>(&mut self, what: &str, a: &Obs<T>, b: &Obs<T>, veq: fn(&T, &T) -> bool, desc: &dyn Fn() -> String) {
        self.rep.eval();
        match (a, b) {
            (Ok(x), Ok(y)) => {
                if !out_same(&x[0], &y[0], veq) {
                    self.rep.violation(&format!("C02/{}/agree", what), self.sub, self.case,
                        format!("{}: left {:?} right {:?}", desc(), x[0], y[0]));
                } else {
                    self.rep.tally(&format!("{}:agree-{}", what, cat(&x[0])));
                }
            }
            _ => {
                self.rep.violation(&format!("C02/{}/panic", what), self.sub, self.case,
                    format!("{}: left {:?} right {:?}", desc(), a.as_ref().err(), b.as_ref().err()));
            }
        }
    }
}

// ---------------------------------------------------------------------------------------------
// n-ary: SumStream, ProductStream, Latest, arities 1..=5
// ---------------------------------------------------------------------------------------------
#[derive(Clone, Copy, PartialEq, Eq, Debug, Hash)]
enum Kind {
    Sum,
    Product,
    Latest,
}
impl Kind {
    fn name(self) -> &'static str {
        match self {
            Kind::Sum => "SumStream",
            Kind::Product => "ProductStream",
            Kind::Latest => "Latest",
        }
    }
}
fn build_nary<T: Pay>(kind: Kind, srcs: &[Src<T>]) -> Box<dyn Getter<T, E>> {
    let refs: Vec<Reference<dyn Getter<T, E>>> = srcs.iter().map(|s| s.dynref()).collect();
    build_nary_refs(kind, &refs)
}
fn build_nary_refs<T: Pay>(kind: Kind, refs: &[Reference<dyn Getter<T, E>>]) -> Box<dyn Getter<T, E>> {
    macro_rules! inst {
        ($n:literal) => {{
            let a: [Reference<dyn Getter<T, E>>; $n] = core::array::from_fn(|i| refs[i].clone());
            match kind {
                Kind::Sum => Box::new(SumStream::<T, $n, E>::new(a)) as Box<dyn Getter<T, E>>,
                Kind::Product => Box::new(ProductStream::<T, $n, E>::new(a)) as Box<dyn Getter<T, E>>,
                Kind::Latest => Box::new(Latest::<T, $n, E>::new(a)) as Box<dyn Getter<T, E>>,
            }
        }};
    }
    match refs.len() {
        1 => inst!(1),
        2 => inst!(2),
        3 => inst!(3),
        4 => inst!(4),
        5 => inst!(5),
        _ => unreachable!(),
    }
}
/// documented outcome of an n-ary sum / product: first error in input order; absent inputs skipped;
/// absent iff all absent; present values combined in input order with the plain operator (here: the
/// left fold; see `nary_acceptable` for the other associations); newest stamp.
fn fold_oracle<T: Pay>(outs: &[Out<T>], op: fn(T, T) -> T) -> Out<T> {
    if let Some(e) = first_err(outs) {
        return Err(e);
    }
    let p = present(outs);
    if p.is_empty() {
        return Ok(None);
    }
    let mut acc = p[0].value;
    for d in &p[1..] {
        acc = op(acc, d.value);
    }
    Ok(Some(Datum::new(max_time(&p), acc)))
}
/// Every value obtainable by combining `vals` with `op` in INPUT ORDER under some parenthesization
/// (interval DP, deduplicated with `veq`). "Combined with exactly the corresponding operator in input
/// order" fixes the operand order, not the association: a right fold or a pairwise tree is as
/// legitimate as the left fold. (M2's operators are associative, so for M2 this set is a single value
/// and the operand order stays checked exactly.)
fn all_parenthesizations<T: Pay>(vals: &[T], op: fn(T, T) -> T) -> Vec<T> {
    let n = vals.len();
    let mut table: Vec<Vec<Vec<T>>> = vec![vec![Vec::new(); n]; n];
    for i in 0..n {
        table[i][i] = vec![vals[i]];
    }
    for len in 2..=n {
        for i in 0..=n - len {
            let j = i + len - 1;
            let mut acc: Vec<T> = Vec::new();
            for k in i..j {
                for a in &table[i][k] {
                    for b in &table[k + 1][j] {
                        let v = op(*a, *b);
                        if !acc.iter().any(|x| T::veq(x, &v)) {
                            acc.push(v);
                        }
                    }
                }
            }
            table[i][j] = acc;
        }
    }
    table[0][n - 1].clone()
}
/// Acceptable outcomes of an n-ary sum / product: the left fold first; when the observation differs
/// from it and three or more inputs are present, every other order-preserving parenthesization too
/// (same newest stamp; units are association-independent).
fn nary_acceptable<T: Pay>(outs: &[Out<T>], op: fn(T, T) -> T, obs: &Obs<T>) -> Vec<Out<T>> {
    let left = fold_oracle(outs, op);
    let matches_left = matches!(obs, Ok(o) if out_same(&o[0], &left, T::veq));
    let p = present(outs);
    if matches_left || first_err(outs).is_some() || p.len() < 3 {
        return vec![left];
    }
    let vals: Vec<T> = p.iter().map(|d| d.value).collect();
    let t = max_time(&p);
    let mut ok = vec![left];
    for v in all_parenthesizations(&vals, op) {
        if !ok.iter().any(|e| matches!(e, Ok(Some(d)) if T::veq(&d.value, &v))) {
            ok.push(Ok(Some(Datum::new(t, v))));
        }
    }
    ok
}
fn nary_case<T: Pay>(ck: &mut Ck, kind: Kind, sh: &Shape, rng: &mut Rng) {
    let n = sh.codes.len();
    let ts = stamps_for(rng, sh);
    let vals = if kind == Kind::Product { T::multiplicative(rng, n) } else { T::additive(rng, n) };
    let outs: Vec<Out<T>> = (0..n).map(|i| mk(sh.codes[i], ts[i], vals[i])).collect();
    let srcs: Vec<Src<T>> = outs.iter().map(|o| Src::with(o.clone())).collect();
    let g = build_nary::<T>(kind, &srcs);
    let obs = get3(&*g);
    let ok: Vec<Out<T>> = match kind {
        Kind::Sum => nary_acceptable(&outs, |a, b| a + b, &obs),
        Kind::Product => nary_acceptable(&outs, |a, b| a * b, &obs),
        Kind::Latest => {
            // errors and absent inputs are ignored; any present input carrying the newest stamp
            let p = present(&outs);
            if p.is_empty() {
                vec![Ok(None)]
            } else {
                let mx = max_time(&p);
                p.iter().filter(|d| d.time == mx).map(|d| Ok(Some(*d))).collect()
            }
        }
    };
    let desc = || format!("{}<{},{}> inputs {:?}", kind.name(), T::NAME, n, outs);
    ck.rep.distinct((kind.name(), T::NAME, &sh.codes, &sh.ranks));
    let hit = ck.check(kind.name(), &obs, &ok, T::veq, &desc);
    match kind {
        Kind::Sum => order_sensitive(ck.rep, "SumStream", &outs, |a, b| a + b),
        Kind::Product => order_sensitive(ck.rep, "ProductStream", &outs, |a, b| a * b),
        Kind::Latest => {}
    }
    if kind != Kind::Latest && hit.map_or(false, |i| i > 0) {
        // legitimate: same operands in the same order, different association
        ck.rep.tally("nary_value_matched_a_non_left_fold_association");
    }
    if kind == Kind::Latest && ok.len() > 1 && hit.is_some() {
        ck.rep.tally("latest_ties_checked");
        if hit == Some(0) {
            ck.rep.tally("latest_tie_first_listed_chosen");
        }
    }
    if kind != Kind::Latest && present(&outs).len() >= 2 && first_err(&outs).is_none() && sh.codes.contains(&NONE) {
        ck.rep.tally("nary_fold_with_skipped_absent");
    }
    if first_err(&outs).is_some() {
        ck.rep.tally(if kind == Kind::Latest { "latest_with_erroring_input" } else { "nary_error_cases" });
    }
    if ck.rep.verbose {
        eprintln!("case {}:{} {} -> {:?} acceptable {:?}", ck.sub, ck.case, desc(), obs, ok);
    }
    if ck.rep.want_sample("nary") && n >= 3 && present(&outs).len() >= 2 && first_err(&outs).is_none() && sh.codes.contains(&NONE) {
        ck.rep.sample("nary", format!("{} -> {:?}", desc(), first(&obs)));
    }
}

// ---------------------------------------------------------------------------------------------
// binary arithmetic: Sum2, Product2, Difference, Quotient (+ Sum2==SumStream<2>, Product2==ProductStream<2>)
// ---------------------------------------------------------------------------------------------
/// difference / quotient / exponent: first error in input order; first operand absent => absent;
/// second absent => first passed through unchanged; else op, newest stamp
fn asym_oracle<T: Copy>(outs: &[Out<T>], op: impl Fn(T, T) -> T) -> Out<T> {
    if let Some(e) = first_err(outs) {
        return Err(e);
    }
    let a = match outs[0].as_ref().unwrap() {
        None => return Ok(None),
        Some(a) => *a,
    };
    let b = match outs[1].as_ref().unwrap() {
        None => return Ok(Some(a)),
        Some(b) => *b,
    };
    Ok(Some(Datum::new(a.time.max(b.time), op(a.value, b.value))))
}
fn binary_case<T: Pay>(ck: &mut Ck, sh: &Shape, rng: &mut Rng) {
    let ts = stamps_for(rng, sh);
    ck.rep.distinct(("binary", T::NAME, &sh.codes, &sh.ranks));
    // additive group
    {
        let vals = T::additive(rng, 2);
        let outs: Vec<Out<T>> = (0..2).map(|i| mk(sh.codes[i], ts[i], vals[i])).collect();
        let srcs: Vec<Src<T>> = outs.iter().map(|o| Src::with(o.clone())).collect();
        let desc = || format!("<{}> inputs {:?}", T::NAME, outs);
        let s2 = Sum2::new(srcs[0].dynref(), srcs[1].typed());
        let sn = build_nary::<T>(Kind::Sum, &srcs);
        let df = DifferenceStream::new(srcs[0].typed(), srcs[1].dynref());
        let o_s2 = get3(&s2);
        let o_sn = get3(&*sn);
        let o_df = get3(&df);
        let exp_sum = fold_oracle(&outs, |a, b| a + b);
        ck.check("Sum2", &o_s2, &[exp_sum.clone()], T::veq, &|| format!("Sum2{}", desc()));
        ck.check("SumStream", &o_sn, &[exp_sum], T::veq, &|| format!("SumStream<2>{}", desc()));
        ck.agree("Sum2-vs-SumStream", &o_s2, &o_sn, T::veq, &|| format!("Sum2 vs SumStream<2>{}", desc()));
        order_sensitive(ck.rep, "Sum2", &outs, |a, b| a + b);
        order_sensitive(ck.rep, "DifferenceStream", &outs, |a, b| a - b);
        let exp_df = asym_oracle(&outs, |a, b| a - b);
        ck.check("DifferenceStream", &o_df, &[exp_df], T::veq, &|| format!("DifferenceStream{}", desc()));
        if ck.rep.verbose {
            eprintln!("case {}:{} additive{} Sum2 {:?} SumStream<2> {:?} Difference {:?}", ck.sub, ck.case, desc(), o_s2, o_sn, o_df);
        }
        if ck.rep.want_sample("binary") && sh.codes == [PRES, PRES] {
            ck.rep.sample("binary", format!("DifferenceStream{} -> {:?}", desc(), first(&o_df)));
        }
    }
    // multiplicative group
    {
        let vals = T::multiplicative(rng, 2);
        let outs: Vec<Out<T>> = (0..2).map(|i| mk(sh.codes[i], ts[i], vals[i])).collect();
        let srcs: Vec<Src<T>> = outs.iter().map(|o| Src::with(o.clone())).collect();
        let desc = || format!("<{}> inputs {:?}", T::NAME, outs);
        let p2 = Product2::new(srcs[0].typed(), srcs[1].dynref());
        let pn = build_nary::<T>(Kind::Product, &srcs);
        let qt = QuotientStream::new(srcs[0].dynref(), srcs[1].typed());
        let o_p2 = get3(&p2);
        let o_pn = get3(&*pn);
        let o_qt = get3(&qt);
        let exp_prod = fold_oracle(&outs, |a, b| a * b);
        ck.check("Product2", &o_p2, &[exp_prod.clone()], T::veq, &|| format!("Product2{}", desc()));
        ck.check("ProductStream", &o_pn, &[exp_prod], T::veq, &|| format!("ProductStream<2>{}", desc()));
        ck.agree("Product2-vs-ProductStream", &o_p2, &o_pn, T::veq, &|| format!("Product2 vs ProductStream<2>{}", desc()));
        order_sensitive(ck.rep, "Product2", &outs, |a, b| a * b);
        order_sensitive(ck.rep, "QuotientStream", &outs, |a, b| a / b);
        let exp_qt = asym_oracle(&outs, |a, b| a / b);
        ck.check("QuotientStream", &o_qt, &[exp_qt], T::veq, &|| format!("QuotientStream{}", desc()));
        if ck.rep.verbose {
            eprintln!("case {}:{} multiplicative{} Product2 {:?} ProductStream<2> {:?} Quotient {:?}", ck.sub, ck.case, desc(), o_p2, o_pn, o_qt);
        }
    }
}

// ---------------------------------------------------------------------------------------------
// ExponentStream
// ---------------------------------------------------------------------------------------------
fn exponent_case(ck: &mut Ck, sh: &Shape, rng: &mut Rng) {
    let ts = stamps_for(rng, sh);
    // 70 %: positive moderate base, small exponent (result finite, far from over/underflow), where
    // a loose f64 cross-check makes sense; 30 %: anything finite (NaN / inf results compared
    // NaN-aware against the crate's own powf)
    let sane = rng.chance(0.7);
    let (b, x) = if sane {
        (rng.log_uniform(0.1, 10.0) as f32, rng.uniform(-4.0, 4.0) as f32)
    } else {
        (fval(rng), fval(rng))
    };
    let outs: Vec<Out<f32>> = vec![mk(sh.codes[0], ts[0], b), mk(sh.codes[1], ts[1], x)];
    let srcs: Vec<Src<f32>> = outs.iter().map(|o| Src::with(o.clone())).collect();
    let ex = ExponentStream::new(srcs[0].dynref(), srcs[1].typed());
    let obs = get3(&ex);
    ck.rep.distinct(("ExponentStream", &sh.codes, &sh.ranks));
    // the crate's own powf on the same operands, obtained from a second ExponentStream whose inputs
    // are two ConstantGetters (same function => same bits)
    let pw = {
        let (t1, t2) = (TSrc::new(0), TSrc::new(0));
        let cb = ConstantGetter::new(t1.dynref(), b);
        let cx = ConstantGetter::new(t2.dynref(), x);
        let r = ExponentStream::new(refof(cb), refof(cx));
        match catch(|| r.get()) {
            Ok(Ok(Some(d))) => d.value,
            other => {
                ck.rep.eval();
                ck.rep.violation("C02/ExponentStream/reference", ck.sub, ck.case,
                    format!("reference ExponentStream(ConstantGetter({}), ConstantGetter({})) gave {:?}", f(b), f(x), other));
                return;
            }
        }
    };
    let exp = asym_oracle(&outs, |_, _| pw);
    let desc = || format!("ExponentStream inputs base {:?} exponent {:?} (reference powf = {})", outs[0], outs[1], f(pw));
    ck.check("ExponentStream", &obs, &[exp], f32::veq, &desc);
    if ck.rep.verbose {
        eprintln!("case {}:{} {} -> {:?}", ck.sub, ck.case, desc(), obs);
    }
    if sh.codes == [PRES, PRES] {
        if sane {
            // operand order / operator sanity against f64 powf, very loose (relative 1e-3)
            if let Ok(o) = &obs {
                if let Ok(Some(d)) = &o[0] {
                    let r = (b as f64).powf(x as f64);
                    let (ok, ratio) = within(d.value, r, 1e-3 * r.abs() + 1e-9);
                    ck.rep.eval();
                    ck.rep.max("exponent_vs_f64_err_over_bound", ratio);
                    ck.rep.tally("exponent_f64_crosschecks");
                    if !ok {
                        ck.rep.violation("C02/ExponentStream/value-f64", ck.sub, ck.case,
                            format!("{}: value {} but base^exponent = {:e}", desc(), f(d.value), r));
                    }
                }
            }
        }
        if ck.rep.want_sample("exponent") {
            ck.rep.sample("exponent", format!("{} -> {:?}", desc(), first(&obs)));
        }
    }
}

// ---------------------------------------------------------------------------------------------
// logic: AndStream, OrStream, NotStream, De Morgan
// ---------------------------------------------------------------------------------------------
/// The documented truth tables, transcribed row by row from the doc comments of AndStream / OrStream.
/// Index 0 = Some(false), 1 = None, 2 = Some(true); TABLE[input1][input2].
const AND_TABLE: [[u8; 3]; 3] = [
    // in2:  F  N  T
    [0, 0, 0], // in1 = F
    [0, 1, 1], // in1 = N
    [0, 1, 2], // in1 = T
];
const OR_TABLE: [[u8; 3]; 3] = [
    [0, 1, 2], // in1 = F
    [1, 1, 2], // in1 = N
    [2, 2, 2], // in1 = T
];
fn tri(o: &Out<bool>) -> usize {
    match o {
        Ok(Some(d)) => {
            if d.value {
                2
            } else {
                0
            }
        }
        _ => 1,
    }
}
fn table_oracle(outs: &[Out<bool>], table: &[[u8; 3]; 3]) -> Out<bool> {
    if let Some(e) = first_err(outs) {
        return Err(e);
    }
    let p = present(outs);
    match table[tri(&outs[0])][tri(&outs[1])] {
        1 => Ok(None),
        v => Ok(Some(Datum::new(max_time(&p), v == 2))),
    }
}
fn not_oracle(o: &Out<bool>) -> Out<bool> {
    match o {
        Err(e) => Err(*e),
        Ok(None) => Ok(None),
        Ok(Some(d)) => Ok(Some(Datum::new(d.time, !d.value))),
    }
}
fn logic2_case(ck: &mut Ck, sh: &Shape, rng: &mut Rng) {
    let ts = stamps_for(rng, sh);
    let outs: Vec<Out<bool>> = (0..2).map(|i| mk(sh.codes[i], ts[i], sh.codes[i] == TRUE)).collect();
    let (a, b) = (Src::with(outs[0].clone()), Src::with(outs[1].clone()));
    let desc = || format!(" inputs {:?}", outs);
    ck.rep.distinct(("logic2", &sh.codes, &sh.ranks));
    let and = AndStream::new(a.dynref(), b.typed());
    let or = OrStream::new(a.typed(), b.dynref());
    let o_and = get3(&and);
    let o_or = get3(&or);
    ck.check("AndStream", &o_and, &[table_oracle(&outs, &AND_TABLE)], beq, &|| format!("AndStream{}", desc()));
    ck.check("OrStream", &o_or, &[table_oracle(&outs, &OR_TABLE)], beq, &|| format!("OrStream{}", desc()));
    // De Morgan: Not(And(a,b)) == Or(Not a, Not b) and Not(Or(a,b)) == And(Not a, Not b)
    let nand = NotStream::new(refof(AndStream::new(a.dynref(), b.dynref())));
    let or_nn = OrStream::new(refof(NotStream::new(a.dynref())), refof(NotStream::new(b.dynref())));
    let nor = NotStream::new(refof(OrStream::new(a.dynref(), b.dynref())));
    let and_nn = AndStream::new(refof(NotStream::new(a.dynref())), refof(NotStream::new(b.dynref())));
    let (o1, o2, o3, o4) = (get3(&nand), get3(&or_nn), get3(&nor), get3(&and_nn));
    // each side is itself the documented Not of the documented And / Or
    ck.check("NotStream", &o1, &[not_oracle(&table_oracle(&outs, &AND_TABLE))], beq, &|| format!("Not(And(a,b)){}", desc()));
    ck.check("NotStream", &o3, &[not_oracle(&table_oracle(&outs, &OR_TABLE))], beq, &|| format!("Not(Or(a,b)){}", desc()));
    ck.agree("DeMorgan-NotAnd-vs-OrNot", &o1, &o2, beq, &|| format!("Not(And(a,b)) vs Or(Not a, Not b){}", desc()));
    ck.agree("DeMorgan-NotOr-vs-AndNot", &o3, &o4, beq, &|| format!("Not(Or(a,b)) vs And(Not a, Not b){}", desc()));
    if ck.rep.verbose {
        eprintln!("case {}:{}{} And {:?} Or {:?} NotAnd {:?} OrNot {:?} NotOr {:?} AndNot {:?}", ck.sub, ck.case, desc(), o_and, o_or, o1, o2, o3, o4);
    }
    if ck.rep.want_sample("logic") && sh.codes.iter().all(|c| *c >= NONE) && sh.codes.contains(&NONE) {
        ck.rep.sample("logic", format!("And/Or{} -> {:?} / {:?}", desc(), first(&o_and), first(&o_or)));
    }
}
fn not_case(ck: &mut Ck, sh: &Shape, rng: &mut Rng) {
    let ts = stamps_for(rng, sh);
    let out: Out<bool> = mk(sh.codes[0], ts[0], sh.codes[0] == TRUE);
    let a = Src::with(out.clone());
    ck.rep.distinct(("not", &sh.codes));
    let n1 = NotStream::new(a.dynref());
    let o = get3(&n1);
    ck.check("NotStream", &o, &[not_oracle(&out)], beq, &|| format!("NotStream input {:?}", out));
    // double negation gives the input back
    let n2 = NotStream::new(refof(NotStream::new(a.typed())));
    let o2 = get3(&n2);
    ck.check("NotStream", &o2, &[out.clone()], beq, &|| format!("Not(Not(a)) input {:?}", out));
    if ck.rep.verbose {
        eprintln!("case {}:{} Not input {:?} -> {:?}; NotNot {:?}", ck.sub, ck.case, out, o, o2);
    }
}

// ---------------------------------------------------------------------------------------------
// flow: IfStream, IfElseStream
// ---------------------------------------------------------------------------------------------
fn if_case<T: Pay>(ck: &mut Ck, sh: &Shape, rng: &mut Rng) {
    let ts = stamps_for(rng, sh);
    let v = T::additive(rng, 1)[0];
    let cond: Out<bool> = mk(sh.codes[0], ts[0], sh.codes[0] == TRUE);
    let inp: Out<T> = mk(sh.codes[1], ts[1], v);
    let (c, i) = (Src::with(cond.clone()), Src::with(inp.clone()));
    let st = IfStream::new(c.dynref(), i.dynref());
    let obs = get3(&st);
    // "Propagates its input if [the condition] returns Ok(Some(true)), otherwise returns Ok(None)";
    // a condition error is an input error and is returned unchanged
    let exp: Out<T> = match &cond {
        Err(e) => Err(*e),
        Ok(Some(d)) if d.value => inp.clone(),
        _ => Ok(None),
    };
    let desc = || format!("IfStream<{}> condition {:?} input {:?}", T::NAME, cond, inp);
    ck.rep.distinct(("IfStream", T::NAME, &sh.codes, &sh.ranks));
    let hit = ck.check("IfStream", &obs, &[exp], T::veq, &desc);
    let selected = matches!(&cond, Ok(Some(d)) if d.value);
    if !selected && cond.is_ok() && inp.is_err() && hit.is_some() {
        ck.rep.tally("if_unselected_erroring_input_not_surfaced");
    }
    if !selected {
        ck.rep.max("if_unselected_input_get_calls_per_3_reads", i.gets() as f64);
    }
    if ck.rep.verbose {
        eprintln!("case {}:{} {} -> {:?}", ck.sub, ck.case, desc(), obs);
    }
    if ck.rep.want_sample("if") && !selected && inp.is_err() && cond.is_ok() {
        ck.rep.sample("if", format!("{} -> {:?}", desc(), first(&obs)));
    }
}
fn ifelse_case<T: Pay>(ck: &mut Ck, sh: &Shape, rng: &mut Rng) {
    let ts = stamps_for(rng, sh);
    let vals = T::additive(rng, 2);
    let cond: Out<bool> = mk(sh.codes[0], ts[0], sh.codes[0] == TRUE);
    let tv: Out<T> = mk(sh.codes[1], ts[1], vals[0]);
    let fv: Out<T> = mk(sh.codes[2], ts[2], vals[1]);
    let (c, t, fl) = (Src::with(cond.clone()), Src::with(tv.clone()), Src::with(fv.clone()));
    let st = IfElseStream::new(c.typed(), t.dynref(), fl.typed());
    let obs = get3(&st);
    // "Returns the output of one input if [cond] returns Ok(Some(true)) and another if it returns
    // Ok(Some(false)). Returns Ok(None) if the [cond] does."
    let exp: Out<T> = match &cond {
        Err(e) => Err(*e),
        Ok(None) => Ok(None),
        Ok(Some(d)) => {
            if d.value {
                tv.clone()
            } else {
                fv.clone()
            }
        }
    };
    let desc = || format!("IfElseStream<{}> condition {:?} true-branch {:?} false-branch {:?}", T::NAME, cond, tv, fv);
    ck.rep.distinct(("IfElseStream", T::NAME, &sh.codes, &sh.ranks));
    let hit = ck.check("IfElseStream", &obs, &[exp], T::veq, &desc);
    if hit.is_some() {
        let unsel_err = match &cond {
            Ok(Some(d)) => {
                if d.value {
                    fv.is_err()
                } else {
                    tv.is_err()
                }
            }
            Ok(None) => tv.is_err() || fv.is_err(),
            Err(_) => false,
        };
        if unsel_err {
            ck.rep.tally("ifelse_unselected_erroring_input_not_surfaced");
        }
    }
    if ck.rep.verbose {
        eprintln!("case {}:{} {} -> {:?}", ck.sub, ck.case, desc(), obs);
    }
    if ck.rep.want_sample("ifelse") && sh.codes[0] == PRES && sh.codes[1] < NONE && sh.codes[2] == PRES {
        ck.rep.sample("ifelse", format!("{} -> {:?}", desc(), first(&obs)));
    }
}

// ---------------------------------------------------------------------------------------------
// unary: NoneToError, NoneToValue, Expirer, ConstantGetter, NoneGetter
// ---------------------------------------------------------------------------------------------
fn tg_of(code: u8, now: i64) -> (TSrc, TimeOutput<E>) {
    let t = TSrc::new(now);
    match code {
        0 => (t, Ok(Time(now))),
        c => {
            let e = err_code(c - 1);
            t.0.borrow_mut().out = Err(e);
            (t, Err(e))
        }
    }
}
fn none_to_error_case<T: Pay>(ck: &mut Ck, code: u8, rng: &mut Rng) {
    let t = distinct_stamps(rng, 1)[0];
    let v = T::additive(rng, 1)[0];
    let inp: Out<T> = mk(code, t, v);
    let s = Src::with(inp.clone());
    let st = NoneToError::new(s.dynref());
    let obs = get3(&st);
    let exp: Out<T> = match &inp {
        Ok(None) => Err(Error::FromNone),
        other => other.clone(),
    };
    ck.rep.distinct(("NoneToError", T::NAME, code));
    let desc = || format!("NoneToError<{}> input {:?}", T::NAME, inp);
    ck.check("NoneToError", &obs, &[exp], T::veq, &desc);
    if ck.rep.verbose {
        eprintln!("case {}:{} {} -> {:?}", ck.sub, ck.case, desc(), obs);
    }
    if ck.rep.want_sample("none_to_error") && code == NONE {
        ck.rep.sample("none_to_error", format!("{} -> {:?}", desc(), first(&obs)));
    }
}
/// tgc: 0 = time getter fine, 1/2/3 = time getter returns Err(FromNone / Other(1) / Other(2)); rel: order of `now` versus
/// the input's stamp (0 <, 1 =, 2 >)
fn none_to_value_case<T: Pay>(ck: &mut Ck, code: u8, tgc: u8, rel: u8, rng: &mut Rng) {
    let st2 = distinct_stamps(rng, 2);
    let (t, now) = match rel {
        0 => (st2[1], st2[0]),
        1 => (st2[0], st2[0]),
        _ => (st2[0], st2[1]),
    };
    let mut vals = T::additive(rng, 2);
    if rng.chance(0.5) {
        vals[1] = T::special(rng, vals[0]);
        ck.rep.tally("none_to_value_special_parameter");
    }
    let inp: Out<T> = mk(code, t, vals[0]);
    let s = Src::with(inp.clone());
    let (tg, tgo) = tg_of(tgc, now);
    let st = NoneToValue::new(s.dynref(), tg.dynref(), vals[1]);
    let obs = get3(&st);
    let mut ok: Vec<Out<T>> = Vec::new();
    match (&inp, &tgo) {
        (Err(e), _) => ok.push(Err(*e)),
        (Ok(Some(_)), Ok(_)) => ok.push(inp.clone()),
        (Ok(Some(_)), Err(e)) => {
            // the docs only say absent values are replaced; whether the clock is consulted for a
            // present value is not documented: accept both readings
            ok.push(inp.clone());
            ok.push(Err(*e));
        }
        (Ok(None), Ok(now)) => ok.push(Ok(Some(Datum::new(*now, vals[1])))),
        (Ok(None), Err(e)) => ok.push(Err(*e)),
    }
    ck.rep.distinct(("NoneToValue", T::NAME, code, tgc, rel));
    let desc = || format!("NoneToValue<{}> input {:?} time getter {:?} none_value {:?}", T::NAME, inp, tgo, vals[1]);
    let hit = ck.check("NoneToValue", &obs, &ok, T::veq, &desc);
    if ok.len() == 2 && hit.is_some() {
        ck.rep.tally(if hit == Some(0) { "none_to_value_present_input_clock_error_ignored" } else { "none_to_value_present_input_clock_error_surfaced" });
    }
    if ck.rep.verbose {
        eprintln!("case {}:{} {} -> {:?}", ck.sub, ck.case, desc(), obs);
    }
    if ck.rep.want_sample("none_to_value") && code == NONE && tgc == 0 {
        ck.rep.sample("none_to_value", format!("{} -> {:?}", desc(), first(&obs)));
    }
}
/// rel: data age versus limit (0 <, 1 =, 2 >, 3 = datum stamped LATER than the clock by more than
/// |limit|: negative age, larger in magnitude than the limit); lim: stratum of the limit
fn expirer_case<T: Pay>(ck: &mut Ck, code: u8, tgc: u8, rel: u8, lim: u8, rng: &mut Rng) {
    // the Expirer subtracts times: everything stays below 2^61 in magnitude (guide, Discipline 4)
    let t = match rng.below(6) {
        0 => 0,
        1 => rng.range_i64(-1000, 1000),
        2 => rng.range_i64(900_000_000_000_000, 1_100_000_000_000_000),
        3 => -rng.range_i64(900_000_000_000_000, 1_100_000_000_000_000),
        4 => rng.sign() as i64 * ((1i64 << 59) - rng.range_i64(0, 1000)),
        _ => rng.range_i64(-(1i64 << 40), 1i64 << 40),
    };
    let limit = limit_of(rng, lim);
    let g = match rng.below(3) {
        0 => 1,
        1 => rng.range_i64(1, 1000),
        _ => rng.range_i64(1, 1i64 << 58),
    };
    let d = match rel {
        _ if lim >= 5 => 0, // unused: see below
        0 => -g,
        1 => 0,
        2 => g,
        _ => -limit - limit.abs() - g, // age = -(|limit| + g)
    };
    // lim < 5: ages exactly at / around the limit. |now| <= 2^59 + 2^59 + 2^58 < 2^61; now - t = limit + d.
    // lim >= 5 (limit at an i64 extreme): the boundary is unreachable without overflowing the crate's own
    // `now - t`, so the clock is simply placed before / at / after / far before the datum (|now - t| < 2^61)
    // and the expectation comes from the documented rule evaluated on integers.
    let now = if lim < 5 {
        t + limit + d
    } else {
        match rel {
            0 => t - g,
            1 => t,
            2 => t + g,
            _ => t - (1i64 << 59) - g,
        }
    };
    let v = T::additive(rng, 1)[0];
    let inp: Out<T> = mk(code, t, v);
    let s = Src::with(inp.clone());
    let (tg, tgo) = tg_of(tgc, now);
    let st = Expirer::new(s.dynref(), tg.dynref(), Time(limit));
    let obs = get3(&st);
    let mut ok: Vec<Out<T>> = Vec::new();
    match (&inp, &tgo) {
        (Err(e), _) => ok.push(Err(*e)),
        (Ok(None), Ok(_)) => ok.push(Ok(None)),
        (Ok(None), Err(e)) => {
            // nothing to expire; whether the clock is consulted is not documented: accept both
            ok.push(Ok(None));
            ok.push(Err(*e));
        }
        (Ok(Some(_)), Err(e)) => ok.push(Err(*e)),
        (Ok(Some(_)), Ok(_)) => {
            // absent iff now - t > limit
            assert!(lim >= 5 || expired(now, t, limit) == (rel == 2), "monitor self-check: boundary construction");
            if expired(now, t, limit) {
                ok.push(Ok(None))
            } else {
                ok.push(inp.clone())
            }
        }
    }
    ck.rep.distinct(("Expirer", T::NAME, code, tgc, rel, lim));
    let desc = || format!("Expirer<{}> input {:?} time getter {:?} max_time_delta {} (age = now - stamp = {})", T::NAME, inp, tgo, limit, now as i128 - t as i128);
    let hit = ck.check("Expirer", &obs, &ok, T::veq, &desc);
    if hit.is_some() && code == PRES && lim >= 5 {
        ck.rep.tally(&format!("expirer_extreme_limit_{}:{}", lim, match (&tgo, expired(now, t, limit)) {
            (Err(_), _) => "clock_error_returned",
            (Ok(_), true) => "expired",
            (Ok(_), false) => "kept",
        }));
    }
    if hit.is_some() && code == PRES && tgc == 0 && lim < 5 {
        ck.rep.tally(match rel {
            0 => "expirer_kept_younger_than_limit",
            1 => "expirer_kept_exactly_at_limit",
            2 => "expirer_expired",
            _ => "expirer_kept_datum_newer_than_clock_by_more_than_limit",
        });
    }
    if ck.rep.verbose {
        eprintln!("case {}:{} {} -> {:?}", ck.sub, ck.case, desc(), obs);
    }
    if ck.rep.want_sample("expirer") && code == PRES && tgc == 0 && (rel == 1 || rel == 3) {
        ck.rep.sample("expirer", format!("{} -> {:?}", desc(), first(&obs)));
    }
}
fn constant_case<T: Debug + Clone + 'static>(ck: &mut Ck, name: &str, v: T, veq: fn(&T, &T) -> bool, tgc: u8, rng: &mut Rng) {
    let now = distinct_stamps(rng, 1)[0];
    let (tg, tgo) = tg_of(tgc, now);
    let g = ConstantGetter::new(tg.dynref(), v.clone());
    let obs = get3(&g);
    let exp: Out<T> = match &tgo {
        Ok(t) => Ok(Some(Datum::new(*t, v.clone()))),
        Err(e) => Err(*e),
    };
    ck.rep.distinct(("ConstantGetter", name.to_string(), tgc));
    let desc = || format!("ConstantGetter<{}> value {:?} time getter {:?}", name, v, tgo);
    ck.check("ConstantGetter", &obs, &[exp], veq, &desc);
    if ck.rep.verbose {
        eprintln!("case {}:{} {} -> {:?}", ck.sub, ck.case, desc(), obs);
    }
    if ck.rep.want_sample("constant") {
        ck.rep.sample("constant", format!("{} -> {:?}", desc(), first(&obs)));
    }
}
fn none_getter_case(ck: &mut Ck) {
    let g = NoneGetter::new();
    let o1: Obs<f32> = catch(|| [Getter::<f32, E>::get(&g), Getter::<f32, E>::get(&g), Getter::<f32, E>::get(&g)]);
    let o2: Obs<Quantity> = catch(|| [Getter::<Quantity, E>::get(&g), Getter::<Quantity, E>::get(&g), Getter::<Quantity, E>::get(&g)]);
    let o3: Obs<bool> = catch(|| [Getter::<bool, E>::get(&g), Getter::<bool, E>::get(&g), Getter::<bool, E>::get(&g)]);
    ck.rep.distinct("NoneGetter");
    ck.check("NoneGetter", &o1, &[Ok(None)], f32::veq, &|| "NoneGetter as Getter<f32>".to_string());
    ck.check("NoneGetter", &o2, &[Ok(None)], Quantity::veq, &|| "NoneGetter as Getter<Quantity>".to_string());
    ck.check("NoneGetter", &o3, &[Ok(None)], beq, &|| "NoneGetter as Getter<bool>".to_string());
    // also as an input of a combinator: it is "absent"
    let s = Src::<f32>::with(Ok(Some(Datum::new(Time(5), 1.5))));
    let ng: Reference<dyn Getter<f32, E>> = {
        let r: std::rc::Rc<std::cell::RefCell<dyn Getter<f32, E>>> = rc(NoneGetter::new());
        Reference::from_rc_ref_cell(r)
    };
    let sum = Sum2::new(ng, s.dynref());
    let o4 = get3(&sum);
    ck.check("NoneGetter", &o4, &[Ok(Some(Datum::new(Time(5), 1.5)))], f32::veq, &|| "Sum2(NoneGetter, Some(1.5 @5))".to_string());
}

// ---------------------------------------------------------------------------------------------
// long-lived instances: "Reading a combinator never changes what a later read returns"
// ---------------------------------------------------------------------------------------------
// One stream object per combinator is kept alive over a sequence of 8..=16 input assignments in
// which consecutive assignments differ in exactly one aspect (one input's timestamp, one input's
// value, or one input's outcome category). After every assignment each read of the long-lived
// object must equal, bit for bit (category, error, timestamp, value), the read of a freshly
// constructed stream of the same kind given the same inputs: a stateless combinator has no memory.
// (NoneGetter has no inputs and is a unit struct; its repeated reads are covered in `none_getter`.)
#[derive(Clone, Copy, PartialEq, Eq, Debug, Hash)]
enum LK {
    Sum(usize),
    Product(usize),
    Latest(usize),
    Sum2,
    Product2,
    Difference,
    Quotient,
    Exponent,
    And,
    Or,
    Not,
    If,
    IfElse,
    NoneToError,
    NoneToValue,
    Expirer,
    Constant,
}
impl LK {
    fn name(self) -> &'static str {
        match self {
            LK::Sum(_) => "SumStream",
            LK::Product(_) => "ProductStream",
            LK::Latest(_) => "Latest",
            LK::Sum2 => "Sum2",
            LK::Product2 => "Product2",
            LK::Difference => "DifferenceStream",
            LK::Quotient => "QuotientStream",
            LK::Exponent => "ExponentStream",
            LK::And => "AndStream",
            LK::Or => "OrStream",
            LK::Not => "NotStream",
            LK::If => "IfStream",
            LK::IfElse => "IfElseStream",
            LK::NoneToError => "NoneToError",
            LK::NoneToValue => "NoneToValue",
            LK::Expirer => "Expirer",
            LK::Constant => "ConstantGetter",
        }
    }
    /// input slots: 'V' value getter, 'B' boolean getter, 'C' clock
    fn layout(self) -> Vec<char> {
        match self {
            LK::Sum(n) | LK::Product(n) | LK::Latest(n) => vec!['V'; n],
            LK::Sum2 | LK::Product2 | LK::Difference | LK::Quotient | LK::Exponent => vec!['V', 'V'],
            LK::And | LK::Or => vec!['B', 'B'],
            LK::Not => vec!['B'],
            LK::If => vec!['B', 'V'],
            LK::IfElse => vec!['B', 'V', 'V'],
            LK::NoneToError => vec!['V'],
            LK::NoneToValue | LK::Expirer => vec!['V', 'C'],
            LK::Constant => vec!['C'],
        }
    }
}
#[derive(Clone, Debug)]
enum Slot<T> {
    V(Out<T>),
    B(Out<bool>),
    C(TimeOutput<E>),
}
enum SlotSrc<T: Clone> {
    V(Src<T>),
    B(Src<bool>),
    C(TSrc),
}
#[derive(Debug)]
enum AnyOut<T> {
    V(Out<T>),
    B(Out<bool>),
}
fn any_same<T: Pay>(a: &AnyOut<T>, b: &AnyOut<T>) -> bool {
    match (a, b) {
        (AnyOut::V(x), AnyOut::V(y)) => out_same(x, y, T::veq),
        (AnyOut::B(x), AnyOut::B(y)) => out_same(x, y, beq),
        _ => false,
    }
}
/// constructor parameters, fixed over a sequence and shared by the fresh instances
struct Extra<T> {
    none_value: T,
    constant: T,
    limit: i64,
}
type ReadFn<T> = Box<dyn Fn() -> AnyOut<T>>;
type UpdFn = Box<dyn Fn() -> NothingOrError<E>>;
struct Rig<T: Clone> {
    srcs: Vec<SlotSrc<T>>,
    read: ReadFn<T>,
    /// `Updatable::update` of the combinator itself (documented no-op of every stateless combinator)
    update: UpdFn,
}
impl<T: Clone + 'static> Rig<T> {
    fn set(&self, slots: &[Slot<T>]) {
        for (s, v) in self.srcs.iter().zip(slots) {
            match (s, v) {
                (SlotSrc::V(s), Slot::V(o)) => s.set(o.clone()),
                (SlotSrc::B(s), Slot::B(o)) => s.set(o.clone()),
                (SlotSrc::C(s), Slot::C(o)) => s.0.borrow_mut().out = *o,
                _ => unreachable!(),
            }
        }
    }
}
fn vbox<T: 'static, G: Getter<T, E> + 'static>(g: G) -> (ReadFn<T>, UpdFn) {
    let a = rc(g);
    let a2 = a.clone();
    (Box::new(move || AnyOut::V(a.borrow().get())), Box::new(move || a2.borrow_mut().update()))
}
fn bbox<T: 'static, G: Getter<bool, E> + 'static>(g: G) -> (ReadFn<T>, UpdFn) {
    let a = rc(g);
    let a2 = a.clone();
    (Box::new(move || AnyOut::B(a.borrow().get())), Box::new(move || a2.borrow_mut().update()))
}
/// total number of get() calls received by the inputs of a rig (observation only)
fn rig_polls<T: Clone + 'static>(r: &Rig<T>) -> u64 {
    r.srcs
        .iter()
        .map(|s| match s {
            SlotSrc::V(s) => s.gets(),
            SlotSrc::B(s) => s.gets(),
            SlotSrc::C(s) => s.gets(),
        })
        .sum()
}
fn make<T: Pay>(kind: LK, ex: &Extra<T>) -> Rig<T> {
    let srcs: Vec<SlotSrc<T>> = kind
        .layout()
        .iter()
        .map(|c| match c {
            'V' => SlotSrc::V(Src::new()),
            'B' => SlotSrc::B(Src::new()),
            _ => SlotSrc::C(TSrc::new(0)),
        })
        .collect();
    let v = |i: usize| -> Src<T> {
        match &srcs[i] {
            SlotSrc::V(s) => s.clone(),
            _ => unreachable!(),
        }
    };
    let b = |i: usize| -> Src<bool> {
        match &srcs[i] {
            SlotSrc::B(s) => s.clone(),
            _ => unreachable!(),
        }
    };
    let c = |i: usize| -> TSrc {
        match &srcs[i] {
            SlotSrc::C(s) => s.clone(),
            _ => unreachable!(),
        }
    };
    let nary = |k: Kind, n: usize| -> (ReadFn<T>, UpdFn) {
        let ss: Vec<Src<T>> = (0..n).map(&v).collect();
        let a = rc(build_nary::<T>(k, &ss));
        let a2 = a.clone();
        (Box::new(move || AnyOut::V(a.borrow().get())), Box::new(move || a2.borrow_mut().update()))
    };
    let (read, update): (ReadFn<T>, UpdFn) = match kind {
        LK::Sum(n) => nary(Kind::Sum, n),
        LK::Product(n) => nary(Kind::Product, n),
        LK::Latest(n) => nary(Kind::Latest, n),
        LK::Sum2 => vbox(Sum2::new(v(0).dynref(), v(1).typed())),
        LK::Product2 => vbox(Product2::new(v(0).typed(), v(1).dynref())),
        LK::Difference => vbox(DifferenceStream::new(v(0).typed(), v(1).dynref())),
        LK::Quotient => vbox(QuotientStream::new(v(0).dynref(), v(1).typed())),
        LK::Exponent => {
            let a = rc(T::exponent(&v(0), &v(1)).expect("ExponentStream is only instantiated for f32"));
            let a2 = a.clone();
            (Box::new(move || AnyOut::V(a.borrow().get())) as ReadFn<T>, Box::new(move || a2.borrow_mut().update()) as UpdFn)
        }
        LK::And => bbox(AndStream::new(b(0).dynref(), b(1).typed())),
        LK::Or => bbox(OrStream::new(b(0).typed(), b(1).dynref())),
        LK::Not => bbox(NotStream::new(b(0).dynref())),
        LK::If => vbox(IfStream::new(b(0).dynref(), v(1).dynref())),
        LK::IfElse => vbox(IfElseStream::new(b(0).typed(), v(1).dynref(), v(2).typed())),
        LK::NoneToError => vbox(NoneToError::new(v(0).dynref())),
        LK::NoneToValue => vbox(NoneToValue::new(v(0).dynref(), c(1).dynref(), ex.none_value)),
        LK::Expirer => vbox(Expirer::new(v(0).dynref(), c(1).dynref(), Time(ex.limit))),
        LK::Constant => vbox(ConstantGetter::new(c(0).dynref(), ex.constant)),
    };
    Rig { srcs, read, update }
}
/// value / stamp generator of one sequence
struct Gen<T> {
    proto: T,
    multiplicative: bool,
    /// Expirer subtracts times: keep |t| <= 2^59 (guide, Discipline 4)
    bounded: bool,
}
const B59: i64 = 1i64 << 59;
fn ll_val<T: Pay>(rng: &mut Rng, g: &Gen<T>) -> T {
    if g.multiplicative {
        T::multiplicative(rng, 1)[0]
    } else {
        T::like(rng, g.proto)
    }
}
fn ll_stamp(rng: &mut Rng, bounded: bool) -> i64 {
    if bounded {
        match rng.below(5) {
            0 => 0,
            1 => rng.range_i64(-1000, 1000),
            2 => rng.sign() as i64 * rng.range_i64(900_000_000_000_000, 1_100_000_000_000_000),
            3 => rng.sign() as i64 * (B59 - rng.range_i64(0, 1000)),
            _ => rng.range_i64(-(1i64 << 40), 1i64 << 40),
        }
    } else {
        match rng.below(10) {
            0 => i64::MIN,
            1 => i64::MAX,
            _ => rng.stamp(),
        }
    }
}
/// a stamp different from `t`: a small step up or down, a tie with another input, or unrelated
fn ll_other_stamp(rng: &mut Rng, t: i64, others: &[i64], bounded: bool) -> i64 {
    let mut nt = match rng.below(4) {
        0 => t.checked_add(gap(rng)).unwrap_or(i64::MAX - 1),
        1 => t.checked_sub(gap(rng)).unwrap_or(i64::MIN + 1),
        2 if !others.is_empty() => *rng.pick(others),
        _ => ll_stamp(rng, bounded),
    };
    if bounded {
        nt = nt.clamp(-B59, B59);
    }
    if nt == t {
        nt = if t > 0 { t - 1 } else { t + 1 };
    }
    nt
}
fn slot_cat<T>(s: &Slot<T>) -> u8 {
    fn ec(e: &Error<E>) -> u8 {
        match e {
            Error::FromNone => 0,
            Error::Other(1) => 1,
            _ => 2,
        }
    }
    match s {
        Slot::V(Err(e)) | Slot::B(Err(e)) | Slot::C(Err(e)) => ec(e),
        Slot::V(Ok(None)) | Slot::B(Ok(None)) => NONE,
        _ => PRES,
    }
}
fn slot_time<T>(s: &Slot<T>) -> Option<i64> {
    match s {
        Slot::V(Ok(Some(d))) => Some(d.time.0),
        Slot::B(Ok(Some(d))) => Some(d.time.0),
        Slot::C(Ok(t)) => Some(t.0),
        _ => None,
    }
}
/// Change exactly one aspect of exactly one slot. `shadow[i]` remembers the last present content of
/// slot i, so that a slot going present -> absent/error -> present comes back with the SAME datum
/// (the situation a stale cache would mishandle). Returns (aspect, slot index).
fn mutate<T: Pay>(rng: &mut Rng, slots: &mut [Slot<T>], shadow: &mut [Slot<T>], g: &Gen<T>) -> (&'static str, usize) {
    let want = rng.below(3);
    let pres: Vec<usize> = (0..slots.len()).filter(|j| slot_cat(&slots[*j]) == PRES).collect();
    // a timestamp / value change needs a present input; otherwise (or one time in three) a category change
    let i = if want < 2 && !pres.is_empty() { *rng.pick(&pres) } else { rng.usize(slots.len()) };
    let others: Vec<i64> = (0..slots.len()).filter(|j| *j != i).filter_map(|j| slot_time(&slots[j])).collect();
    let present_now = slot_cat(&slots[i]) == PRES;
    if present_now && want < 2 {
        let aspect = match &mut slots[i] {
            Slot::V(Ok(Some(d))) => {
                if want == 0 {
                    d.time = Time(ll_other_stamp(rng, d.time.0, &others, g.bounded));
                    "time"
                } else {
                    let old = d.value;
                    for _ in 0..4 {
                        d.value = ll_val(rng, g);
                        if !T::veq(&old, &d.value) {
                            break;
                        }
                    }
                    "value"
                }
            }
            Slot::B(Ok(Some(d))) => {
                if want == 0 {
                    d.time = Time(ll_other_stamp(rng, d.time.0, &others, g.bounded));
                    "time"
                } else {
                    d.value = !d.value;
                    "value"
                }
            }
            Slot::C(Ok(t)) => {
                *t = Time(ll_other_stamp(rng, t.0, &others, g.bounded));
                "time"
            }
            _ => unreachable!(),
        };
        shadow[i] = slots[i].clone();
        return (aspect, i);
    }
    // category change
    let cur = slot_cat(&slots[i]);
    let is_clock = matches!(slots[i], Slot::C(_));
    let new = loop {
        let c = match rng.below(10) {
            0..=3 => PRES,
            4..=6 => NONE,
            7 => 0,
            8 => 1,
            _ => 2,
        };
        if c != cur && !(is_clock && c == NONE) {
            break c;
        }
    };
    slots[i] = if new == PRES {
        shadow[i].clone()
    } else {
        match &slots[i] {
            Slot::V(_) => Slot::V(mk(new, 0, g.proto)),
            Slot::B(_) => Slot::B(mk(new, 0, false)),
            Slot::C(_) => Slot::C(Err(err_code(new))),
        }
    };
    ("category", i)
}
fn longlived_case<T: Pay>(ck: &mut Ck, kind: LK, rng: &mut Rng) {
    let len = 8 + rng.usize(9);
    let g = Gen {
        proto: T::additive(rng, 1)[0],
        multiplicative: matches!(kind, LK::Product(_) | LK::Product2 | LK::Quotient),
        bounded: kind == LK::Expirer,
    };
    let ex = Extra {
        none_value: if rng.chance(0.3) { T::special(rng, g.proto) } else { ll_val(rng, &g) },
        constant: if rng.chance(0.3) { T::special(rng, g.proto) } else { ll_val(rng, &g) },
        // the whole limit pool, extremes included: the long-lived Expirer's stamps stay within 2^59
        limit: {
            let lim = rng.below(NLIM as u64) as u8;
            limit_of(rng, lim)
        },
    };
    // initial assignment: everything present, stamps from a few distinct values (ties likely)
    let lay = kind.layout();
    let pool = distinct_stamps(rng, 3);
    let pick_t = |rng: &mut Rng| if g.bounded { ll_stamp(rng, true) } else { *rng.pick(&pool) };
    let mut shadow: Vec<Slot<T>> = Vec::new();
    for c in &lay {
        let t = pick_t(rng);
        shadow.push(match c {
            'V' => Slot::V(Ok(Some(Datum::new(Time(t), ll_val(rng, &g))))),
            'B' => Slot::B(Ok(Some(Datum::new(Time(t), rng.chance(0.5))))),
            _ => Slot::C(Ok(Time(t))),
        });
    }
    let mut slots = shadow.clone();
    if rng.chance(0.4) {
        // start from a mixed assignment instead
        for i in 0..slots.len() {
            let c = rng.below(AV as u64 + 2) as u8; // present twice as likely as the others
            if c < PRES && !(c == NONE && lay[i] == 'C') {
                slots[i] = match lay[i] {
                    'V' => Slot::V(mk(c, 0, g.proto)),
                    'B' => Slot::B(mk(c, 0, false)),
                    _ => Slot::C(Err(err_code(c))),
                };
            }
        }
    }
    let rig = make::<T>(kind, &ex);
    let stream = kind.name();
    let mut history: Vec<String> = Vec::new();
    let mut prev_fresh: Option<AnyOut<T>> = None;
    for step in 0..len {
        // update() of the combinator itself at arbitrary points: while the inputs still hold the
        // PREVIOUS assignment (schedule [set A; update(); set B; get()] must describe B) and/or after
        // the new one. It is the documented no-op of a stateless combinator and must return Ok(()).
        let upd_before = step > 0 && rng.chance(0.5);
        let upd_after = rng.chance(0.25);
        let run_update = |ck: &mut Ck, when: &str, history: &mut Vec<String>| {
            let polls0 = rig_polls(&rig);
            let r = catch(|| (rig.update)());
            ck.rep.eval();
            ck.rep.max("update_input_polls_per_call", (rig_polls(&rig) - polls0) as f64);
            history.push(format!("update() {}", when));
            match r {
                Ok(Ok(())) => ck.rep.tally("combinator_update_calls_ok"),
                other => ck.rep.violation(&format!("C02/{}/update-result", stream), ck.sub, ck.case,
                    format!("{}<{}> after {}: update() of the combinator returned {:?}, documented no-op Ok(())", stream, T::NAME, history.join("; "), other)),
            }
        };
        if upd_before {
            run_update(ck, "while the inputs hold the previous assignment", &mut history);
        }
        let (aspect, which) = if step == 0 { ("initial", 0) } else { mutate(rng, &mut slots, &mut shadow, &g) };
        rig.set(&slots);
        history.push(format!("#{} [{} of input {}] {:?}", step, aspect, which, slots));
        if upd_after {
            run_update(ck, "after this assignment", &mut history);
        }
        let nreads = 1 + rng.usize(2);
        let live: Result<Vec<AnyOut<T>>, String> = catch(|| (0..nreads).map(|_| (rig.read)()).collect());
        let fresh_rig = make::<T>(kind, &ex);
        fresh_rig.set(&slots);
        let fresh = catch(|| (fresh_rig.read)());
        ck.rep.eval();
        let cats: Vec<u8> = slots.iter().map(slot_cat).collect();
        ck.rep.distinct(("longlived", stream, T::NAME, lay.len(), aspect, which, cats));
        if ck.rep.verbose {
            eprintln!("case {}:{} {}<{}> {} -> long-lived {:?} fresh {:?}", ck.sub, ck.case, stream, T::NAME, history.last().unwrap(), live, fresh);
        }
        match (&live, &fresh) {
            (Ok(l), Ok(fr)) => {
                if l.iter().all(|x| any_same(x, fr)) {
                    ck.rep.tally(&format!("history_steps:{}", aspect));
                    if let Some(p) = &prev_fresh {
                        if !any_same(p, fr) {
                            if upd_before && !upd_after {
                                // [set A; update(); set B; get()] where B reads differently from A
                                ck.rep.tally("update_then_change_then_get_with_changed_output");
                                ck.rep.tally(&format!("update_then_change_then_get:{}", stream));
                            }
                            ck.rep.tally(&format!("history_steps_changing_the_output:{}", aspect));
                            if kind == LK::Exponent {
                                ck.rep.tally("history_exponent_steps_changing_the_output");
                            }
                        }
                    }
                } else {
                    ck.rep.violation(&format!("C02/{}/history", stream), ck.sub, ck.case,
                        format!("{}<{}> (constructor: none_value {:?} constant {:?} limit {}): after the assignments {} the long-lived instance returns {:?} but a fresh instance given the last assignment returns {:?}",
                            stream, T::NAME, ex.none_value, ex.constant, ex.limit, history.join("; "), l, fr));
                }
            }
            _ => {
                ck.rep.violation(&format!("C02/{}/panic", stream), ck.sub, ck.case,
                    format!("{}<{}> after the assignments {}: long-lived {:?} fresh {:?}", stream, T::NAME, history.join("; "), live, fresh));
            }
        }
        if step == len - 1 && ck.rep.want_sample("longlived") && lay.len() >= 2 && T::NAME == "f32" {
            ck.rep.sample("longlived", format!("{}<{}> {} -> last read {:?}", stream, T::NAME, history.join("; "), fresh));
        }
        prev_fresh = fresh.ok();
    }
}

// ---------------------------------------------------------------------------------------------
// aliased inputs: the SAME source object in two (or all) input slots, through every Reference backing
// ---------------------------------------------------------------------------------------------
// A program may feed one signal to both inputs of a combinator (x*x, x+x, And(a,a) ...). The documented
// outcome is simply the outcome for equal operands. With a lock-backed Reference a combinator that keeps
// the guard of one input alive while borrowing the next never returns (self-deadlock on a Mutex) or
// panics (RefCell already borrowed): each case therefore runs on a helper thread and the monitor waits
// with a generous bound; "did not return" is the logical non-return of one uncontended call, not a
// performance verdict. References are !Send, so everything is built inside the thread and only the
// verdict travels back. (The raw-pointer backings leak a few bytes per case, deliberately.)
use std::sync::{mpsc, Arc, Mutex, RwLock};
#[derive(Clone, Copy, PartialEq, Eq, Debug, Hash)]
enum AK {
    Sum(usize),
    Product(usize),
    Latest(usize),
    Sum2,
    Product2,
    Difference,
    Quotient,
    Exponent,
    IfElse,
    And,
    Or,
    IfBool,
    IfElseBool,
    /// the SAME object is the data input and the clock
    ExpirerClock,
    NoneToValueClock,
}
impl AK {
    fn name(self) -> &'static str {
        match self {
            AK::Sum(_) => "SumStream",
            AK::Product(_) => "ProductStream",
            AK::Latest(_) => "Latest",
            AK::Sum2 => "Sum2",
            AK::Product2 => "Product2",
            AK::Difference => "DifferenceStream",
            AK::Quotient => "QuotientStream",
            AK::Exponent => "ExponentStream",
            AK::IfElse | AK::IfElseBool => "IfElseStream",
            AK::And => "AndStream",
            AK::Or => "OrStream",
            AK::IfBool => "IfStream",
            AK::ExpirerClock => "Expirer",
            AK::NoneToValueClock => "NoneToValue",
        }
    }
    fn is_clock(self) -> bool {
        matches!(self, AK::ExpirerClock | AK::NoneToValueClock)
    }
    fn is_bool(self) -> bool {
        matches!(self, AK::And | AK::Or | AK::IfBool | AK::IfElseBool)
    }
    fn payloads(self) -> &'static [&'static str] {
        if self.is_bool() {
            &["bool"]
        } else if self == AK::Exponent {
            &["f32"]
        } else {
            &["f32", "Quantity", "M2"]
        }
    }
    fn describe(self) -> String {
        match self {
            AK::Sum(n) | AK::Product(n) | AK::Latest(n) => format!("{}<{}> with all {} inputs aliased", self.name(), n, n),
            AK::IfElse => "IfElseStream with both branches aliased".to_string(),
            AK::IfBool => "IfStream<bool> with condition and input aliased".to_string(),
            AK::IfElseBool => "IfElseStream<bool> with condition and both branches aliased".to_string(),
            AK::ExpirerClock => "Expirer whose data input and time getter are one object".to_string(),
            AK::NoneToValueClock => "NoneToValue whose data input and time getter are one object".to_string(),
            _ => format!("{} with both inputs aliased", self.name()),
        }
    }
}
const BACKINGS: [&str; 6] = ["Rc<RefCell>", "raw-ptr", "Arc<Mutex>", "Arc<RwLock>", "ptr-Mutex", "ptr-RwLock"];
struct Fixed<T: Clone> {
    out: Out<T>,
}
impl<T: Clone> Getter<T, E> for Fixed<T> {
    fn get(&self) -> Out<T> {
        self.out.clone()
    }
}
impl<T: Clone> Updatable<E> for Fixed<T> {
    fn update(&mut self) -> NothingOrError<E> {
        Ok(())
    }
}
fn alias_ref<T: Clone + 'static>(backing: usize, out: Out<T>) -> Reference<dyn Getter<T, E>> {
    let fx = Fixed { out };
    match backing {
        0 => {
            let r: std::rc::Rc<std::cell::RefCell<dyn Getter<T, E>>> = rc(fx);
            Reference::from_rc_ref_cell(r)
        }
        1 => {
            let p: *mut dyn Getter<T, E> = Box::into_raw(Box::new(fx));
            unsafe { Reference::from_ptr(p) }
        }
        2 => {
            let a: Arc<Mutex<dyn Getter<T, E>>> = Arc::new(Mutex::new(fx));
            Reference::from_arc_mutex(a)
        }
        3 => {
            let a: Arc<RwLock<dyn Getter<T, E>>> = Arc::new(RwLock::new(fx));
            Reference::from_arc_rw_lock(a)
        }
        4 => {
            let p: *mut Mutex<dyn Getter<T, E>> = Box::into_raw(Box::new(Mutex::new(fx)));
            unsafe { Reference::from_ptr_mutex(p as *const _) }
        }
        _ => {
            let p: *mut RwLock<dyn Getter<T, E>> = Box::into_raw(Box::new(RwLock::new(fx)));
            unsafe { Reference::from_ptr_rw_lock(p as *const _) }
        }
    }
}
enum AVerdict {
    Match,
    Panic(String),
    Wrong(&'static str, String),
}
struct AMsg {
    cat: &'static str,
    verdict: AVerdict,
}
fn a_judge<T: Debug>(what: &str, obs: &Obs<T>, ok: &[Out<T>], veq: fn(&T, &T) -> bool) -> AMsg {
    match obs {
        Err(m) => AMsg { cat: "panic", verdict: AVerdict::Panic(format!("{}: get() panicked: {}", what, m)) },
        Ok(o) => {
            let c = cat(&o[0]);
            if !(out_same(&o[0], &o[1], veq) && out_same(&o[0], &o[2], veq)) {
                AMsg { cat: c, verdict: AVerdict::Wrong("purity", format!("{}: three successive get() returned {:?}", what, o)) }
            } else if ok.iter().any(|e| out_same(&o[0], e, veq)) {
                AMsg { cat: c, verdict: AVerdict::Match }
            } else {
                AMsg { cat: c, verdict: AVerdict::Wrong("outcome", format!("{}: observed {:?}, acceptable {:?}", what, o[0], ok)) }
            }
        }
    }
}
/// one object that is both a data getter and a clock
struct Both<T: Clone> {
    out: Out<T>,
    now: TimeOutput<E>,
}
impl<T: Clone> Getter<T, E> for Both<T> {
    fn get(&self) -> Out<T> {
        self.out.clone()
    }
}
impl<T: Clone> TimeGetter<E> for Both<T> {
    fn get(&self) -> TimeOutput<E> {
        self.now
    }
}
impl<T: Clone> Updatable<E> for Both<T> {
    fn update(&mut self) -> NothingOrError<E> {
        Ok(())
    }
}
/// two References (data face, clock face) over the SAME object
fn alias_both<T: Clone + 'static>(backing: usize, b: Both<T>) -> (Reference<dyn Getter<T, E>>, Reference<dyn TimeGetter<E>>) {
    match backing {
        0 => {
            let a = rc(b);
            let g: std::rc::Rc<std::cell::RefCell<dyn Getter<T, E>>> = a.clone();
            let c: std::rc::Rc<std::cell::RefCell<dyn TimeGetter<E>>> = a;
            (Reference::from_rc_ref_cell(g), Reference::from_rc_ref_cell(c))
        }
        1 => {
            let p: *mut Both<T> = Box::into_raw(Box::new(b));
            unsafe { (Reference::from_ptr(p as *mut dyn Getter<T, E>), Reference::from_ptr(p as *mut dyn TimeGetter<E>)) }
        }
        2 => {
            let a = Arc::new(Mutex::new(b));
            let g: Arc<Mutex<dyn Getter<T, E>>> = a.clone();
            let c: Arc<Mutex<dyn TimeGetter<E>>> = a;
            (Reference::from_arc_mutex(g), Reference::from_arc_mutex(c))
        }
        3 => {
            let a = Arc::new(RwLock::new(b));
            let g: Arc<RwLock<dyn Getter<T, E>>> = a.clone();
            let c: Arc<RwLock<dyn TimeGetter<E>>> = a;
            (Reference::from_arc_rw_lock(g), Reference::from_arc_rw_lock(c))
        }
        4 => {
            let p: *mut Mutex<Both<T>> = Box::into_raw(Box::new(Mutex::new(b)));
            unsafe { (Reference::from_ptr_mutex(p as *const Mutex<dyn Getter<T, E>>), Reference::from_ptr_mutex(p as *const Mutex<dyn TimeGetter<E>>)) }
        }
        _ => {
            let p: *mut RwLock<Both<T>> = Box::into_raw(Box::new(RwLock::new(b)));
            unsafe { (Reference::from_ptr_rw_lock(p as *const RwLock<dyn Getter<T, E>>), Reference::from_ptr_rw_lock(p as *const RwLock<dyn TimeGetter<E>>)) }
        }
    }
}
/// cell code of the getter/clock cases: data outcome (0..AV) + AV * clock outcome (0 = Ok, 1..=3 = the errors)
fn alias_clock<T: Pay>(kind: AK, backing: usize, cell: u8, rng: &mut Rng) -> AMsg {
    let (code, tgc) = (cell % AV, cell / AV);
    // the Expirer subtracts the two stamps: both stay within 2^59
    let t = ll_stamp(rng, true);
    let now = match rng.below(4) {
        0 => t,
        1 => t.saturating_add(gap(rng)).min(B59),
        2 => t.saturating_sub(gap(rng)).max(-B59),
        _ => ll_stamp(rng, true),
    };
    let v = T::additive(rng, 1)[0];
    let out: Out<T> = mk(code, t, v);
    let tgo: TimeOutput<E> = if tgc == 0 { Ok(Time(now)) } else { Err(err_code(tgc - 1)) };
    let (g, c) = alias_both(backing, Both { out: out.clone(), now: tgo });
    match kind {
        AK::ExpirerClock => {
            let lim = rng.below(NLIM as u64) as u8;
            let limit = limit_of(rng, lim);
            let what = format!("{} <{}> through {}: as a getter it returns {:?}, as a clock {:?}; max_time_delta {}", kind.describe(), T::NAME, BACKINGS[backing], out, tgo, limit);
            let obs = get3(&Expirer::new(g, c, Time(limit)));
            let mut ok: Vec<Out<T>> = Vec::new();
            match (&out, &tgo) {
                (Err(e), _) => ok.push(Err(*e)),
                (Ok(None), Ok(_)) => ok.push(Ok(None)),
                (Ok(None), Err(e)) => {
                    ok.push(Ok(None));
                    ok.push(Err(*e));
                }
                (Ok(Some(_)), Err(e)) => ok.push(Err(*e)),
                (Ok(Some(_)), Ok(_)) => ok.push(if expired(now, t, limit) { Ok(None) } else { out.clone() }),
            }
            a_judge(&what, &obs, &ok, T::veq)
        }
        _ => {
            let nv = if rng.chance(0.5) { T::special(rng, v) } else { T::like(rng, v) };
            let what = format!("{} <{}> through {}: as a getter it returns {:?}, as a clock {:?}; none_value {:?}", kind.describe(), T::NAME, BACKINGS[backing], out, tgo, nv);
            let obs = get3(&NoneToValue::new(g, c, nv));
            let mut ok: Vec<Out<T>> = Vec::new();
            match (&out, &tgo) {
                (Err(e), _) => ok.push(Err(*e)),
                (Ok(Some(_)), Ok(_)) => ok.push(out.clone()),
                (Ok(Some(_)), Err(e)) => {
                    ok.push(out.clone());
                    ok.push(Err(*e));
                }
                (Ok(None), Ok(now)) => ok.push(Ok(Some(Datum::new(*now, nv)))),
                (Ok(None), Err(e)) => ok.push(Err(*e)),
            }
            a_judge(&what, &obs, &ok, T::veq)
        }
    }
}
fn alias_val<T: Pay>(kind: AK, backing: usize, code: u8, rng: &mut Rng) -> AMsg {
    if kind.is_clock() {
        return alias_clock::<T>(kind, backing, code, rng);
    }
    let t = distinct_stamps(rng, 1)[0];
    let v = T::additive(rng, 1)[0];
    let out: Out<T> = mk(code, t, v);
    let r = alias_ref(backing, out.clone());
    let what = format!("{} <{}> through {}, the shared input returns {:?}", kind.describe(), T::NAME, BACKINGS[backing], out);
    let two = vec![out.clone(), out.clone()];
    match kind {
        AK::Sum(n) | AK::Product(n) | AK::Latest(n) => {
            let refs = vec![r; n];
            let outs = vec![out.clone(); n];
            let k = match kind {
                AK::Sum(_) => Kind::Sum,
                AK::Product(_) => Kind::Product,
                _ => Kind::Latest,
            };
            let g = build_nary_refs::<T>(k, &refs);
            let obs = get3(&*g);
            let ok = match k {
                Kind::Sum => nary_acceptable(&outs, |a, b| a + b, &obs),
                Kind::Product => nary_acceptable(&outs, |a, b| a * b, &obs),
                Kind::Latest => vec![match &out {
                    Ok(Some(_)) => out.clone(),
                    _ => Ok(None),
                }],
            };
            a_judge(&what, &obs, &ok, T::veq)
        }
        AK::Sum2 => a_judge(&what, &get3(&Sum2::new(r.clone(), r)), &[fold_oracle(&two, |a, b| a + b)], T::veq),
        AK::Product2 => a_judge(&what, &get3(&Product2::new(r.clone(), r)), &[fold_oracle(&two, |a, b| a * b)], T::veq),
        AK::Difference => a_judge(&what, &get3(&DifferenceStream::new(r.clone(), r)), &[asym_oracle(&two, |a, b| a - b)], T::veq),
        AK::Quotient => a_judge(&what, &get3(&QuotientStream::new(r.clone(), r)), &[asym_oracle(&two, |a, b| a / b)], T::veq),
        AK::Exponent => {
            let g = T::exponent_refs(r.clone(), r).expect("f32 only");
            let obs = get3(&*g);
            match T::reference_pow(v, v) {
                Some(pw) => a_judge(&what, &obs, &[asym_oracle(&two, |_, _| pw)], T::veq),
                None => AMsg { cat: "panic", verdict: AVerdict::Wrong("reference", format!("{}: the reference ExponentStream on ConstantGetters gave no value", what)) },
            }
        }
        AK::IfElse => {
            // whichever branch the (independent) condition selects, it is the shared input
            let c = Src::<bool>::with(Ok(Some(Datum::new(Time(distinct_stamps(rng, 1)[0]), rng.chance(0.5)))));
            a_judge(&what, &get3(&IfElseStream::new(c.dynref(), r.clone(), r)), &[out.clone()], T::veq)
        }
        _ => unreachable!(),
    }
}
fn alias_bool(kind: AK, backing: usize, code: u8, rng: &mut Rng) -> AMsg {
    let t = distinct_stamps(rng, 1)[0];
    let out: Out<bool> = mk(code, t, code == TRUE);
    let r = alias_ref(backing, out.clone());
    let what = format!("{} through {}, the shared input returns {:?}", kind.describe(), BACKINGS[backing], out);
    let two = vec![out.clone(), out.clone()];
    match kind {
        AK::And => a_judge(&what, &get3(&AndStream::new(r.clone(), r)), &[table_oracle(&two, &AND_TABLE)], beq),
        AK::Or => a_judge(&what, &get3(&OrStream::new(r.clone(), r)), &[table_oracle(&two, &OR_TABLE)], beq),
        AK::IfBool => {
            // propagates the input iff the condition is Some(true); a condition error is returned
            let exp: Out<bool> = match &out {
                Err(e) => Err(*e),
                Ok(Some(d)) if d.value => out.clone(),
                _ => Ok(None),
            };
            a_judge(&what, &get3(&IfStream::new(r.clone(), r)), &[exp], beq)
        }
        AK::IfElseBool => {
            // error -> error, absent -> absent, Some(true)/Some(false) -> that branch = the shared input
            a_judge(&what, &get3(&IfElseStream::new(r.clone(), r.clone(), r)), &[out.clone()], beq)
        }
        _ => unreachable!(),
    }
}
/// the (payload, input outcome code) cells of one aliased case, in the order the helper thread runs them
fn alias_plan(kind: AK) -> Vec<(&'static str, u8)> {
    let mut v = Vec::new();
    for p in kind.payloads() {
        for code in 0..if kind.is_bool() { AB } else if kind.is_clock() { AV * 4 } else { AV } {
            v.push((*p, code));
        }
    }
    v
}
struct APending {
    case: u64,
    kind: AK,
    backing: usize,
    plan: Vec<(&'static str, u8)>,
    rx: mpsc::Receiver<AMsg>,
    spawned: std::time::Instant,
}
fn alias_spawn(seed: u64, case: u64, kind: AK, backing: usize) -> APending {
    let (tx, rx) = mpsc::channel::<AMsg>();
    let plan = alias_plan(kind);
    let plan2 = plan.clone();
    // detached on purpose: a helper that never returns must not keep the monitor from finishing
    // (`Report::finish` ends the process with std::process::exit)
    let _ = std::thread::Builder::new().name(format!("c02-aliased-{}", case)).spawn(move || {
        let mut rng = Rng::new(seed, 213, case);
        for (p, code) in plan2 {
            let m = match catch(|| match p {
                "f32" => alias_val::<f32>(kind, backing, code, &mut rng),
                "Quantity" => alias_val::<Quantity>(kind, backing, code, &mut rng),
                "M2" => alias_val::<M2>(kind, backing, code, &mut rng),
                _ => alias_bool(kind, backing, code, &mut rng),
            }) {
                Ok(m) => m,
                Err(msg) => AMsg { cat: "panic", verdict: AVerdict::Panic(format!("{} through {}: panicked outside get(): {}", kind.describe(), BACKINGS[backing], msg)) },
            };
            if tx.send(m).is_err() {
                return;
            }
        }
    });
    APending { case, kind, backing, plan, rx, spawned: std::time::Instant::now() }
}
/// collect the verdicts of one helper thread; returns true if it hung. `known_hung`: the same
/// (combinator, backing) has already been reported as not returning in this process; its other helpers
/// are not waited for again (what they did report is still checked).
fn alias_collect(rep: &mut Report, p: APending, known_hung: bool) -> bool {
    let stream = p.kind.name();
    let back = BACKINGS[p.backing];
    for (i, (pay, code)) in p.plan.iter().enumerate() {
        // generous: 20 s from the start of the helper (and never less than 2 s per cell) for work that
        // takes microseconds; only a call that does not return at all gets here
        let left = if known_hung {
            std::time::Duration::from_millis(1)
        } else {
            std::time::Duration::from_secs(20).saturating_sub(p.spawned.elapsed()).max(std::time::Duration::from_secs(2))
        };
        rep.eval();
        rep.distinct(("aliased", format!("{:?}", p.kind), p.backing, *pay, *code));
        let mut got = p.rx.recv_timeout(left);
        if !known_hung && matches!(got, Err(mpsc::RecvTimeoutError::Timeout)) {
            // confirmation wait: a starved machine must not turn into a verdict; a self-deadlock stays one forever
            rep.tally("aliased_first_wait_expired");
            got = p.rx.recv_timeout(std::time::Duration::from_secs(110).saturating_sub(p.spawned.elapsed()).max(std::time::Duration::from_secs(1))); // all helpers were spawned up front: 110 s from spawn in total
        }
        match got {
            Ok(m) => {
                if rep.verbose {
                    eprintln!("case aliased:{} {} <{}> through {} input code {} -> {}", p.case, p.kind.describe(), pay, back, code, m.cat);
                }
                match m.verdict {
                    AVerdict::Match => {
                        rep.tally(&format!("aliased_ok:{}", back));
                        rep.tally(&format!("aliased_ok_stream:{}", stream));
                        rep.tally(&format!("aliased_out:{}", m.cat));
                        if rep.want_sample("aliased") && p.backing == 2 && *code == PRES {
                            rep.sample("aliased", format!("{} <{}> through {}: documented outcome for equal operands ({})", p.kind.describe(), pay, back, m.cat));
                        }
                    }
                    AVerdict::Panic(d) => rep.violation(&format!("C02/aliased-inputs-panic/{}/{}", stream, back), "aliased", p.case, d),
                    AVerdict::Wrong(clause, d) => rep.violation(&format!("C02/aliased-inputs/{}/{}", stream, clause), "aliased", p.case, d),
                }
            }
            Err(mpsc::RecvTimeoutError::Timeout) if known_hung => {
                rep.tally("aliased_cases_not_waited_for_after_a_hang");
                return true;
            }
            Err(mpsc::RecvTimeoutError::Timeout) => {
                rep.violation(&format!("C02/aliased-inputs-hang/{}/{}", stream, back), "aliased", p.case,
                    format!("{} <{}> through {}, shared input outcome code {} (0..2 = Err(FromNone/Other(1)/Other(2)), 3 = None, 4.. = Some; for the getter/clock cases: data outcome + 5 x clock outcome, clock 0 = Ok, 1..3 = the errors): get() did not return within {:?} on an otherwise idle helper thread (the same object is reachable through both inputs: a guard of one input still held while the other is borrowed never lets the second borrow succeed)",
                        p.kind.describe(), pay, back, code, p.spawned.elapsed()));
                rep.tally_n("aliased_cells_not_run_after_a_hang", (p.plan.len() - i - 1) as u64);
                return true;
            }
            Err(mpsc::RecvTimeoutError::Disconnected) => {
                rep.violation(&format!("C02/aliased-inputs-panic/{}/{}", stream, back), "aliased", p.case,
                    format!("{} <{}> through {}, input code {}: the helper thread died without reporting", p.kind.describe(), pay, back, code));
                return false;
            }
        }
    }
    false
}

// ---------------------------------------------------------------------------------------------
fn main() {
    let args = Args::parse();
    let mut rep = Report::new("C02", &args);
    let reps = args.pick(30, 2000);

    // ---- 1. n-ary: SumStream / ProductStream / Latest, arity 1..=5, f32 and Quantity
    {
        let mut all: Vec<Shape> = Vec::new();
        for n in 1..=5usize {
            all.extend(shapes(&vec![AV; n]));
        }
        rep.tally_n("shapes_nary_per_stream_and_payload", all.len() as u64);
        let mut idx = 0u64;
        for rpt in 0..reps {
            let _ = rpt;
            for kind in [Kind::Sum, Kind::Product, Kind::Latest] {
                for p in 0..3 {
                    for sh in &all {
                        let case = idx;
                        idx += 1;
                        if !args.mine("nary", case) {
                            continue;
                        }
                        let mut rng = Rng::new(args.seed, 201, case);
                        let mut ck = Ck { rep: &mut rep, sub: "nary", case };
                        match p {
                            0 => nary_case::<f32>(&mut ck, kind, sh, &mut rng),
                            1 => nary_case::<Quantity>(&mut ck, kind, sh, &mut rng),
                            _ => nary_case::<M2>(&mut ck, kind, sh, &mut rng),
                        }
                    }
                }
            }
        }
        rep.exhaustive("SumStream/ProductStream/Latest x arity 1..=5 x {Err(FromNone),Err(1),Err(2),None,Some}^arity x every weak ordering of the present inputs' timestamps x {f32,Quantity,M2 (non-commutative)}");
    }
    // ---- 2. binary arithmetic (+ Sum2 == SumStream<2>, Product2 == ProductStream<2>)
    {
        let all = shapes(&[AV, AV]);
        rep.tally_n("shapes_binary_per_payload", all.len() as u64);
        let mut idx = 0u64;
        for _ in 0..reps * 40 {
            for p in 0..3 {
                for sh in &all {
                    let case = idx;
                    idx += 1;
                    if !args.mine("binary", case) {
                        continue;
                    }
                    let mut rng = Rng::new(args.seed, 202, case);
                    let mut ck = Ck { rep: &mut rep, sub: "binary", case };
                    match p {
                        0 => binary_case::<f32>(&mut ck, sh, &mut rng),
                        1 => binary_case::<Quantity>(&mut ck, sh, &mut rng),
                        _ => binary_case::<M2>(&mut ck, sh, &mut rng),
                    }
                }
            }
        }
        let mut idx = 0u64;
        for _ in 0..reps * 40 {
            for sh in &all {
                let case = idx;
                idx += 1;
                if !args.mine("exponent", case) {
                    continue;
                }
                let mut rng = Rng::new(args.seed, 203, case);
                let mut ck = Ck { rep: &mut rep, sub: "exponent", case };
                exponent_case(&mut ck, sh, &mut rng);
            }
        }
        rep.exhaustive("Sum2/Product2/Difference/Quotient x {Err(FromNone),Err(1),Err(2),None,Some}^2 x timestamp order {<,=,>} x {f32,Quantity,M2}; ExponentStream likewise on f32");
    }
    // ---- 3. logic
    {
        let all = shapes(&[AB, AB]);
        let one = shapes(&[AB]);
        rep.tally_n("shapes_logic2", all.len() as u64);
        let mut idx = 0u64;
        for _ in 0..reps * 40 {
            for sh in &all {
                let case = idx;
                idx += 1;
                if !args.mine("logic", case) {
                    continue;
                }
                let mut rng = Rng::new(args.seed, 204, case);
                let mut ck = Ck { rep: &mut rep, sub: "logic", case };
                logic2_case(&mut ck, sh, &mut rng);
            }
        }
        let mut idx = 0u64;
        for _ in 0..reps * 40 {
            for sh in &one {
                let case = idx;
                idx += 1;
                if !args.mine("not", case) {
                    continue;
                }
                let mut rng = Rng::new(args.seed, 205, case);
                let mut ck = Ck { rep: &mut rep, sub: "not", case };
                not_case(&mut ck, sh, &mut rng);
            }
        }
        rep.exhaustive("AndStream/OrStream/De Morgan x {Err(FromNone),Err(1),Err(2),None,Some(false),Some(true)}^2 x timestamp order; NotStream x 6 inputs");
    }
    // ---- 4. flow
    {
        let ifs = shapes(&[AB, AV]);
        let ifelse = shapes(&[AB, AV, AV]);
        rep.tally_n("shapes_if_per_payload", ifs.len() as u64);
        rep.tally_n("shapes_ifelse_per_payload", ifelse.len() as u64);
        let mut idx = 0u64;
        for _ in 0..reps * 10 {
            for p in 0..2 {
                for sh in &ifs {
                    let case = idx;
                    idx += 1;
                    if !args.mine("if", case) {
                        continue;
                    }
                    let mut rng = Rng::new(args.seed, 206, case);
                    let mut ck = Ck { rep: &mut rep, sub: "if", case };
                    if p == 0 {
                        if_case::<f32>(&mut ck, sh, &mut rng);
                    } else {
                        if_case::<Quantity>(&mut ck, sh, &mut rng);
                    }
                }
            }
        }
        let mut idx = 0u64;
        for _ in 0..reps * 10 {
            for p in 0..2 {
                for sh in &ifelse {
                    let case = idx;
                    idx += 1;
                    if !args.mine("ifelse", case) {
                        continue;
                    }
                    let mut rng = Rng::new(args.seed, 207, case);
                    let mut ck = Ck { rep: &mut rep, sub: "ifelse", case };
                    if p == 0 {
                        ifelse_case::<f32>(&mut ck, sh, &mut rng);
                    } else {
                        ifelse_case::<Quantity>(&mut ck, sh, &mut rng);
                    }
                }
            }
        }
        rep.exhaustive("IfStream x 6 conditions x 5 inputs, IfElseStream x 6 conditions x 5 x 5 branches, x timestamp orders x {f32,Quantity}");
    }
    // ---- 5. unary / nullary
    {
        let mut idx = 0u64;
        for _ in 0..reps * 10 {
            for p in 0..2 {
                for code in 0..AV {
                    let case = idx;
                    idx += 1;
                    if !args.mine("none_to_error", case) {
                        continue;
                    }
                    let mut rng = Rng::new(args.seed, 208, case);
                    let mut ck = Ck { rep: &mut rep, sub: "none_to_error", case };
                    if p == 0 {
                        none_to_error_case::<f32>(&mut ck, code, &mut rng);
                    } else {
                        none_to_error_case::<Quantity>(&mut ck, code, &mut rng);
                    }
                }
            }
        }
        let mut idx = 0u64;
        for _ in 0..reps * 10 {
            for p in 0..2 {
                for code in 0..AV {
                    for tgc in 0..4u8 {
                        for rel in 0..3u8 {
                            let case = idx;
                            idx += 1;
                            if !args.mine("none_to_value", case) {
                                continue;
                            }
                            let mut rng = Rng::new(args.seed, 209, case);
                            let mut ck = Ck { rep: &mut rep, sub: "none_to_value", case };
                            if p == 0 {
                                none_to_value_case::<f32>(&mut ck, code, tgc, rel, &mut rng);
                            } else {
                                none_to_value_case::<Quantity>(&mut ck, code, tgc, rel, &mut rng);
                            }
                        }
                    }
                }
            }
        }
        let mut idx = 0u64;
        for _ in 0..reps * 10 {
            for p in 0..2 {
                for code in 0..AV {
                    for tgc in 0..4u8 {
                        for rel in 0..4u8 {
                            for lim in 0..NLIM {
                                let case = idx;
                                idx += 1;
                                if !args.mine("expirer", case) {
                                    continue;
                                }
                                let mut rng = Rng::new(args.seed, 210, case);
                                let mut ck = Ck { rep: &mut rep, sub: "expirer", case };
                                if p == 0 {
                                    expirer_case::<f32>(&mut ck, code, tgc, rel, lim, &mut rng);
                                } else {
                                    expirer_case::<Quantity>(&mut ck, code, tgc, rel, lim, &mut rng);
                                }
                            }
                        }
                    }
                }
            }
        }
        let mut idx = 0u64;
        for _ in 0..reps * 10 {
            for p in 0..3 {
                for tgc in 0..4u8 {
                    let case = idx;
                    idx += 1;
                    if !args.mine("constant", case) {
                        continue;
                    }
                    let mut rng = Rng::new(args.seed, 211, case);
                    let mut ck = Ck { rep: &mut rep, sub: "constant", case };
                    match p {
                        0 => {
                            let v = if rng.chance(0.5) { fspecial(&mut rng) } else { fval(&mut rng) };
                            constant_case::<f32>(&mut ck, "f32", v, f32::veq, tgc, &mut rng)
                        }
                        1 => {
                            let v = Quantity::additive(&mut rng, 1)[0];
                            let v = if rng.chance(0.5) { Quantity::special(&mut rng, v) } else { v };
                            constant_case::<Quantity>(&mut ck, "Quantity", v, Quantity::veq, tgc, &mut rng)
                        }
                        _ => {
                            let v = rng.chance(0.5);
                            constant_case::<bool>(&mut ck, "bool", v, beq, tgc, &mut rng)
                        }
                    }
                }
            }
        }
        if args.mine("none_getter", 0) {
            let mut ck = Ck { rep: &mut rep, sub: "none_getter", case: 0 };
            none_getter_case(&mut ck);
        }
        rep.exhaustive("NoneToError x 5 inputs; NoneToValue x 5 inputs x 4 clock states x clock-vs-input order; Expirer x 5 inputs x 4 clock states x {age <,=,> limit; datum newer than the clock by more than |limit|} x 9 limits {0, small, large, negative, 1, i64::MAX, i64::MAX-1, i64::MIN, i64::MIN+1}; ConstantGetter x 4 clock states; NoneGetter; each x {f32,Quantity}");
    }
    // ---- 6. long-lived instances versus fresh ones over single-aspect changes
    {
        let mut kinds: Vec<LK> = Vec::new();
        for n in 1..=5 {
            kinds.extend([LK::Sum(n), LK::Product(n), LK::Latest(n)]);
        }
        kinds.extend([
            LK::Sum2, LK::Product2, LK::Difference, LK::Quotient, LK::Exponent, LK::And, LK::Or, LK::Not, LK::If,
            LK::IfElse, LK::NoneToError, LK::NoneToValue, LK::Expirer, LK::Constant,
        ]);
        let seqs = args.pick(400, 6000);
        let mut idx = 0u64;
        for _ in 0..seqs {
            for kind in &kinds {
                for p in 0..3 {
                    // ExponentStream exists for f32 only; the logic streams have no value payload
                    if p > 0 && matches!(kind, LK::Exponent | LK::And | LK::Or | LK::Not) {
                        continue;
                    }
                    let case = idx;
                    idx += 1;
                    if !args.mine("longlived", case) {
                        continue;
                    }
                    let mut rng = Rng::new(args.seed, 212, case);
                    let mut ck = Ck { rep: &mut rep, sub: "longlived", case };
                    match p {
                        0 => longlived_case::<f32>(&mut ck, *kind, &mut rng),
                        1 => longlived_case::<Quantity>(&mut ck, *kind, &mut rng),
                        _ => longlived_case::<M2>(&mut ck, *kind, &mut rng),
                    }
                }
            }
        }
        rep.floor("history_steps:time", 5000);
        rep.floor("history_steps:value", 5000);
        rep.floor("history_steps:category", 5000);
        rep.floor("history_steps_changing_the_output:time", 1000);
        rep.floor("history_steps_changing_the_output:value", 1000);
        rep.floor("history_steps_changing_the_output:category", 1000);
        rep.floor("history_exponent_steps_changing_the_output", 200);
    }
    // ---- 7. aliased inputs through every Reference backing
    {
        let mut kinds: Vec<AK> = Vec::new();
        for n in 2..=5 {
            kinds.extend([AK::Sum(n), AK::Product(n), AK::Latest(n)]);
        }
        kinds.extend([AK::Sum2, AK::Product2, AK::Difference, AK::Quotient, AK::Exponent, AK::IfElse, AK::And, AK::Or, AK::IfBool, AK::IfElseBool, AK::ExpirerClock, AK::NoneToValueClock]);
        let rounds = args.pick(6, 48);
        let mut hung: std::collections::HashSet<(AK, usize)> = std::collections::HashSet::new();
        let mut idx = 0u64;
        // one round = every (combinator, backing) once; all helpers of this shard run concurrently
        let mut pending: Vec<APending> = Vec::new();
        for _ in 0..rounds {
            for kind in &kinds {
                for backing in 0..BACKINGS.len() {
                    let case = idx;
                    idx += 1;
                    if !args.mine("aliased", case) {
                        continue;
                    }
                    pending.push(alias_spawn(args.seed, case, *kind, backing));
                }
            }
        }
        for p in pending {
            let key = (p.kind, p.backing);
            let known = hung.contains(&key);
            if alias_collect(&mut rep, p, known) {
                hung.insert(key);
            }
        }
        rep.exhaustive("aliased inputs: {SumStream, ProductStream, Latest} arity 2..=5 (all inputs one object), Sum2, Product2, Difference, Quotient, Exponent, IfElse (both branches), And, Or, IfStream<bool>, IfElseStream<bool> x {Rc<RefCell>, raw pointer, Arc<Mutex>, Arc<RwLock>, *Mutex, *RwLock} x every outcome of the shared input x {f32, Quantity, M2 | bool}; Expirer and NoneToValue with ONE object as data input and clock x the same six backings x 5 data outcomes x 4 clock outcomes (Expirer limit from the 9-value pool)");
        for b in BACKINGS {
            rep.floor(&format!("aliased_ok:{}", b), 200);
        }
        for s in ["SumStream", "ProductStream", "Latest", "Sum2", "Product2", "DifferenceStream", "QuotientStream", "ExponentStream", "IfElseStream", "AndStream", "OrStream", "IfStream", "Expirer", "NoneToValue"] {
            rep.floor(&format!("aliased_ok_stream:{}", s), 60);
        }
    }
    rep.floor("combinator_update_calls_ok", 5000);
    rep.floor("update_then_change_then_get_with_changed_output", 2000);
    for s in ["SumStream", "ProductStream", "Latest", "Sum2", "Product2", "DifferenceStream", "QuotientStream", "ExponentStream", "AndStream", "OrStream", "NotStream", "IfStream", "IfElseStream", "NoneToError", "NoneToValue", "Expirer", "ConstantGetter"] {
        rep.floor(&format!("update_then_change_then_get:{}", s), 30);
    }
    // coverage the verdict depends on
    rep.floor("out_err", 1000);
    rep.floor("out_none", 1000);
    rep.floor("out_some", 1000);
    rep.floor("nary_fold_with_skipped_absent", 500);
    rep.floor("nary_error_cases", 1000);
    rep.floor("latest_with_erroring_input", 1000);
    rep.floor("latest_ties_checked", 500);
    rep.floor("Sum2-vs-SumStream:agree-some", 100);
    rep.floor("Product2-vs-ProductStream:agree-some", 100);
    rep.floor("DeMorgan-NotAnd-vs-OrNot:agree-some", 100);
    rep.floor("DeMorgan-NotAnd-vs-OrNot:agree-none", 100);
    rep.floor("DeMorgan-NotOr-vs-AndNot:agree-some", 100);
    rep.floor("if_unselected_erroring_input_not_surfaced", 50);
    rep.floor("ifelse_unselected_erroring_input_not_surfaced", 50);
    rep.floor("expirer_kept_exactly_at_limit", 20);
    rep.floor("expirer_expired", 20);
    rep.floor("expirer_kept_younger_than_limit", 20);
    rep.floor("expirer_kept_datum_newer_than_clock_by_more_than_limit", 20);
    for (lim, outcome) in [(5, "kept"), (6, "kept"), (7, "expired"), (8, "expired")] {
        rep.floor(&format!("expirer_extreme_limit_{}:{}", lim, outcome), 20);
        rep.floor(&format!("expirer_extreme_limit_{}:clock_error_returned", lim), 20);
    }
    rep.floor("none_to_value_special_parameter", 200);
    rep.floor("order_sensitive:SumStream", 500);
    rep.floor("order_sensitive:ProductStream", 500);
    rep.floor("order_sensitive:Sum2", 50);
    rep.floor("order_sensitive:Product2", 50);
    rep.floor("order_sensitive:DifferenceStream", 50);
    rep.floor("order_sensitive:QuotientStream", 50);
    rep.floor("exponent_f64_crosschecks", 50);
    rep.finish(&args);
}
