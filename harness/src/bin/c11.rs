//! C11 — CommandPID integrates its PID output 0, 1 or 2 times, by command kind.
//! f64 reference state machine with propagated forward bound + bit-exact twin for set(same).
use rrtk::streams::control::CommandPID;
use rrtk::*;
use rrtk_mon::*;
#[derive(Clone, Debug, PartialEq)]
struct Step {
    set: Option<Command>,
    /// new outcome of the followed command getter for this step (None = leave as is)
    follow: Option<Ev<Command>>,
    input: Ev<[f32; 3]>,
}
#[derive(Clone, Debug)]
struct Case {
    gains: [[f32; 3]; 3],
    cmd0: Command,
    following: bool,
    steps: Vec<Step>,
}
fn pd_idx(c: Command) -> usize {
    match PositionDerivative::from(c) { PositionDerivative::Position => 0, PositionDerivative::Velocity => 1, PositionDerivative::Acceleration => 2 }
}
fn gen_cmd(rng: &mut Rng) -> Command {
    let pd = *rng.pick(&[PositionDerivative::Position, PositionDerivative::Velocity, PositionDerivative::Acceleration]);
    Command::new(pd, rng.moderate(1e3))
}
fn gen(rng: &mut Rng, case: u64) -> Case {
    let len = 2 + rng.usize(47);
    let following = case % 3 == 0;
    let mut t = rng.range_i64(-1_000_000_000_000_000, 1_000_000_000_000_000);
    let cmd0 = gen_cmd(rng);
    let mut cur = cmd0;
    let mut steps = Vec::with_capacity(len);
    let const_dt = if rng.chance(0.3) { Some(rng.step_ns(1_000, 3_600_000_000_000)) } else { None };
    // creeping cases: every component of the state moves by a few units in the last place of its ERROR from sample to
    // sample (slow axis, distant setpoint): the D term is then a small exact difference of nearby errors
    let creep = rng.chance(0.15);
    for _ in 0..len {
        t += if rng.chance(0.08) { rng.range_i64(1, 200) } else { const_dt.unwrap_or_else(|| rng.step_ns(1_000, 3_600_000_000_000)) };
        let input = match rng.below(14) { 0 => Ev::None, 1 => Ev::Err(rng.err_code()), 2 => { let c = f32::from(cur); Ev::Some(t, [c, c, c]) } // error exactly zero
            3 => match steps.iter().rev().find_map(|s: &Step| if let Ev::Some(_, v) = s.input { Some(v) } else { None }) { Some(v) => Ev::Some(t, v), None => Ev::Some(t, [rng.moderate(1e3), rng.moderate(1e3), rng.moderate(1e3)]) }, // same state again
            _ => {
                let prev = steps.iter().rev().find_map(|s: &Step| if let Ev::Some(_, v) = s.input { Some(v) } else { None });
                match prev {
                    Some(p) if creep => {
                        let c = f32::from(cur) as f64;
                        let mut v = p;
                        for j in 0..3 {
                            let e = c - p[j] as f64;
                            if e.abs() >= 1e-3 { v[j] = (p[j] as f64 + rng.sign() * (1 + rng.below(24)) as f64 * e.abs() * (2.0f64).powi(-23)) as f32; }
                        }
                        Ev::Some(t, v)
                    }
                    _ => Ev::Some(t, [rng.moderate(1e3), rng.moderate(1e3), rng.moderate(1e3)]),
                }
            }
        };
        let mut set = None;
        let mut follow = None;
        let pick_cmd = |rng: &mut Rng, cur: Command| match rng.below(3) { 0 => cur, 1 => Command::new(PositionDerivative::from(cur), rng.moderate(1e3)), _ => gen_cmd(rng) };
        if following && rng.chance(0.25) {
            follow = Some(match rng.below(6) { 0 => Ev::None, 1 => Ev::Err(7), _ => { let c = pick_cmd(rng, cur); Ev::Some(if rng.chance(0.5) { t } else { 0 }, c) } }); // stamp 0 = a clock that never advances
        } else if rng.chance(0.15) {
            set = Some(pick_cmd(rng, cur));
        }
        let _ = &mut cur;
        steps.push(Step { set, follow, input });
        // track the command in force (approximately; the oracle recomputes it exactly)
        if let Some(c) = steps.last().unwrap().set { if c != cur { cur = c; } }
    }
    let g = |rng: &mut Rng| [rng.moderate(1e2), rng.moderate(1e1), rng.moderate(1e1)];
    Case { gains: [g(rng), g(rng), g(rng)], cmd0, following, steps }
}
#[derive(Clone, Debug, PartialEq)]
enum O { Err(u8), None, Some(i64, f32), Other }
fn obs(o: Out<f32>) -> O {
    match o { Err(Error::Other(e)) => O::Err(e), Err(Error::FromNone) => O::Err(0), Err(_) => O::Other, Ok(None) => O::None, Ok(Some(d)) => O::Some(d.time.0, d.value) }
}
/// run the real CommandPID; `drop_same_sets`: twin that never receives a *direct* set() equal to the
/// command in force (a followed getter that keeps returning the command in force is itself a stream of
/// set(same) calls and is covered by the reference, which does not restart on it)
fn run_real(c: &Case, drop_same_sets: bool) -> Result<Vec<(Result<(), Error<E>>, O)>, String> {
    run_alongside(c, drop_same_sets, false)
}
/// `alongside`: a second CommandPID with other gains and command is updated with the same timestamps (other states) just
/// before the one under test at every step
fn run_alongside(c: &Case, drop_same_sets: bool, alongside: bool) -> Result<Vec<(Result<(), Error<E>>, O)>, String> {
    catch(|| {
        let dsrc = Src::<State>::new();
        let dk = PositionDerivativeDependentPIDKValues::new(PIDKValues::new(0.5, -2.0, 0.125), PIDKValues::new(1.5, 0.25, -1.0), PIDKValues::new(-0.75, 3.0, 0.5));
        let mut other: CommandPID<dyn Getter<State, E>, E> = CommandPID::new(dsrc.dynref(), Command::new(PositionDerivative::from(c.cmd0), 1.0 - f32::from(c.cmd0)), dk);
        let src = Src::<State>::new();
        let cs = Src::<Command>::new();
        let k = PositionDerivativeDependentPIDKValues::new(
            PIDKValues::new(c.gains[0][0], c.gains[0][1], c.gains[0][2]),
            PIDKValues::new(c.gains[1][0], c.gains[1][1], c.gains[1][2]),
            PIDKValues::new(c.gains[2][0], c.gains[2][1], c.gains[2][2]),
        );
        let mut pid: CommandPID<dyn Getter<State, E>, E> = CommandPID::new(src.dynref(), c.cmd0, k);
        if c.following { pid.follow(cs.dynref()); }
        let mut cur = c.cmd0;
        let mut out = Vec::new();
        for s in &c.steps {
            if let Some(cmd) = s.set {
                if !(drop_same_sets && cmd == cur) { let _ = pid.set(cmd); }
                if cmd != cur { cur = cmd; }
            }
            if let Some(fo) = &s.follow {
                match fo {
                    Ev::Some(t, v) => cs.some(*t, *v),
                    Ev::None => cs.none(),
                    Ev::Err(e) => cs.err(*e),
                }
            }
            if c.following {
                if let Ok(Some(d)) = cs.0.borrow().out.clone() { if d.value != cur { cur = d.value; } }
            }
            if alongside {
                match &s.input { Ev::Some(t, v) => dsrc.some(*t, State::new_raw(3.0 - 0.5 * v[0], 1.0 + v[2], -v[1])), Ev::None => dsrc.none(), Ev::Err(e) => dsrc.err(*e) }
                let _ = other.update();
                let _ = other.get();
            }
            match &s.input { Ev::Some(t, v) => src.some(*t, State::new_raw(v[0], v[1], v[2])), Ev::None => src.none(), Ev::Err(e) => src.err(*e) }
            let u = pid.update();
            out.push((u, obs(pid.get())));
        }
        out
    })
}
#[derive(Clone, Copy, Default, Debug)]
struct V { v: f64, m: f64 }
#[derive(Default, Debug)]
struct Ref { n: usize, t: i64, e: f64, u: V, ei: V, ui: V, uii: V }
fn kk(n: usize) -> f64 { 64.0 + 12.0 * n as f64 }
fn main() {
    let args = Args::parse();
    let mut rep = Report::new("C11", &args);
    for case in args.cases("cmdpid", 20_000, 1_500_000) {
        let mut rng = Rng::new(args.seed, 1101, case);
        let c = gen(&mut rng, case);
        let real = match run_real(&c, false) { Ok(r) => r, Err(m) => { rep.violation("C11/panic", "cmdpid", case, format!("{} case={:?}", m, c)); continue; } };
        if rep.want_sample("cmdpid") { rep.sample("cmdpid", format!("gains={:?} cmd0={:?} following={} steps[..5]={:?}", c.gains, c.cmd0, c.following, &c.steps[..c.steps.len().min(5)])); }
        // ---- reference
        let mut cur = c.cmd0;
        let mut followed: Ev<Command> = Ev::None;
        let mut r = Ref::default();
        let mut prev_obs = O::None;
        let mut kinds_seen = 0u32;
        let mut resets_seen = 0u32;
        let mut ok_case = true;
        for (i, s) in c.steps.iter().enumerate() {
            let (upd, got) = &real[i];
            if let Some(cmd) = s.set { if cmd != cur { cur = cmd; r = Ref::default(); rep.tally("restart_by_set_different"); resets_seen |= 1; } else { rep.tally("set_same"); } }
            if let Some(fo) = &s.follow { followed = fo.clone(); }
            if c.following {
                match &followed {
                    Ev::Err(_) => {
                        // A failing command SOURCE is not in the property's event alphabet ({present, absent, error of the state
                        // input; set; followed-command change}): whether the controller then keeps its state, caches the error or
                        // starts afresh is not stated, so nothing is judged from here on in this case (the panic capture around the
                        // whole run and the bit-exact twin / alongside comparisons below still apply). An earlier version asserted
                        // "update returns that error and nothing else changes" - more than the statement says.
                        rep.eval();
                        rep.tally("follow_error_steps_not_judged");
                        let _ = (upd, &prev_obs);
                        break;
                    }
                    Ev::Some(_, cmd) => { if *cmd != cur { cur = *cmd; r = Ref::default(); rep.tally("restart_by_followed_command"); resets_seen |= 2; } }
                    Ev::None => {}
                }
            }
            let kind = pd_idx(cur);
            kinds_seen |= 1 << kind;
            let g = c.gains[kind];
            let (kp, ki, kd) = (g[0] as f64, g[1] as f64, g[2] as f64);
            rep.eval();
            match &s.input {
                Ev::None => {
                    r = Ref::default();
                    rep.tally("absent_inputs");
                    resets_seen |= 4;
                    if *got != O::None {
                        rep.violation("C11/absent-input-not-reset", "cmdpid", case, format!("step {}: absent input but output {:?}; case={:?}", i, got, c));
                        ok_case = false;
                        break;
                    }
                }
                Ev::Err(e) => {
                    r = Ref::default();
                    rep.tally("error_inputs");
                    resets_seen |= 8;
                    if *got != O::Err(*e) || *upd != Err(err_code(*e)) {
                        rep.violation("C11/input-error-not-reported", "cmdpid", case, format!("step {}: input error {} but update -> {:?}, output {:?}; case={:?}", i, e, upd, got, c));
                        ok_case = false;
                        break;
                    }
                }
                Ev::Some(t, st) => {
                    let e = f32::from(cur) as f64 - st[kind] as f64;
                    if r.n == 0 {
                        r = Ref { n: 1, t: *t, e, u: V { v: kp * e, m: (kp * e).abs() }, ..Default::default() };
                    } else {
                        let dt = (*t - r.t) as f64 / 1e9;
                        let d = (e - r.e) / dt;
                        // D term: each error e = fl(command - component) carries at most 2^-24|e|, so the difference quotient
                        // carries (|e| + |e_prev|)/dt (x3 for safety) plus a few roundings relative to the quotient itself; a
                        // bound of K x (|e|+|e_prev|)/dt would hide a derivative that is wrong by many times its own size
                        // when consecutive errors are close
                        let dm = (3.0 * (e.abs() + r.e.abs()) / dt + 12.0 * d.abs()) / kk(r.n + 1);
                        if e != r.e && (e - r.e).abs() <= 16.0 * (2.0f64).powi(-23) * e.abs().max(r.e.abs()) { rep.tally("steps_with_error_change_of_a_few_ulps"); }
                        let ia = (r.e + e) / 2.0 * dt;
                        let iam = (r.e.abs() + e.abs()) / 2.0 * dt;
                        let ei = if r.n == 1 { V { v: ia, m: iam } } else { V { v: r.ei.v + ia, m: r.ei.m + iam } };
                        let u = V { v: kp * e + ki * ei.v + kd * d, m: (kp * e).abs() + ki.abs() * ei.m + kd.abs() * dm };
                        // the integrations' own roundings (relative to what they add up), which the K x magnitude of the P and I
                        // parts used to cover and the tight D part no longer does
                        let k1 = kk(r.n + 1);
                        let ua = V { v: (r.u.v + u.v) / 2.0 * dt, m: (r.u.m + u.m) / 2.0 * dt + 6.0 * (r.u.v.abs() + u.v.abs()) / 2.0 * dt / k1 };
                        let ui = if r.n == 1 { ua } else { V { v: r.ui.v + ua.v, m: r.ui.m + ua.m } };
                        let uii = if r.n >= 2 {
                            let a = V { v: (r.ui.v + ui.v) / 2.0 * dt, m: (r.ui.m + ui.m) / 2.0 * dt + 6.0 * (r.ui.v.abs() + ui.v.abs()) / 2.0 * dt / k1 };
                            if r.n == 2 { a } else { V { v: r.uii.v + a.v, m: r.uii.m + a.m } }
                        } else { V::default() };
                        r = Ref { n: r.n + 1, t: *t, e, u, ei, ui, uii };
                    }
                    let expect: Option<V> = match kind { 0 => Some(r.u), 1 => if r.n >= 2 { Some(r.ui) } else { None }, _ => if r.n >= 3 { Some(r.uii) } else { None } };
                    rep.tally(&format!("stage/{}/{}", ["position", "velocity", "acceleration"][kind], if expect.is_some() { "present" } else if r.n == 1 { "absent-1st" } else { "absent-2nd" }));
                    rep.distinct((kind, r.n.min(6), c.following, resets_seen));
                    match (expect, got) {
                        (None, O::None) => {}
                        (Some(ev), O::Some(ot, ov)) => {
                            if *ot != *t {
                                rep.violation("C11/timestamp", "cmdpid", case, format!("step {}: stamped {} expected {}; case={:?}", i, ot, t, c));
                                ok_case = false;
                                break;
                            }
                            let bound = kk(r.n) * U * ev.m;
                            let (ok, ratio) = within(*ov, ev.v, bound);
                            rep.max(&format!("err_over_bound/{}", ["position", "velocity", "acceleration"][kind]), ratio);
                            if !ok {
                                rep.violation(&format!("C11/value/{}", ["position", "velocity", "acceleration"][kind]), "cmdpid", case, format!("step {} (sample {} since restart, command {:?}): output {} reference {:e} bound {:e}; case={:?}", i, r.n, cur, f(*ov), ev.v, bound, c));
                                ok_case = false;
                                break;
                            }
                        }
                        (exp, got) => {
                            rep.violation(&format!("C11/presence/{}", ["position", "velocity", "acceleration"][kind]), "cmdpid", case, format!("step {} is sample {} since restart for command {:?}: output {:?}, expected {}; case={:?}", i, r.n, cur, got, if exp.is_some() { "a value" } else { "absent" }, c));
                            ok_case = false;
                            break;
                        }
                    }
                }
            }
            prev_obs = got.clone();
        }
        let _ = kinds_seen;
        if !ok_case { continue; }
        // ---- a second controller living (and being updated with the same timestamps) alongside changes nothing
        match run_alongside(&c, false, true) {
            Ok(al) => {
                rep.eval();
                rep.tally("runs_with_a_second_instance_alongside");
                for i in 0..real.len().min(al.len()) {
                    let same_out = match (&real[i].1, &al[i].1) { (O::Some(t, v), O::Some(t2, v2)) => t == t2 && same(*v, *v2), (a, b) => a == b };
                    if !same_out || real[i].0 != al[i].0 {
                        rep.violation("C11/instances-not-independent", "cmdpid", case, format!("step {}: alone {:?}, with a second CommandPID updated alongside {:?}; case={:?}", i, real[i], al[i], c));
                        break;
                    }
                }
            }
            Err(m) => rep.violation("C11/panic", "cmdpid", case, format!("alongside: {} case={:?}", m, c)),
        }
        // ---- set(same) == no event: twin that never receives a set equal to the command in force
        if c.steps.iter().any(|s| s.set.is_some()) {
            match run_real(&c, true) {
                Ok(twin) => {
                    rep.eval();
                    rep.tally("twin_comparisons");
                    for i in 0..real.len() {
                        let same_out = match (&real[i].1, &twin[i].1) { (O::Some(t, v), O::Some(t2, v2)) => t == t2 && same(*v, *v2), (a, b) => a == b };
                        if !same_out {
                            rep.violation("C11/set-same-changes-output", "cmdpid", case, format!("step {}: with set(same) events {:?}, without {:?}; case={:?}", i, real[i].1, twin[i].1, c));
                            break;
                        }
                    }
                }
                Err(m) => rep.violation("C11/panic", "cmdpid", case, format!("twin: {} case={:?}", m, c)),
            }
        }
    }
    for k in ["position", "velocity", "acceleration"] { rep.floor(&format!("stage/{}/present", k), 500); }
    rep.floor("steps_with_error_change_of_a_few_ulps", 500);
    rep.floor("stage/velocity/absent-1st", 100);
    rep.floor("stage/acceleration/absent-2nd", 100);
    rep.floor("restart_by_set_different", 100);
    rep.floor("restart_by_followed_command", 100);
    rep.floor("set_same", 100);
    rep.floor("twin_comparisons", 100);
    rep.finish(&args);
}
