//! C15 — settable bookkeeping, following and history adapters map values and time exactly.
//!
//! Four sub-checks, all against small executable models written from the property statement:
//!  * `seq`      random operation sequences (<= 40) over a recording settable (scripted accept/reject),
//!               two scripted getters and a `ConstantGetter` (itself settable / following / followed);
//!  * `hist`     `GetterFromHistory` over a scripted history that records the times it is asked for and
//!               returns a value encoding that time, for the four constructors, `set_delta`, `set_time`,
//!               three kinds of time getter (scripted, `Time` itself, `TimeGetterFromGetter`);
//!  * `builtin`  the same bookkeeping / following model over every built-in `Settable` implementor:
//!               `ConstantGetter`, `Terminal` (its `Datum<Command>` and `Datum<State>` impls, one, the other,
//!               both), `CommandPID` (followed-getter events crossed with its process input);
//!  * `adapters` `TimeGetterFromGetter`, `NoneGetter`, `Time` as a time getter, `ConstantGetter<_, Time, _>`
//!               directly, over the whole i64 range (no arithmetic is performed on those stamps).
//! All comparisons are exact (integers, categories, error values).
use rrtk::*;
use rrtk::streams::control::CommandPID;
use rrtk_mon::*;
use std::cell::Cell as SCell;
use std::cell::RefCell;
use std::rc::Rc;

type Er = Error<E>;
/// model of a time getter's current output
type ClockOut = Result<i64, Er>;
/// The `hist` sub-check draws clock values, starts, deltas and set_time targets from strata over the
/// WHOLE i64 range and constructs each partner quantity inside the interval in which every sum or
/// difference the crate computes (now + delta, start - now, t - now, -now) stays inside i64
/// (`pick_in`: stratified candidate clamped into the interval, or a point at / next to its ends).
/// Clock readings stay > i64::MIN because -now must exist.
const HALF: i64 = i64::MAX / 2;
const MINC: i64 = i64::MIN + 1;
const IMIN: i128 = i64::MIN as i128;
const IMAX: i128 = i64::MAX as i128;

// ------------------------------------------------------------------------------------------------
// generators
// ------------------------------------------------------------------------------------------------
/// any i64 (values and pass-through stamps: nothing is ever computed from them)
fn free_stamp(rng: &mut Rng) -> i64 {
    match rng.below(12) {
        0 => i64::MAX,
        1 => i64::MIN,
        _ => rng.stamp(),
    }
}
fn raw_val(rng: &mut Rng) -> i64 {
    match rng.below(6) {
        0 => 0,
        1 => rng.range_i64(-3, 3),
        _ => free_stamp(rng),
    }
}
/// values come half of the time from a 4-element pool so that equal consecutive values are frequent
fn val(rng: &mut Rng, pool: &[i64]) -> i64 {
    if rng.chance(0.5) {
        *rng.pick(pool)
    } else {
        raw_val(rng)
    }
}
/// i64 from magnitude strata over the whole range (> i64::MIN): small, ~1e9, ~1e15, 2^60, both sides
/// of i64::MAX/2 (= 2^62 - 1), ~5e18, the outer half, next to i64::MAX, powers of two, uniform.
fn wstamp(rng: &mut Rng) -> i64 {
    let mag = match rng.below(15) {
        0 => 0,
        1 => rng.range_i64(0, 1000),
        2 => rng.range_i64(0, 2_000_000_000),
        3 => rng.range_i64(900_000_000_000_000, 1_100_000_000_000_000),
        4 => rng.range_i64(0, 1i64 << 40),
        5 => (1i64 << 60) + rng.range_i64(-1000, 1000),
        6 | 7 => HALF + rng.range_i64(-1000, 1000),
        8 => rng.range_i64(HALF, i64::MAX),
        9 | 10 => i64::MAX - rng.range_i64(0, 1000),
        11 => 1i64 << (rng.below(63) as u32),
        12 => 5_000_000_000_000_000_000 + rng.range_i64(0, 1_000_000_000),
        _ => rng.range_i64(0, i64::MAX),
    };
    if rng.chance(0.5) {
        mag
    } else {
        -mag
    }
}
/// A value of the non-empty interval [lo, hi] (intersected with i64), by construction: a stratified
/// candidate clamped into it, or a point at / next to one of its ends.
fn pick_in(rng: &mut Rng, lo: i128, hi: i128) -> i64 {
    let (lo, hi) = (lo.max(IMIN), hi.min(IMAX));
    assert!(lo <= hi, "generator bug: empty interval");
    let near = rng.range_i64(0, 1000) as i128;
    let v = match rng.below(8) {
        0 => (lo + near).min(hi),
        1 => (hi - near).max(lo),
        _ => (wstamp(rng) as i128).clamp(lo, hi),
    };
    v as i64
}
/// clock advance from `base` that stays <= hi (>= base) by construction
fn advance(rng: &mut Rng, base: i64, hi: i128) -> i64 {
    let room = hi - base as i128; // >= 0
    let step = match rng.below(10) {
        0 => 0,
        1 | 2 => 1,
        3 | 4 => rng.range_i64(1, 1000),
        5 | 6 => rng.step_ns(1_000, 10_000_000_000),
        7 => rng.range_i64(0, 1i64 << 50),
        8 => rng.range_i64(0, 1i64 << 60),
        _ => rng.range_i64(0, i64::MAX),
    } as i128;
    (base as i128 + step.min(room)) as i64
}
fn gen_err(rng: &mut Rng) -> Er {
    match rng.below(3) {
        0 => Error::Other(1),
        1 => Error::Other(2),
        _ => Error::FromNone,
    }
}
fn gen_ev(rng: &mut Rng, pool: &[i64]) -> Ev<i64> {
    match rng.below(10) {
        0..=5 => Ev::Some(free_stamp(rng), val(rng, pool)),
        6 | 7 => Ev::None,
        // code 0 is the crate's own Error::FromNone (what an upstream NoneToError produces)
        8 => Ev::Err(0),
        _ => Ev::Err(*rng.pick(&[1u8, 2])),
    }
}

// ------------------------------------------------------------------------------------------------
// scripted clocks: one controller over the three kinds of time getter
// ------------------------------------------------------------------------------------------------
/// Scripted time getter that records its `update` calls in an event log shared with the history.
struct MyClock {
    out: TimeOutput<E>,
    /// read-once: every reading after the first one (since it was scripted) returns this instead
    then: Option<TimeOutput<E>>,
    polled: SCell<bool>,
    events: Rc<RefCell<Vec<char>>>,
    upd_err: Option<u8>,
}
impl TimeGetter<E> for MyClock {
    fn get(&self) -> TimeOutput<E> {
        if let Some(t) = self.then {
            if self.polled.replace(true) {
                return t;
            }
        }
        self.out
    }
}
impl Updatable<E> for MyClock {
    fn update(&mut self) -> NothingOrError<E> {
        self.events.borrow_mut().push('t');
        match self.upd_err {
            Some(e) => Err(Error::Other(e)),
            None => Ok(()),
        }
    }
}
#[derive(Clone)]
enum Ctl {
    /// scripted `MyClock`
    Mine(Rc<RefCell<MyClock>>),
    /// rrtk's `impl TimeGetter for Time` (cannot fail)
    T(Rc<RefCell<Time>>),
    /// rrtk's `TimeGetterFromGetter` over a scripted getter
    G(Src<i64>),
}
impl Ctl {
    fn can_err(&self) -> bool {
        !matches!(self, Ctl::T(_))
    }
    /// make the real time getter produce `c` (`junk` is the payload of the underlying getter, irrelevant)
    fn apply(&self, c: &ClockOut, junk: i64) {
        match (self, c) {
            (Ctl::Mine(m), _) => {
                let mut m = m.borrow_mut();
                m.out = c.map(Time);
                m.then = None;
                m.polled.set(false);
            }
            (Ctl::T(t), Ok(x)) => *t.borrow_mut() = Time(*x),
            (Ctl::T(_), Err(_)) => unreachable!("the generator never scripts an error for a Time clock"),
            (Ctl::G(s), Ok(x)) => s.some(*x, junk),
            (Ctl::G(s), Err(Error::Other(e))) => s.err(*e),
            // absent input (or an input that itself reports FromNone) must surface as FromNone
            (Ctl::G(s), Err(_)) => {
                if junk & 1 == 0 {
                    s.none()
                } else {
                    s.set(Err(Error::FromNone))
                }
            }
        }
    }
}
impl Ctl {
    /// a clock that is not idempotent between readings: the first reading gives `first`, later ones `then`
    /// (only for the two scriptable kinds)
    fn apply_once(&self, first: &ClockOut, then: &ClockOut, junk: i64) {
        let as_out = |c: &ClockOut| -> Out<i64> {
            match c {
                Ok(x) => Ok(Some(Datum::new(Time(*x), junk))),
                Err(Error::Other(e)) => Err(Error::Other(*e)),
                Err(_) => {
                    if junk & 1 == 0 {
                        Ok(None)
                    } else {
                        Err(Error::FromNone)
                    }
                }
            }
        };
        match self {
            Ctl::Mine(m) => {
                let mut m = m.borrow_mut();
                m.out = first.map(Time);
                m.then = Some(then.map(Time));
                m.polled.set(false);
            }
            Ctl::G(s) => s.set_once(as_out(first), as_out(then)),
            Ctl::T(_) => unreachable!("the generator never scripts a read-once Time clock"),
        }
    }
}
fn my_clock(events: &Rc<RefCell<Vec<char>>>) -> Rc<RefCell<MyClock>> {
    rc(MyClock { out: Ok(Time(0)), then: None, polled: SCell::new(false), events: events.clone(), upd_err: None })
}
fn dyn_clock(kind: u8, events: &Rc<RefCell<Vec<char>>>) -> (Ctl, Reference<dyn TimeGetter<E>>) {
    match kind {
        0 => {
            let c = my_clock(events);
            let d: Rc<RefCell<dyn TimeGetter<E>>> = c.clone();
            (Ctl::Mine(c), Reference::from_rc_ref_cell(d))
        }
        1 => {
            let c = rc(Time(0));
            let d: Rc<RefCell<dyn TimeGetter<E>>> = c.clone();
            (Ctl::T(c), Reference::from_rc_ref_cell(d))
        }
        2 => {
            let s = Src::<i64>::new();
            let d: Rc<RefCell<dyn TimeGetter<E>>> = rc(TimeGetterFromGetter::<i64, Cell<i64>, E>::new(s.typed()));
            (Ctl::G(s), Reference::from_rc_ref_cell(d))
        }
        _ => {
            let s = Src::<i64>::new();
            let d: Rc<RefCell<dyn TimeGetter<E>>> =
                rc(TimeGetterFromGetter::<i64, dyn Getter<i64, E>, E>::new(s.dynref()));
            (Ctl::G(s), Reference::from_rc_ref_cell(d))
        }
    }
}

// ------------------------------------------------------------------------------------------------
// sub-check `seq`: settable bookkeeping + following + constant getter
// ------------------------------------------------------------------------------------------------
/// The user-implemented settable of the `seq` sub-check: records every `impl_set` (value, accepted),
/// rejects on demand, and reads its OWN bookkeeping from the inside: `get_last_request()` as seen while
/// `impl_set` runs (the incoming request has not succeeded yet, so it must still be the previous
/// successful one) and at the end of `update()`.
struct Rec15 {
    data: SettableData<i64, E>,
    log: Vec<(i64, bool)>,
    /// get_last_request() observed inside each impl_set call
    seen_in_impl_set: Vec<Option<i64>>,
    /// get_last_request() observed inside each update(), after update_following_data (if called)
    seen_in_update: Vec<Option<i64>>,
    reject: bool,
    reject_with: u8,
    follows_in_update: bool,
}
impl Rec15 {
    fn new() -> Self {
        Rec15 { data: SettableData::new(), log: Vec::new(), seen_in_impl_set: Vec::new(), seen_in_update: Vec::new(), reject: false, reject_with: 9, follows_in_update: true }
    }
}
impl Settable<i64, E> for Rec15 {
    fn impl_set(&mut self, value: i64) -> NothingOrError<E> {
        let seen = self.get_last_request();
        self.seen_in_impl_set.push(seen);
        self.log.push((value, !self.reject));
        if self.reject {
            Err(Error::Other(self.reject_with))
        } else {
            Ok(())
        }
    }
    fn get_settable_data_ref(&self) -> &SettableData<i64, E> {
        &self.data
    }
    fn get_settable_data_mut(&mut self) -> &mut SettableData<i64, E> {
        &mut self.data
    }
}
impl Updatable<E> for Rec15 {
    fn update(&mut self) -> NothingOrError<E> {
        let r = if self.follows_in_update { self.update_following_data() } else { Ok(()) };
        let seen = self.get_last_request();
        self.seen_in_update.push(seen);
        r
    }
}
#[derive(Clone, Copy, Debug, PartialEq, Eq, Hash)]
enum Fol {
    A,
    B,
    Cg,
}
#[derive(Clone, Debug)]
enum Op {
    SetOk(i64),
    SetFail(i64, u8),
    Follow(Fol),
    Stop,
    /// `update()` of the recording settable, with impl_set rejecting (code) or accepting (None)
    Update(Option<u8>),
    /// direct call of the trait's `update_following_data()`
    UpdFollow(Option<u8>),
    SrcA(Ev<i64>),
    SrcB(Ev<i64>),
    /// getter A (false) / B (true) becomes read-once: its first poll returns the first event, every
    /// later poll the second (a mailbox emptied by reading, a FIFO handing out the next sample)
    SrcOnce(bool, Ev<i64>, Ev<i64>),
    Clock(ClockOut),
    CgSet(i64),
    /// constant getter follows getter A (false) / B (true)
    CgFollow(bool),
    CgStop,
    CgUpdate,
}
impl Op {
    fn code(&self) -> u8 {
        match self {
            Op::SetOk(_) => 0,
            Op::SetFail(..) => 1,
            Op::Follow(Fol::A) => 2,
            Op::Follow(Fol::B) => 3,
            Op::Follow(Fol::Cg) => 4,
            Op::Stop => 5,
            Op::Update(None) => 6,
            Op::Update(Some(_)) => 7,
            Op::UpdFollow(None) => 8,
            Op::UpdFollow(Some(_)) => 9,
            Op::SrcA(e) => 10 + e.kind().min(2),
            Op::SrcB(e) => 13 + e.kind().min(2),
            Op::SrcOnce(false, ..) => 22,
            Op::SrcOnce(true, ..) => 23,
            // (the followed-getter category in the distinct key separates FromNone from Other)
            Op::Clock(Ok(_)) => 16,
            Op::Clock(Err(_)) => 17,
            Op::CgSet(_) => 18,
            Op::CgFollow(_) => 19,
            Op::CgStop => 20,
            Op::CgUpdate => 21,
        }
    }
    fn name(&self) -> &'static str {
        match self {
            Op::SetOk(_) => "set-ok",
            Op::SetFail(..) => "set-fail",
            Op::Follow(_) => "follow",
            Op::Stop => "stop_following",
            Op::Update(_) => "update",
            Op::UpdFollow(_) => "update_following_data",
            Op::SrcA(_) | Op::SrcB(_) => "getter-change",
            Op::SrcOnce(..) => "getter-change-read-once",
            Op::Clock(_) => "clock-change",
            Op::CgSet(_) => "cg-set",
            Op::CgFollow(_) => "cg-follow",
            Op::CgStop => "cg-stop_following",
            Op::CgUpdate => "cg-update",
        }
    }
}
fn ev_val(e: &Ev<i64>) -> Result<Option<i64>, Er> {
    match e {
        Ev::Some(_, v) => Ok(Some(*v)),
        Ev::None => Ok(None),
        Ev::Err(c) => Err(err_code(*c)),
    }
}
/// The executable model (written from the statement).
struct Model {
    last: Option<i64>,
    log: Vec<(i64, bool)>,
    /// last request as it must appear from inside each impl_set call / at the end of each update()
    seen_in_impl_set: Vec<Option<i64>>,
    seen_in_update: Vec<Option<i64>>,
    /// impl_set calls in which the incoming value differs from the last successful request
    distinguishing_sets: u64,
    fol: Option<Fol>,
    a: Ev<i64>,
    b: Ev<i64>,
    /// read-once getters: what A / B return from their second poll on
    a_then: Option<Ev<i64>>,
    b_then: Option<Ev<i64>>,
    /// (first, later) of the read-once getter consumed by the most recent poll
    once_hit: Option<(Ev<i64>, Ev<i64>)>,
    clock: ClockOut,
    cg_val: i64,
    cg_last: Option<i64>,
    cg_fol: Option<bool>,
}
impl Model {
    /// constant getter: latest value at the time getter's time, time getter's error propagated
    fn cg_get(&self) -> Out<i64> {
        match self.clock {
            Ok(t) => Ok(Some(Datum::new(Time(t), self.cg_val))),
            Err(e) => Err(e),
        }
    }
    /// what getter `g` currently offers (value only: following forwards the value)
    fn out(&self, g: Fol) -> Result<Option<i64>, Er> {
        match g {
            Fol::A => ev_val(&self.a),
            Fol::B => ev_val(&self.b),
            Fol::Cg => self.cg_get().map(|o| o.map(|d| d.value)),
        }
    }
    /// set: the inner impl_set sees the value; last request only moves when it succeeded
    fn set(&mut self, v: i64, reject: Option<u8>) -> Result<(), Er> {
        // while impl_set runs the incoming request has not succeeded yet
        self.seen_in_impl_set.push(self.last);
        if self.last != Some(v) {
            self.distinguishing_sets += 1;
        }
        self.log.push((v, reject.is_none()));
        match reject {
            Some(c) => Err(Error::Other(c)),
            None => {
                self.last = Some(v);
                Ok(())
            }
        }
    }
    /// An update polls getter A / B: what the FIRST read returns decides the update (that value is the
    /// getter's present value); a read-once getter has switched to its later output afterwards. (How
    /// often the getter is polled is not promised and not checked.)
    fn poll_src(&mut self, is_b: bool) -> Result<Option<i64>, Er> {
        let (cur, then) = if is_b { (&mut self.b, &mut self.b_then) } else { (&mut self.a, &mut self.a_then) };
        let first = *cur;
        if let Some(t) = then.take() {
            *cur = t;
            self.once_hit = Some((first, t));
        }
        ev_val(&first)
    }
    /// one following step; returns (result, category)
    fn follow_step(&mut self, reject: Option<u8>) -> (Result<(), Er>, &'static str) {
        self.once_hit = None;
        let polled = match self.fol {
            None => None,
            Some(Fol::A) => Some(self.poll_src(false)),
            Some(Fol::B) => Some(self.poll_src(true)),
            Some(Fol::Cg) => Some(self.out(Fol::Cg)),
        };
        match polled {
            None => (Ok(()), "not-following"),
            Some(out) => match out {
                Err(e) => (Err(e), if e == Error::FromNone { "getter-error-FromNone" } else { "getter-error" }),
                Ok(None) => (Ok(()), "absent"),
                Ok(Some(v)) => {
                    let r = self.set(v, reject);
                    (r, if reject.is_some() { "rejected" } else { "forwarded" })
                }
            },
        }
    }
    fn cg_update(&mut self) -> (Result<(), Er>, &'static str) {
        self.once_hit = None;
        match self.cg_fol {
            None => (Ok(()), "not-following"),
            Some(is_b) => match self.poll_src(is_b) {
                Err(e) => (Err(e), if e == Error::FromNone { "getter-error-FromNone" } else { "getter-error" }),
                Ok(None) => (Ok(()), "absent"),
                Ok(Some(v)) => {
                    self.cg_val = v;
                    self.cg_last = Some(v);
                    (Ok(()), "forwarded")
                }
            },
        }
    }
}
/// (first poll, later polls) of a read-once getter: the two always differ
fn gen_once_pair(rng: &mut Rng, pool: &[i64]) -> (Ev<i64>, Ev<i64>) {
    let v1 = val(rng, pool);
    let mut v2 = val(rng, pool);
    if v2 == v1 {
        v2 = v1.wrapping_add(1);
    }
    let (s1, s2) = (Ev::Some(free_stamp(rng), v1), Ev::Some(free_stamp(rng), v2));
    let e = Ev::Err(*rng.pick(&[0u8, 1, 2]));
    match rng.below(9) {
        0..=2 => (s1, s2),
        3 | 4 => (s1, Ev::None),
        5 => (s1, e),
        6 | 7 => (Ev::None, s2),
        _ => (e, s2),
    }
}
fn gen_op(rng: &mut Rng, m: &Model, pool: &[i64], ctl: &Ctl, pending: Option<bool>, follows_in_update: bool) -> Op {
    let reject = |rng: &mut Rng| if rng.chance(0.3) { Some(*rng.pick(&[7u8, 9u8])) } else { None };
    // a getter that has just become read-once is usually polled next by whoever follows it
    if let Some(is_b) = pending {
        if rng.chance(0.75) {
            let rec_f = m.fol == Some(if is_b { Fol::B } else { Fol::A });
            let cg_f = m.cg_fol == Some(is_b);
            if rec_f && (!cg_f || rng.chance(0.6)) {
                return if follows_in_update && rng.chance(0.8) { Op::Update(reject(rng)) } else { Op::UpdFollow(reject(rng)) };
            }
            if cg_f {
                return Op::CgUpdate;
            }
        }
    }
    match rng.below(100) {
        0..=9 => Op::SetOk(val(rng, pool)),
        10..=17 => Op::SetFail(val(rng, pool), *rng.pick(&[7u8, 9u8])),
        18..=27 => Op::Follow(*rng.pick(&[Fol::A, Fol::A, Fol::B, Fol::B, Fol::Cg])),
        28..=31 => Op::Stop,
        32..=53 => Op::Update(reject(rng)),
        54..=59 => Op::UpdFollow(reject(rng)),
        x @ 60..=73 => {
            let is_b = x >= 68;
            let followed = m.fol == Some(if is_b { Fol::B } else { Fol::A }) || m.cg_fol == Some(is_b);
            if rng.chance(if followed { 0.45 } else { 0.1 }) {
                let (f, t) = gen_once_pair(rng, pool);
                Op::SrcOnce(is_b, f, t)
            } else if is_b {
                Op::SrcB(gen_ev(rng, pool))
            } else {
                Op::SrcA(gen_ev(rng, pool))
            }
        }
        74..=79 => {
            let c = if ctl.can_err() && rng.chance(0.35) {
                Err(gen_err(rng))
            } else {
                match m.clock {
                    Ok(t) if rng.chance(0.5) => Ok(t.saturating_add(rng.range_i64(0, 1000))),
                    _ => Ok(free_stamp(rng)),
                }
            };
            Op::Clock(c)
        }
        80..=85 => Op::CgSet(val(rng, pool)),
        86..=90 => Op::CgFollow(rng.chance(0.5)),
        91..=92 => Op::CgStop,
        _ => Op::CgUpdate,
    }
}
fn seq_case(rep: &mut Report, seed: u64, case: u64) {
    let sub = "seq";
    let mut rng = Rng::new(seed, 1501, case);
    // quota, decorrelated from the shard index (case % nshards) for 4 and 16 shards
    let kind = ((case / 16 + case) % 4) as u8;
    // one case in seven uses a settable whose update() does NOT call update_following_data: then only
    // the direct update_following_data() operation forwards anything.
    let follows_in_update = case % 7 != 3;
    let pool: Vec<i64> = (0..4).map(|_| raw_val(&mut rng)).collect();
    let events = Rc::new(RefCell::new(Vec::new()));
    let (ctl, tgref) = dyn_clock(kind, &events);
    let t0 = free_stamp(&mut rng);
    let v0 = val(&mut rng, &pool);
    ctl.apply(&Ok(t0), 0);
    let cg = rc(ConstantGetter::<i64, dyn TimeGetter<E>, E>::new(tgref, v0));
    let cg_dyn: Rc<RefCell<dyn Getter<i64, E>>> = cg.clone();
    let (a, b) = (Src::<i64>::new(), Src::<i64>::new());
    let mut rec = Rec15::new();
    rec.follows_in_update = follows_in_update;
    let mut m = Model {
        last: None,
        log: Vec::new(),
        seen_in_impl_set: Vec::new(),
        seen_in_update: Vec::new(),
        distinguishing_sets: 0,
        fol: None,
        a: Ev::None,
        b: Ev::None,
        a_then: None,
        b_then: None,
        once_hit: None,
        clock: Ok(t0),
        cg_val: v0,
        cg_last: None,
        cg_fol: None,
    };
    let n = if rng.chance(0.5) { 40 } else { rng.range_i64(1, 40) as usize };
    let mut ops: Vec<Op> = Vec::with_capacity(n);
    let mut prev = 255u8;
    let mut pending: Option<bool> = None;
    rep.max("seq_len_max", n as f64);
    for step in 0..=n {
        // step 0 only observes the freshly constructed objects
        let mut opname = "construction";
        if step > 0 {
            let op = gen_op(&mut rng, &m, &pool, &ctl, pending, follows_in_update);
            pending = if let Op::SrcOnce(is_b, ..) = &op { Some(*is_b) } else { None };
            m.once_hit = None;
            ops.push(op.clone());
            opname = op.name();
            rep.tally(&format!("seq_op/{}", opname));
            let set_reject = |rec: &mut Rec15, r: &Option<u8>| {
                rec.reject = r.is_some();
                rec.reject_with = r.unwrap_or(0);
            };
            // ---- real system
            let got: Result<(), Er> = match &op {
                Op::SetOk(v) => {
                    set_reject(&mut rec, &None);
                    rec.set(*v)
                }
                Op::SetFail(v, c) => {
                    set_reject(&mut rec, &Some(*c));
                    rec.set(*v)
                }
                Op::Follow(g) => {
                    let r = match g {
                        Fol::A => a.dynref(),
                        Fol::B => b.dynref(),
                        Fol::Cg => Reference::from_rc_ref_cell(cg_dyn.clone()),
                    };
                    rec.follow(r);
                    Ok(())
                }
                Op::Stop => {
                    rec.stop_following();
                    Ok(())
                }
                Op::Update(r) => {
                    set_reject(&mut rec, r);
                    rec.update()
                }
                Op::UpdFollow(r) => {
                    set_reject(&mut rec, r);
                    rec.update_following_data()
                }
                Op::SrcA(e) => {
                    a.ev(e);
                    Ok(())
                }
                Op::SrcB(e) => {
                    b.ev(e);
                    Ok(())
                }
                Op::SrcOnce(is_b, f, t) => {
                    (if *is_b { &b } else { &a }).set_once(f.out(), t.out());
                    Ok(())
                }
                Op::Clock(c) => {
                    ctl.apply(c, rng.next_u64() as i64);
                    Ok(())
                }
                Op::CgSet(v) => cg.borrow_mut().set(*v),
                Op::CgFollow(is_b) => {
                    cg.borrow_mut().follow(if *is_b { b.dynref() } else { a.dynref() });
                    Ok(())
                }
                Op::CgStop => {
                    cg.borrow_mut().stop_following();
                    Ok(())
                }
                Op::CgUpdate => cg.borrow_mut().update(),
            };
            // ---- model
            let exp: Result<(), Er> = match &op {
                Op::SetOk(v) => m.set(*v, None),
                Op::SetFail(v, c) => {
                    rep.tally("seq_failed_sets");
                    m.set(*v, Some(*c))
                }
                Op::Follow(g) => {
                    if m.fol.is_some() {
                        rep.tally("seq_refollow_while_following");
                    }
                    m.fol = Some(*g);
                    Ok(())
                }
                Op::Stop => {
                    m.fol = None;
                    Ok(())
                }
                Op::Update(r) => {
                    let res = if follows_in_update {
                        let (res, cat) = m.follow_step(*r);
                        rep.tally(&format!("seq_update/{}", cat));
                        if m.fol == Some(Fol::Cg) {
                            rep.tally(&format!("seq_update_following_constant_getter/{}", cat));
                        }
                        res
                    } else {
                        rep.tally("seq_update/settable-without-update_following_data");
                        Ok(())
                    };
                    m.seen_in_update.push(m.last);
                    res
                }
                Op::UpdFollow(r) => {
                    let (res, cat) = m.follow_step(*r);
                    rep.tally(&format!("seq_update_following_data/{}", cat));
                    res
                }
                Op::SrcA(e) => {
                    m.a = *e;
                    m.a_then = None;
                    Ok(())
                }
                Op::SrcB(e) => {
                    m.b = *e;
                    m.b_then = None;
                    Ok(())
                }
                Op::SrcOnce(is_b, f, t) => {
                    if *is_b {
                        m.b = *f;
                        m.b_then = Some(*t);
                    } else {
                        m.a = *f;
                        m.a_then = Some(*t);
                    }
                    Ok(())
                }
                Op::Clock(c) => {
                    m.clock = *c;
                    Ok(())
                }
                Op::CgSet(v) => {
                    m.cg_val = *v;
                    m.cg_last = Some(*v);
                    Ok(())
                }
                Op::CgFollow(is_b) => {
                    m.cg_fol = Some(*is_b);
                    Ok(())
                }
                Op::CgStop => {
                    m.cg_fol = None;
                    Ok(())
                }
                Op::CgUpdate => {
                    let (res, cat) = m.cg_update();
                    rep.tally(&format!("seq_cg_update/{}", cat));
                    res
                }
            };
            // a read-once getter was consumed by this update: its first read decided the update
            let once_key = m.once_hit.map(|(f, t)| (f.kind(), t.kind()));
            if let Some((f, t)) = &m.once_hit {
                let c = |e: &Ev<i64>| match e {
                    Ev::Some(..) => "some",
                    Ev::None => "none",
                    Ev::Err(_) => "err",
                };
                rep.tally("seq_read_once_polled");
                rep.tally(&format!("seq_read_once_polled/{}-then-{}", c(f), c(t)));
            }
            let fol_cat = match m.fol {
                None => 9u8,
                Some(g) => match m.out(g) {
                    Ok(Some(_)) => 0,
                    Ok(None) => 1,
                    Err(Error::FromNone) => 3,
                    Err(_) => 2,
                },
            };
            rep.distinct(("seq", prev, op.code(), m.fol, fol_cat, follows_in_update, once_key));
            prev = op.code();
            rep.eval();
            if got != exp {
                rep.violation(&format!("C15/result/{}", opname), sub, case,
                    format!("op #{} {:?} returned {:?}, model says {:?}; follows_in_update={} ops={:?}", step, op, got, exp, follows_in_update, ops));
            }
        }
        // ---- observations after every operation
        let ctx = |ops: &Vec<Op>| format!("after op #{} ({}); follows_in_update={} clock-kind={} v0={} t0={} ops={:?}", step, opname, follows_in_update, kind, v0, t0, ops);
        rep.eval();
        let lr = rec.get_last_request();
        if lr != m.last {
            rep.violation(&format!("C15/last_request/after-{}", opname), sub, case,
                format!("get_last_request()={:?}, model {:?}; {}", lr, m.last, ctx(&ops)));
        }
        rep.eval();
        if rec.log != m.log {
            rep.violation(&format!("C15/forwarded/after-{}", opname), sub, case,
                format!("impl_set received {:?}, model {:?}; {}", rec.log, m.log, ctx(&ops)));
        }
        rep.eval();
        if rec.seen_in_impl_set != m.seen_in_impl_set {
            rep.violation(&format!("C15/last_request-inside-impl_set/after-{}", opname), sub, case,
                format!("get_last_request() seen from inside the impl_set calls {:?}, model (last SUCCESSFUL set at that moment) {:?}; impl_set log {:?}; {}", rec.seen_in_impl_set, m.seen_in_impl_set, rec.log, ctx(&ops)));
        }
        rep.eval();
        if rec.seen_in_update != m.seen_in_update {
            rep.violation(&format!("C15/last_request-inside-update/after-{}", opname), sub, case,
                format!("get_last_request() seen at the end of the update() calls {:?}, model {:?}; {}", rec.seen_in_update, m.seen_in_update, ctx(&ops)));
        }
        rep.eval();
        let clr = cg.borrow().get_last_request();
        if clr != m.cg_last {
            rep.violation(&format!("C15/constant-last_request/after-{}", opname), sub, case,
                format!("ConstantGetter.get_last_request()={:?}, model {:?}; {}", clr, m.cg_last, ctx(&ops)));
        }
        rep.eval();
        let cgot = cg.borrow().get();
        let cexp = m.cg_get();
        if cgot != cexp {
            rep.violation(&format!("C15/constant-get/after-{}", opname), sub, case,
                format!("ConstantGetter.get()={:?}, model {:?}; {}", cgot, cexp, ctx(&ops)));
        }
        rep.tally(&format!("seq_constant_get/{}", cat(&cexp)));
    }
    rep.tally_n("seq_inside_impl_set/observations", m.seen_in_impl_set.len() as u64);
    rep.tally_n("seq_inside_impl_set/incoming-differs-from-last-success", m.distinguishing_sets);
    rep.tally_n("seq_inside_update/observations", m.seen_in_update.len() as u64);
    if rep.want_sample(sub) {
        rep.sample(sub, format!("clock-kind={} follows_in_update={} v0={} t0={} ops={:?} => last_request={:?} impl_set log={:?}", kind, follows_in_update, v0, t0, ops, m.last, m.log));
    }
}

// ------------------------------------------------------------------------------------------------
// sub-check `hist`: GetterFromHistory
// ------------------------------------------------------------------------------------------------
/// Scripted history: records every time it is asked for (shared log), answers with a value that
/// encodes that time (bijectively) under a stamp unrelated to `now`, or with None per `mode`.
struct Hist {
    queries: Rc<RefCell<Vec<i64>>>,
    events: Rc<RefCell<Vec<char>>>,
    mode: Rc<SCell<u8>>,
    upd_err: Rc<SCell<Option<u8>>>,
    salt: i64,
}
fn enc(q: i64, salt: i64) -> i64 {
    q ^ salt
}
fn is_none(mode: u8, q: i64) -> bool {
    match mode {
        0 => false,
        1 => q < 0,
        2 => q.rem_euclid(3) == 0,
        3 => true,
        _ => q >= 0,
    }
}
impl History<i64, E> for Hist {
    fn get(&self, time: Time) -> Option<Datum<i64>> {
        let q = time.0;
        self.queries.borrow_mut().push(q);
        if is_none(self.mode.get(), q) {
            None
        } else {
            Some(Datum::new(Time(q.wrapping_mul(3).wrapping_add(self.salt)), enc(q, self.salt)))
        }
    }
}
impl Updatable<E> for Hist {
    fn update(&mut self) -> NothingOrError<E> {
        self.events.borrow_mut().push('h');
        match self.upd_err.get() {
            Some(e) => Err(Error::Other(e)),
            None => Ok(()),
        }
    }
}
const CTORS: [&str; 4] = ["new_no_delta", "new_start_at_zero", "new_custom_start", "new_custom_delta"];
fn build<'a, TG: TimeGetter<E>>(ctor: u8, h: &'a mut Hist, tg: Reference<TG>, arg: i64) -> Result<GetterFromHistory<'a, i64, TG, E>, Er> {
    match ctor {
        0 => Ok(GetterFromHistory::new_no_delta(h, tg)),
        1 => GetterFromHistory::new_start_at_zero(h, tg),
        2 => GetterFromHistory::new_custom_start(h, tg, Time(arg)),
        _ => Ok(GetterFromHistory::new_custom_delta(h, tg, Time(arg))),
    }
}
#[derive(Clone, Debug)]
enum HOp {
    Get,
    Clock(ClockOut),
    /// the clock is not idempotent between readings: first reading, later readings
    ClockOnce(ClockOut, ClockOut),
    SetDelta(i64),
    SetTime(i64),
    /// update with scripted errors of the history / of the time getter
    Update(Option<u8>, Option<u8>),
    Mode(u8),
}
impl HOp {
    fn code(&self) -> u8 {
        match self {
            HOp::Get => 0,
            HOp::Clock(Ok(_)) => 1,
            HOp::Clock(Err(_)) => 2,
            HOp::SetDelta(_) => 3,
            HOp::SetTime(_) => 4,
            HOp::Update(None, None) => 5,
            HOp::Update(..) => 6,
            HOp::Mode(_) => 7,
            HOp::ClockOnce(Ok(_), _) => 8,
            HOp::ClockOnce(Err(_), _) => 9,
        }
    }
    fn name(&self) -> &'static str {
        match self {
            HOp::Get => "get",
            HOp::Clock(_) => "clock-change",
            HOp::ClockOnce(..) => "clock-change-read-once",
            HOp::SetDelta(_) => "set_delta",
            HOp::SetTime(_) => "set_time",
            HOp::Update(..) => "update",
            HOp::Mode(_) => "history-change",
        }
    }
}
fn bucket(x: i128) -> (i8, u8) {
    let s = if x < 0 { -1 } else if x > 0 { 1 } else { 0 };
    (s, ((128 - x.unsigned_abs().leading_zeros()) / 8) as u8)
}
/// interval of clock readings for which now + offset stays inside i64 (and now > i64::MIN)
fn clock_room(offset: i128) -> (i128, i128) {
    ((MINC as i128).max(IMIN - offset), IMAX.min(IMAX - offset))
}
fn region(c: &ClockOut) -> i8 {
    match c {
        Err(_) => 9,
        Ok(t) if *t > HALF => 1,
        Ok(t) if *t < -HALF => -1,
        Ok(_) => 0,
    }
}
fn gen_hclock(rng: &mut Rng, ctl: &Ctl, last_ok: i64, offset: i128) -> ClockOut {
    let (lo, hi) = clock_room(offset);
    if ctl.can_err() && rng.chance(0.25) {
        Err(gen_err(rng))
    } else if rng.chance(0.6) {
        Ok(advance(rng, (last_ok as i128).clamp(lo, hi) as i64, hi))
    } else {
        Ok(pick_in(rng, lo, hi))
    }
}
#[allow(clippy::too_many_arguments)]
fn hist_case<TG: TimeGetter<E>>(rep: &mut Report, case: u64, rng: &mut Rng, tg: Reference<TG>, ctl: Ctl, kind: u8, events: Rc<RefCell<Vec<char>>>) {
    let sub = "hist";
    let ctor = ((case / 16 + case) % 4) as u8; // quota, decorrelated from the shard index
    let cname = CTORS[ctor as usize];
    let salt = rng.next_u64() as i64;
    let queries = Rc::new(RefCell::new(Vec::new()));
    let mode = Rc::new(SCell::new(0u8));
    let upd_err = Rc::new(SCell::new(None));
    let mut hist = Hist { queries: queries.clone(), events: events.clone(), mode: mode.clone(), upd_err: upd_err.clone(), salt };
    mode.set(*rng.pick(&[0u8, 0, 1, 2, 4]));
    // the clock reading at (successful) construction, and the constructor argument built around it
    let now_c = pick_in(rng, MINC as i128, IMAX);
    let arg = match ctor {
        2 => pick_in(rng, IMIN + now_c as i128, IMAX + now_c as i128), // start - now fits
        3 => pick_in(rng, IMIN - now_c as i128, IMAX - now_c as i128), // now + delta fits
        _ => wstamp(rng),                                              // unused
    };
    let mut clock: ClockOut = Ok(now_c);
    let mut last_ok = now_c;
    let reads_clock = ctor == 1 || ctor == 2;
    let mut preface = String::new();
    if ctl.can_err() && rng.chance(0.25) {
        let e = gen_err(rng);
        ctl.apply(&Err(e), rng.next_u64() as i64);
        if reads_clock {
            // the constructors that read the clock propagate its error
            {
                let r = build(ctor, &mut hist, tg.clone(), arg);
                rep.eval();
                rep.tally("hist_ctor_clock_error");
                match r {
                    Err(got) if got == e => {}
                    Err(got) => rep.violation(&format!("C15/history/ctor-error/{}", cname), sub, case,
                        format!("{}(arg={}) with the time getter returning Err({:?}) gave Err({:?})", cname, arg, e, got)),
                    Ok(_) => rep.violation(&format!("C15/history/ctor-error/{}", cname), sub, case,
                        format!("{}(arg={}) with the time getter returning Err({:?}) succeeded", cname, arg, e)),
                }
            }
            ctl.apply(&clock, rng.next_u64() as i64);
            preface = format!("(first attempt with clock Err({:?})) ", e);
        } else {
            // these two cannot fail; constructing them while the clock errors must not matter
            clock = Err(e);
            rep.tally("hist_ctor_while_clock_errors");
        }
    } else {
        ctl.apply(&clock, rng.next_u64() as i64);
    }
    let now0 = clock;
    // offset fixed by the constructor: the instant of construction maps to 0 / start; or the given delta
    let mut offset: i128 = match ctor {
        0 => 0,
        1 => -(last_ok as i128),
        2 => arg as i128 - last_ok as i128,
        _ => arg as i128,
    };
    let mut ad = match build(ctor, &mut hist, tg.clone(), arg) {
        Ok(a) => a,
        Err(e) => {
            rep.eval();
            rep.violation(&format!("C15/history/ctor-unexpected-error/{}", cname), sub, case,
                format!("{}(arg={}) with clock {:?} returned Err({:?})", cname, arg, now0, e));
            return;
        }
    };
    rep.tally(&format!("hist_ctor/{}", cname));
    let n = if rng.chance(0.5) { 40 } else { rng.range_i64(1, 40) as usize };
    let mut ops: Vec<HOp> = Vec::with_capacity(n);
    let mut prev = 255u8;
    for step in 0..=n {
        let mut opname = "construction";
        let mut after_get: Option<ClockOut> = None;
        if step > 0 {
            let op = match rng.below(100) {
                0..=14 => HOp::Get,
                15..=44 => {
                    let c = gen_hclock(rng, &ctl, last_ok, offset);
                    if ctl.can_err() && rng.chance(0.2) {
                        // both readings fit the current offset; they always differ
                        let base = c.unwrap_or(last_ok);
                        let mut c2 = gen_hclock(rng, &ctl, base, offset);
                        if c2 == c {
                            c2 = Err(Error::Other(2));
                            if c2 == c {
                                c2 = Err(Error::Other(1));
                            }
                        }
                        HOp::ClockOnce(c, c2)
                    } else {
                        HOp::Clock(c)
                    }
                }
                45..=59 => {
                    // deltas for which now + delta fits (any i64 while the clock errors: the next clock
                    // reading is then chosen to fit the delta)
                    let (lo, hi) = match clock {
                        Ok(now) => (IMIN - now as i128, IMAX - now as i128),
                        Err(_) => (IMIN, IMAX),
                    };
                    let (lo, hi) = (lo.max(IMIN), hi.min(IMAX));
                    HOp::SetDelta(match rng.below(8) {
                        0 => 0,
                        1 => (-(last_ok as i128)).clamp(lo, hi) as i64,
                        2 => (*rng.pick(&[-1i128, 1])).clamp(lo, hi) as i64,
                        // the delta it already has
                        3 => offset as i64,
                        _ => pick_in(rng, lo, hi),
                    })
                }
                60..=79 => {
                    // targets for which t - now fits (any i64 while the clock errors: nothing is computed)
                    let (lo, hi) = match clock {
                        Ok(now) => (IMIN + now as i128, IMAX + now as i128),
                        Err(_) => (IMIN, IMAX),
                    };
                    let (lo, hi) = (lo.max(IMIN), hi.min(IMAX));
                    HOp::SetTime(match (clock, rng.below(8)) {
                        // exactly the current clock reading (offset becomes 0), often while it is non-zero
                        (Ok(now), 0 | 1) => now,
                        (_, 2) => 0i128.clamp(lo, hi) as i64,
                        (_, 3) => last_ok,
                        _ => pick_in(rng, lo, hi),
                    })
                }
                80..=91 => {
                    let h = if rng.chance(0.2) { Some(*rng.pick(&[3u8, 4])) } else { None };
                    let t = if kind == 0 && rng.chance(0.2) { Some(*rng.pick(&[5u8, 6])) } else { None };
                    HOp::Update(h, t)
                }
                _ => HOp::Mode(rng.below(5) as u8),
            };
            ops.push(op.clone());
            opname = op.name();
            rep.tally(&format!("hist_op/{}", opname));
            rep.distinct(("hist", ctor, kind, prev, op.code(), region(&clock), bucket(offset)));
            prev = op.code();
            let ctx = |ops: &Vec<HOp>| format!("{}{}(arg={}) at clock {:?}, clock-kind={}, ops={:?}", preface, cname, arg, now0, kind, ops);
            match &op {
                HOp::Get => {}
                HOp::Clock(c) => {
                    clock = *c;
                    if let Ok(t) = c {
                        last_ok = *t;
                    }
                    ctl.apply(c, rng.next_u64() as i64);
                }
                HOp::ClockOnce(c, c2) => {
                    // the get() observed right below takes the first reading: it alone is "now"
                    clock = *c;
                    if let Ok(t) = c {
                        last_ok = *t;
                    }
                    ctl.apply_once(c, c2, rng.next_u64() as i64);
                    after_get = Some(*c2);
                }
                HOp::SetDelta(d) => {
                    if *d as i128 == offset {
                        rep.tally("hist_set_delta/current-delta");
                    }
                    ad.set_delta(Time(*d));
                    offset = *d as i128;
                }
                HOp::SetTime(t) => {
                    let got = ad.set_time(Time(*t));
                    // now maps to t: offset = t - now; a time-getter error is returned and leaves the offset alone
                    let exp = match clock {
                        Ok(now) => {
                            if *t == now && offset != 0 {
                                rep.tally("hist_set_time/t-equals-now-with-nonzero-offset");
                            }
                            offset = *t as i128 - now as i128;
                            rep.tally("hist_set_time_ok");
                            Ok(())
                        }
                        Err(e) => {
                            rep.tally("hist_set_time_clock_error");
                            Err(e)
                        }
                    };
                    rep.eval();
                    if got != exp {
                        rep.violation(&format!("C15/history/set_time-result/{}", cname), sub, case,
                            format!("set_time({}) with clock {:?} returned {:?}, expected {:?}; {}", t, clock, got, exp, ctx(&ops)));
                    }
                }
                HOp::Update(h, t) => {
                    upd_err.set(*h);
                    if let Ctl::Mine(c) = &ctl {
                        c.borrow_mut().upd_err = *t;
                    }
                    events.borrow_mut().clear();
                    let got = ad.update();
                    let ev: String = events.borrow().iter().collect();
                    // The statement says nothing about GetterFromHistory::update (neither the order of the
                    // two inner updates, nor which of two errors wins, nor whether the second inner update is
                    // skipped after a failure). Only what every reading supports is required: Ok(()) when
                    // neither inner update fails, and an error, if any, is one injected during this call.
                    // (A panic is reported by the case-level capture; the get() clause is checked right below.)
                    let ok = match got {
                        Ok(()) => true,
                        Err(e) => (h.is_some() && e == Error::Other(h.unwrap())) || (t.is_some() && e == Error::Other(t.unwrap())),
                    };
                    rep.eval();
                    rep.tally(if h.is_some() { "hist_update/history-error" } else if t.is_some() { "hist_update/time-getter-error" } else { "hist_update/ok" });
                    if !ok {
                        rep.violation(&format!("C15/history/update-foreign-error/{}", cname), sub, case,
                            format!("update() with injected history error {:?}, time-getter error {:?} returned {:?} (inner update calls seen: {:?}, h = history, t = time getter); {}", h, t, got, ev, ctx(&ops)));
                    }
                    upd_err.set(None);
                    if let Ctl::Mine(c) = &ctl {
                        c.borrow_mut().upd_err = None;
                    }
                }
                HOp::Mode(mm) => mode.set(*mm),
            }
        }
        // ---- observe get() after every operation
        let ctx = || format!("after op #{} ({}): {}{}(arg={}) at clock {:?}, clock-kind={}, clock now {:?}, model offset {}, ops={:?}", step, opname, preface, cname, arg, now0, kind, clock, offset, ops);
        let before = queries.borrow().len();
        let got = ad.get();
        let newq: Vec<i64> = queries.borrow()[before..].to_vec();
        rep.eval();
        match clock {
            Err(e) => {
                rep.tally("hist_get/clock-error");
                if got != Err(e) {
                    rep.violation(&format!("C15/history/get-error/{}", cname), sub, case, format!("get()={:?}, expected Err({:?}); {}", got, e, ctx()));
                }
            }
            Ok(now) => {
                assert!((IMIN..=IMAX).contains(&offset) && (IMIN..=IMAX).contains(&(now as i128 + offset)), "generator bug: now + offset leaves i64");
                let q = (now as i128 + offset) as i64; // in range by construction
                if (now > HALF && offset > 0) || (now < -HALF && offset < 0) {
                    rep.tally("hist_get/outer-half-clock-with-same-sign-offset");
                }
                if now > HALF || now < -HALF {
                    rep.tally("hist_get/outer-half-clock");
                }
                if q == i64::MAX || q == i64::MIN {
                    rep.tally("hist_get/sum-exactly-at-i64-end");
                }
                rep.max("hist_query_abs_log2", (q.unsigned_abs() as f64 + 1.0).log2());
                rep.max("hist_offset_abs_log2", (offset.unsigned_abs() as f64 + 1.0).log2());
                // the history must have been asked, and only ever for now + offset
                if newq.is_empty() || newq.iter().any(|x| *x != q) {
                    rep.violation(&format!("C15/history/query-time/{}", cname), sub, case,
                        format!("history was asked for times {:?}, expected now+offset = {}; {}", newq, q, ctx()));
                }
                rep.eval();
                let exp: Out<i64> = if is_none(mode.get(), q) { Ok(None) } else { Ok(Some(Datum::new(Time(now), enc(q, salt)))) };
                rep.tally(if is_none(mode.get(), q) { "hist_get/none" } else { "hist_get/some" });
                if offset != 0 {
                    rep.tally("hist_get/nonzero-offset");
                }
                match (&got, &exp) {
                    (Ok(Some(g)), Ok(Some(x))) => {
                        if g.value != x.value {
                            rep.violation(&format!("C15/history/get-value/{}", cname), sub, case,
                                format!("get() value decodes to history time {}, expected {}; got {:?}; {}", g.value ^ salt, q, got, ctx()));
                        }
                        if g.time != x.time {
                            rep.violation(&format!("C15/history/get-stamp/{}", cname), sub, case,
                                format!("get() stamped {:?}, expected now = {}; {}", g.time, now, ctx()));
                        }
                    }
                    (Ok(None), Ok(None)) => {}
                    _ => rep.violation(&format!("C15/history/get-category/{}", cname), sub, case, format!("get()={:?}, expected {:?}; {}", got, exp, ctx())),
                }
            }
        }
        // a read-once clock has been read by that get(): from now on it gives its later reading
        if let Some(c2) = after_get {
            rep.tally("hist_get/read-once-clock");
            clock = c2;
            if let Ok(t) = c2 {
                last_ok = t;
            }
        }
    }
    drop(ad);
    if rep.want_sample(sub) {
        rep.sample(sub, format!("{}{}(arg={}) at clock {:?}, clock-kind={}, ops={:?} => final offset {}, {} history queries", preface, cname, arg, now0, kind, ops, offset, queries.borrow().len()));
    }
}
fn hist_dispatch(rep: &mut Report, seed: u64, case: u64) {
    let mut rng = Rng::new(seed, 1502, case);
    let kind = ((case / 4) % 3) as u8;
    let events = Rc::new(RefCell::new(Vec::new()));
    match kind {
        0 => {
            let c = my_clock(&events);
            hist_case(rep, case, &mut rng, Reference::from_rc_ref_cell(c.clone()), Ctl::Mine(c), kind, events)
        }
        1 => {
            let c = rc(Time(0));
            hist_case::<Time>(rep, case, &mut rng, Reference::from_rc_ref_cell(c.clone()), Ctl::T(c), kind, events)
        }
        _ => {
            let s = Src::<i64>::new();
            let g = rc(TimeGetterFromGetter::<i64, Cell<i64>, E>::new(s.typed()));
            hist_case(rep, case, &mut rng, Reference::from_rc_ref_cell(g), Ctl::G(s), kind, events)
        }
    }
}

// ------------------------------------------------------------------------------------------------
// sub-check `adapters`: the small adapters directly, whole i64 range
// ------------------------------------------------------------------------------------------------
fn adapters_case(rep: &mut Report, seed: u64, case: u64) {
    let sub = "adapters";
    let mut rng = Rng::new(seed, 1503, case);
    // ---- Time as a TimeGetter returns itself
    let t = free_stamp(&mut rng);
    let mut tt = Time(t);
    rep.eval();
    let g = <Time as TimeGetter<E>>::get(&tt);
    let u = <Time as Updatable<E>>::update(&mut tt);
    let g2 = <Time as TimeGetter<E>>::get(&tt);
    rep.distinct(("time", bucket(t as i128)));
    if g != Ok(Time(t)) || u != Ok(()) || g2 != Ok(Time(t)) {
        rep.violation("C15/time-as-time-getter", sub, case, format!("Time({}): get()={:?}, update()={:?}, get()={:?}", t, g, u, g2));
    }
    // ---- NoneGetter: always Ok(None), for every payload type; a follower forwards nothing
    let mut ng = NoneGetter::new();
    rep.eval();
    let r1 = <NoneGetter as Getter<i64, E>>::get(&ng);
    let r2 = <NoneGetter as Getter<f32, E>>::get(&ng);
    let r3 = <NoneGetter as Getter<State, E>>::get(&ng);
    let ru = <NoneGetter as Updatable<E>>::update(&mut ng);
    let r4 = <NoneGetter as Getter<i64, E>>::get(&ng);
    if !(matches!(r1, Ok(None)) && matches!(r2, Ok(None)) && matches!(r3, Ok(None)) && ru == Ok(()) && matches!(r4, Ok(None))) {
        rep.violation("C15/none-getter", sub, case, format!("NoneGetter: get::<i64>={:?} get::<f32>={:?} get::<State>={:?} update={:?} get::<i64>={:?}", r1, r2, r3, ru, r4));
    }
    {
        let ngd: Rc<RefCell<dyn Getter<i64, E>>> = rc(NoneGetter);
        let mut rec = RecSettable::<i64>::new();
        let v = raw_val(&mut rng);
        let s = rec.set(v);
        rec.follow(Reference::from_rc_ref_cell(ngd));
        let u1 = rec.update();
        let u2 = rec.update();
        rep.eval();
        if s != Ok(()) || u1 != Ok(()) || u2 != Ok(()) || rec.log != vec![(v, true)] || rec.get_last_request() != Some(v) {
            rep.violation("C15/none-getter-followed", sub, case, format!("set({})={:?}; following NoneGetter: updates {:?} {:?}, impl_set log {:?}, last_request {:?}", v, s, u1, u2, rec.log, rec.get_last_request()));
        }
    }
    // ---- TimeGetterFromGetter over a typed and a dyn getter
    let src = Src::<i64>::new();
    let mut tg1 = TimeGetterFromGetter::<i64, Cell<i64>, E>::new(src.typed());
    let mut tg2 = TimeGetterFromGetter::<i64, dyn Getter<i64, E>, E>::new(src.dynref());
    let mut script = Vec::new();
    let mut prev = 9u8;
    for k in 0..8 {
        let (out, exp, c): (Out<i64>, TimeOutput<E>, u8) = match rng.below(8) {
            0..=3 => {
                let (t, v) = (free_stamp(&mut rng), raw_val(&mut rng));
                (Ok(Some(Datum::new(Time(t), v))), Ok(Time(t)), 0)
            }
            4 | 5 => (Ok(None), Err(Error::FromNone), 1),
            6 => {
                let e = *rng.pick(&[1u8, 2]);
                (Err(Error::Other(e)), Err(Error::Other(e)), 2)
            }
            _ => (Err(Error::FromNone), Err(Error::FromNone), 3),
        };
        script.push(out.clone());
        src.set(out.clone());
        let upd = rng.chance(0.3);
        let mut ups = (Ok(()), Ok(()));
        if upd {
            ups = (tg1.update(), tg2.update());
        }
        let (g1, g2) = (tg1.get(), tg2.get());
        rep.eval();
        rep.distinct(("tgfg", prev, c, upd));
        prev = c;
        rep.tally(["adapters_tgfg/present", "adapters_tgfg/absent", "adapters_tgfg/error", "adapters_tgfg/error-FromNone"][c as usize]);
        if g1 != exp || g2 != exp || ups != (Ok(()), Ok(())) {
            let clause = ["present", "absent", "error", "error"][c as usize];
            rep.violation(&format!("C15/time-getter-from-getter/{}", clause), sub, case,
                format!("event #{}: getter output {:?}: typed get()={:?}, dyn get()={:?}, expected {:?}; update()s {:?}; script {:?}", k, out, g1, g2, exp, ups, script));
        }
    }
    if rep.want_sample(sub) {
        rep.sample(sub, format!("Time({}) as TimeGetter; NoneGetter; TimeGetterFromGetter over script {:?}", t, script));
    }
    // ---- ConstantGetter whose time getter is a Time
    let tcell = rc(Time(t));
    let v0 = raw_val(&mut rng);
    let mut cg = ConstantGetter::<i64, Time, E>::new(Reference::from_rc_ref_cell(tcell.clone()), v0);
    let mut trace = Vec::new();
    let mut ok = true;
    let mut cur = (t, v0, None::<i64>);
    for _ in 0..4 {
        match rng.below(3) {
            0 => {
                let nt = free_stamp(&mut rng);
                *tcell.borrow_mut() = Time(nt);
                cur.0 = nt;
                trace.push(format!("clock={}", nt));
            }
            1 => {
                let nv = raw_val(&mut rng);
                let r = cg.set(nv);
                ok &= r == Ok(());
                cur.1 = nv;
                cur.2 = Some(nv);
                trace.push(format!("set({})={:?}", nv, r));
            }
            _ => {
                let r = cg.update();
                ok &= r == Ok(());
                trace.push(format!("update()={:?}", r));
            }
        }
        let g = cg.get();
        let lr = cg.get_last_request();
        trace.push(format!("get()={:?} last={:?}", g, lr));
        ok &= g == Ok(Some(Datum::new(Time(cur.0), cur.1))) && lr == cur.2;
    }
    rep.eval();
    if !ok {
        rep.violation("C15/constant-get/time-clock", sub, case, format!("ConstantGetter<i64, Time>(Time({}), {}): {:?}", t, v0, trace));
    }
}

// ------------------------------------------------------------------------------------------------
// sub-check `builtin`: the same bookkeeping / following model over every built-in Settable
// implementor of the crate: ConstantGetter, Terminal (two independent Settable impls on one object:
// Datum<Command> and Datum<State>), CommandPID (whose update() has a second duty: its process input)
// ------------------------------------------------------------------------------------------------
/// scripted output of a followed getter, values as indices into the subject's value pool
#[derive(Clone, Copy, Debug, PartialEq, Eq, Hash)]
enum GE {
    Some(usize),
    None,
    Err(u8),
}
impl GE {
    fn cat(&self) -> &'static str {
        match self {
            GE::Some(_) => "some",
            GE::None => "none",
            GE::Err(0) => "err-FromNone",
            GE::Err(_) => "err",
        }
    }
}
/// process input of a CommandPID
#[derive(Clone, Copy, Debug, PartialEq, Eq, Hash)]
enum Aux {
    Present,
    Absent,
    Err(u8),
}
/// two scripted getters of payload S plus the pool of distinct values they hand out
struct Getters<S: Clone> {
    pool: Vec<S>,
    g: [Src<S>; 2],
}
impl<S: Clone + PartialEq + 'static> Getters<S> {
    fn new(pool: Vec<S>) -> Self {
        Getters { pool, g: [Src::new(), Src::new()] }
    }
    fn out(&self, e: GE) -> Out<S> {
        match e {
            GE::Some(i) => Ok(Some(Datum::new(Time(i as i64 * 7 - 3), self.pool[i].clone()))),
            GE::None => Ok(None),
            GE::Err(c) => Err(err_code(c)),
        }
    }
    fn script(&self, gi: usize, first: GE, then: Option<GE>) {
        match then {
            None => self.g[gi].set(self.out(first)),
            Some(t) => self.g[gi].set_once(self.out(first), self.out(t)),
        }
    }
    /// pool index of a value (usize::MAX: not a value the harness ever supplied)
    fn idx(&self, v: &S) -> usize {
        self.pool.iter().position(|p| p == v).unwrap_or(usize::MAX)
    }
}
/// A built-in settable seen through its public API; facets = its Settable impls.
trait Subject {
    fn nfacets(&self) -> usize;
    fn name(&self, f: usize) -> &'static str;
    fn set(&mut self, f: usize, vi: usize) -> Result<(), Er>;
    fn follow(&mut self, f: usize, gi: usize);
    fn stop(&mut self, f: usize);
    fn update(&mut self) -> Result<(), Er>;
    fn upd_follow(&mut self, f: usize) -> Result<(), Er>;
    fn last(&self, f: usize) -> Option<usize>;
    fn script(&self, f: usize, gi: usize, first: GE, then: Option<GE>);
    /// what the object's own getter shows of the stored request, and what it should show given the
    /// model's last request (None: nothing exposed)
    fn exposed(&self, f: usize, model_last: Option<usize>) -> Option<(Result<Option<usize>, Er>, Result<Option<usize>, Er>)>;
    fn aux(&mut self, _a: Aux) {}
}
struct SubCg {
    cg: ConstantGetter<i64, Time, E>,
    gs: Getters<i64>,
}
impl Subject for SubCg {
    fn nfacets(&self) -> usize {
        1
    }
    fn name(&self, _f: usize) -> &'static str {
        "constant-getter"
    }
    fn set(&mut self, _f: usize, vi: usize) -> Result<(), Er> {
        self.cg.set(self.gs.pool[vi])
    }
    fn follow(&mut self, _f: usize, gi: usize) {
        self.cg.follow(self.gs.g[gi].dynref())
    }
    fn stop(&mut self, _f: usize) {
        self.cg.stop_following()
    }
    fn update(&mut self) -> Result<(), Er> {
        self.cg.update()
    }
    fn upd_follow(&mut self, _f: usize) -> Result<(), Er> {
        self.cg.update_following_data()
    }
    fn last(&self, _f: usize) -> Option<usize> {
        self.cg.get_last_request().map(|v| self.gs.idx(&v))
    }
    fn script(&self, _f: usize, gi: usize, first: GE, then: Option<GE>) {
        self.gs.script(gi, first, then)
    }
    fn exposed(&self, _f: usize, model_last: Option<usize>) -> Option<(Result<Option<usize>, Er>, Result<Option<usize>, Er>)> {
        // pool[0] is the construction value
        Some((self.cg.get().map(|o| o.map(|d| self.gs.idx(&d.value))), Ok(Some(model_last.unwrap_or(0)))))
    }
}
/// an unconnected Terminal: facet 0 = its Settable<Datum<Command>>, facet 1 = its Settable<Datum<State>>
struct SubTerm {
    t: Terminal<'static, E>,
    c: Getters<Datum<Command>>,
    s: Getters<Datum<State>>,
}
type TC = Datum<Command>;
type TS = Datum<State>;
impl Subject for SubTerm {
    fn nfacets(&self) -> usize {
        2
    }
    fn name(&self, f: usize) -> &'static str {
        if f == 0 {
            "terminal-command"
        } else {
            "terminal-state"
        }
    }
    fn set(&mut self, f: usize, vi: usize) -> Result<(), Er> {
        if f == 0 {
            <Terminal<'static, E> as Settable<TC, E>>::set(&mut self.t, self.c.pool[vi])
        } else {
            <Terminal<'static, E> as Settable<TS, E>>::set(&mut self.t, self.s.pool[vi])
        }
    }
    fn follow(&mut self, f: usize, gi: usize) {
        if f == 0 {
            <Terminal<'static, E> as Settable<TC, E>>::follow(&mut self.t, self.c.g[gi].dynref())
        } else {
            <Terminal<'static, E> as Settable<TS, E>>::follow(&mut self.t, self.s.g[gi].dynref())
        }
    }
    fn stop(&mut self, f: usize) {
        if f == 0 {
            <Terminal<'static, E> as Settable<TC, E>>::stop_following(&mut self.t)
        } else {
            <Terminal<'static, E> as Settable<TS, E>>::stop_following(&mut self.t)
        }
    }
    fn update(&mut self) -> Result<(), Er> {
        self.t.update()
    }
    fn upd_follow(&mut self, f: usize) -> Result<(), Er> {
        if f == 0 {
            <Terminal<'static, E> as Settable<TC, E>>::update_following_data(&mut self.t)
        } else {
            <Terminal<'static, E> as Settable<TS, E>>::update_following_data(&mut self.t)
        }
    }
    fn last(&self, f: usize) -> Option<usize> {
        if f == 0 {
            <Terminal<'static, E> as Settable<TC, E>>::get_last_request(&self.t).map(|v| self.c.idx(&v))
        } else {
            <Terminal<'static, E> as Settable<TS, E>>::get_last_request(&self.t).map(|v| self.s.idx(&v))
        }
    }
    fn script(&self, f: usize, gi: usize, first: GE, then: Option<GE>) {
        if f == 0 {
            self.c.script(gi, first, then)
        } else {
            self.s.script(gi, first, then)
        }
    }
    fn exposed(&self, f: usize, model_last: Option<usize>) -> Option<(Result<Option<usize>, Er>, Result<Option<usize>, Er>)> {
        // an unconnected terminal's Command / State getter shows its own stored request
        let got = if f == 0 {
            <Terminal<'static, E> as Getter<Command, E>>::get(&self.t).map(|o| o.map(|d| self.c.idx(&d)))
        } else {
            <Terminal<'static, E> as Getter<State, E>>::get(&self.t).map(|o| o.map(|d| self.s.idx(&d)))
        };
        Some((got, Ok(model_last)))
    }
}
struct SubPid {
    pid: CommandPID<Cell<State>, E>,
    gs: Getters<Command>,
    input: Src<State>,
    aux: Aux,
    t: i64,
    step: i64,
}
impl Subject for SubPid {
    fn nfacets(&self) -> usize {
        1
    }
    fn name(&self, _f: usize) -> &'static str {
        "command-pid"
    }
    fn set(&mut self, _f: usize, vi: usize) -> Result<(), Er> {
        self.pid.set(self.gs.pool[vi])
    }
    fn follow(&mut self, _f: usize, gi: usize) {
        self.pid.follow(self.gs.g[gi].dynref())
    }
    fn stop(&mut self, _f: usize) {
        self.pid.stop_following()
    }
    fn update(&mut self) -> Result<(), Er> {
        // a present process reading always carries a strictly later stamp than the previous one
        if self.aux == Aux::Present {
            self.t += self.step;
            self.input.some(self.t, State::new_raw((self.t % 17) as f32, 0.5, -0.25));
        }
        self.pid.update()
    }
    fn upd_follow(&mut self, _f: usize) -> Result<(), Er> {
        self.pid.update_following_data()
    }
    fn last(&self, _f: usize) -> Option<usize> {
        self.pid.get_last_request().map(|v| self.gs.idx(&v))
    }
    fn script(&self, _f: usize, gi: usize, first: GE, then: Option<GE>) {
        self.gs.script(gi, first, then)
    }
    fn exposed(&self, _f: usize, _model_last: Option<usize>) -> Option<(Result<Option<usize>, Er>, Result<Option<usize>, Er>)> {
        None
    }
    fn aux(&mut self, a: Aux) {
        self.aux = a;
        match a {
            Aux::Present => {}
            Aux::Absent => self.input.none(),
            Aux::Err(c) => self.input.err(c),
        }
    }
}
#[derive(Clone, Debug)]
enum BOp {
    Set(usize, usize),
    Follow(usize, usize),
    Stop(usize),
    Update,
    UpdFollow(usize),
    Script(usize, usize, GE),
    ScriptOnce(usize, usize, GE, GE),
    Aux(Aux),
}
impl BOp {
    fn code(&self) -> u8 {
        match self {
            BOp::Set(f, _) => *f as u8,
            BOp::Follow(f, g) => 2 + (*f * 2 + *g) as u8,
            BOp::Stop(f) => 6 + *f as u8,
            BOp::Update => 8,
            BOp::UpdFollow(f) => 9 + *f as u8,
            BOp::Script(f, _, GE::Some(_)) => 11 + *f as u8,
            BOp::Script(f, _, GE::None) => 13 + *f as u8,
            BOp::Script(f, _, GE::Err(0)) => 15 + *f as u8,
            BOp::Script(f, _, GE::Err(_)) => 17 + *f as u8,
            BOp::ScriptOnce(f, ..) => 19 + *f as u8,
            BOp::Aux(Aux::Present) => 21,
            BOp::Aux(Aux::Absent) => 22,
            BOp::Aux(Aux::Err(_)) => 23,
        }
    }
    fn name(&self) -> &'static str {
        match self {
            BOp::Set(..) => "set",
            BOp::Follow(..) => "follow",
            BOp::Stop(_) => "stop_following",
            BOp::Update => "update",
            BOp::UpdFollow(_) => "update_following_data",
            BOp::Script(..) => "getter-change",
            BOp::ScriptOnce(..) => "getter-change-read-once",
            BOp::Aux(_) => "process-input-change",
        }
    }
}
#[derive(Clone, Debug)]
struct MFacet {
    last: Option<usize>,
    fol: Option<usize>,
    g: [(GE, Option<GE>); 2],
}
impl MFacet {
    /// the followed getter is polled: its FIRST read decides; returns (first read, was read-once)
    fn poll(&mut self) -> Option<(GE, bool)> {
        let gi = self.fol?;
        let first = self.g[gi].0;
        let once = match self.g[gi].1.take() {
            Some(t) => {
                self.g[gi].0 = t;
                true
            }
            None => false,
        };
        Some((first, once))
    }
}
const NPOOL: usize = 6;
fn gen_ge(rng: &mut Rng) -> GE {
    match rng.below(10) {
        0..=5 => GE::Some(rng.usize(NPOOL)),
        6 | 7 => GE::None,
        8 => GE::Err(0),
        _ => GE::Err(*rng.pick(&[1u8, 2])),
    }
}
fn gen_ge_pair(rng: &mut Rng) -> (GE, GE) {
    let a = rng.usize(NPOOL);
    let b = (a + 1 + rng.usize(NPOOL - 1)) % NPOOL;
    let e = GE::Err(*rng.pick(&[0u8, 1, 2]));
    match rng.below(9) {
        0..=2 => (GE::Some(a), GE::Some(b)),
        3 | 4 => (GE::Some(a), GE::None),
        5 => (GE::Some(a), e),
        6 | 7 => (GE::None, GE::Some(b)),
        _ => (e, GE::Some(b)),
    }
}
fn builtin_case(rep: &mut Report, seed: u64, case: u64) {
    let sub = "builtin";
    let mut rng = Rng::new(seed, 1504, case);
    // quota over the subjects, decorrelated from the shard index: 0 constant getter, 1 terminal following
    // with its command facet only, 2 with its state facet only, 3 with both, 4/5 command PID
    let kind = ((case / 16 + case) % 6) as u8;
    let fin = |rng: &mut Rng| rng.moderate(1e4);
    let pd = |i: usize| [PositionDerivative::Position, PositionDerivative::Velocity, PositionDerivative::Acceleration][i % 3];
    // pools of NPOOL pairwise distinct values (distinct by construction: the index is part of the value)
    let cmd_pool: Vec<Command> = (0..NPOOL).map(|i| Command::new(pd(i + rng.usize(3)), (i as f32) * 8.0 + 1.0 + (fin(&mut rng).abs() % 4.0))).collect();
    let mut subject: Box<dyn Subject> = match kind {
        0 => {
            let pool: Vec<i64> = (0..NPOOL as i64).map(|i| i * 1000 + rng.range_i64(0, 999) - 2500).collect();
            Box::new(SubCg { cg: ConstantGetter::new(Reference::from_rc_ref_cell(rc(Time(free_stamp(&mut rng)))), pool[0]), gs: Getters::new(pool) })
        }
        1..=3 => {
            let c: Vec<TC> = (0..NPOOL).map(|i| Datum::new(Time(free_stamp(&mut rng)), cmd_pool[i])).collect();
            let s: Vec<TS> = (0..NPOOL).map(|i| Datum::new(Time(free_stamp(&mut rng)), State::new_raw(i as f32 * 8.0 + 1.0, fin(&mut rng), fin(&mut rng)))).collect();
            Box::new(SubTerm { t: Terminal::new_raw(), c: Getters::new(c), s: Getters::new(s) })
        }
        _ => {
            let input = Src::<State>::new();
            let k = PIDKValues::new(fin(&mut rng), fin(&mut rng), fin(&mut rng));
            let kv = PositionDerivativeDependentPIDKValues::new(k, PIDKValues::new(1.0, 0.01, 0.1), k);
            let initial = Command::new(pd(rng.usize(3)), 1000.0 + fin(&mut rng).abs()); // not in the pool
            Box::new(SubPid { pid: CommandPID::new(input.typed(), initial, kv), gs: Getters::new(cmd_pool.clone()), input, aux: Aux::Absent, t: rng.range_i64(-1000, 1000), step: rng.range_i64(1, 2_000_000_000) })
        }
    };
    let nf = subject.nfacets();
    // facets that get follow operations (the other facet of a terminal is only set by hand)
    let active: Vec<usize> = match kind {
        1 => vec![0],
        2 => vec![1],
        3 => vec![0, 1],
        _ => vec![0],
    };
    let is_pid = kind >= 4;
    let mut m: Vec<MFacet> = (0..nf).map(|_| MFacet { last: None, fol: None, g: [(GE::None, None), (GE::None, None)] }).collect();
    let mut aux = Aux::Absent;
    let n = if rng.chance(0.5) { 40 } else { rng.range_i64(1, 40) as usize };
    let mut ops: Vec<BOp> = Vec::with_capacity(n);
    let mut prev = 255u8;
    let mut pending: Option<usize> = None;
    for step in 0..=n {
        let mut opname = "construction";
        if step > 0 {
            let f_any = rng.usize(nf);
            let f_act = *rng.pick(&active);
            let op = if pending.is_some() && rng.chance(0.75) {
                if rng.chance(0.8) {
                    BOp::Update
                } else {
                    BOp::UpdFollow(pending.unwrap())
                }
            } else {
                match rng.below(100) {
                    0..=11 => BOp::Set(f_any, rng.usize(NPOOL)),
                    12..=25 => BOp::Follow(f_act, rng.usize(2)),
                    26..=29 => BOp::Stop(f_act),
                    30..=54 => BOp::Update,
                    55..=59 => BOp::UpdFollow(f_act),
                    x @ 60..=84 => {
                        let gi = match m[f_act].fol {
                            Some(g) if rng.chance(0.8) => g,
                            _ => rng.usize(2),
                        };
                        if x >= 76 {
                            let (a, b) = gen_ge_pair(&mut rng);
                            BOp::ScriptOnce(f_act, gi, a, b)
                        } else {
                            BOp::Script(f_act, gi, gen_ge(&mut rng))
                        }
                    }
                    _ if is_pid => BOp::Aux(match rng.below(4) {
                        0 | 1 => Aux::Present,
                        2 => Aux::Absent,
                        _ => Aux::Err(*rng.pick(&[3u8, 4])),
                    }),
                    _ => BOp::Update,
                }
            };
            pending = match &op {
                BOp::ScriptOnce(f, gi, ..) if m[*f].fol == Some(*gi) => Some(*f),
                _ => None,
            };
            ops.push(op.clone());
            opname = op.name();
            let ctx = |ops: &Vec<BOp>| format!("subject-kind={} ops={:?} (values are pool indices; Err(0) = FromNone)", kind, ops);
            match &op {
                BOp::Set(f, vi) => {
                    let got = subject.set(*f, *vi);
                    m[*f].last = Some(*vi);
                    rep.eval();
                    rep.tally(&format!("builtin/{}/set", subject.name(*f)));
                    if got != Ok(()) {
                        rep.violation(&format!("C15/builtin/result/set/{}", subject.name(*f)), sub, case, format!("set returned {:?}; {}", got, ctx(&ops)));
                    }
                }
                BOp::Follow(f, gi) => {
                    subject.follow(*f, *gi);
                    m[*f].fol = Some(*gi);
                }
                BOp::Stop(f) => {
                    subject.stop(*f);
                    m[*f].fol = None;
                }
                BOp::Script(f, gi, e) => {
                    subject.script(*f, *gi, *e, None);
                    m[*f].g[*gi] = (*e, None);
                }
                BOp::ScriptOnce(f, gi, a, b) => {
                    subject.script(*f, *gi, *a, Some(*b));
                    m[*f].g[*gi] = (*a, Some(*b));
                }
                BOp::Aux(a) => {
                    subject.aux(*a);
                    aux = *a;
                }
                BOp::Update | BOp::UpdFollow(_) => {
                    let whole = matches!(op, BOp::Update);
                    let polled_facets: Vec<usize> = match &op {
                        BOp::UpdFollow(f) => vec![*f],
                        _ => (0..nf).collect(),
                    };
                    let olds: Vec<Option<usize>> = m.iter().map(|x| x.last).collect();
                    let mut polls: Vec<Option<(GE, bool)>> = vec![None; nf];
                    for f in &polled_facets {
                        polls[*f] = m[*f].poll();
                    }
                    let got = if whole { subject.update() } else { subject.upd_follow(polled_facets[0]) };
                    // errors this update may return: those of the followed getters, and (whole update of a
                    // CommandPID) the documented second source, its process input. No order between sources
                    // is asserted. A followed getter's error must be propagated, so some error must come back.
                    let fol_errs: Vec<Er> = polls.iter().flatten().filter_map(|(e, _)| if let GE::Err(c) = e { Some(err_code(*c)) } else { None }).collect();
                    let mut allowed = fol_errs.clone();
                    if whole && is_pid {
                        if let Aux::Err(c) = aux {
                            allowed.push(err_code(c));
                        }
                    }
                    let ok = match got {
                        Ok(()) => fol_errs.is_empty(),
                        Err(e) => allowed.contains(&e),
                    };
                    rep.eval();
                    if !ok {
                        rep.violation(&format!("C15/builtin/result/{}/{}", opname, subject.name(polled_facets[0])), sub, case,
                            format!("{} returned {:?}; followed getters' first reads {:?}, process input {:?}: errors that may come back {:?}, an error must come back: {}; {}", opname, got, polls, aux, allowed, !fol_errs.is_empty(), ctx(&ops)));
                    }
                    let auxs = match aux {
                        Aux::Present => "present",
                        Aux::Absent => "absent",
                        Aux::Err(_) => "err",
                    };
                    for f in 0..nf {
                        let name = subject.name(f);
                        let real = subject.last(f);
                        rep.eval();
                        // the order in which a terminal serves its two followings is not documented: when the
                        // OTHER facet's getter errs, this facet may or may not have been served
                        let other_err = (0..nf).any(|o| o != f && matches!(polls[o], Some((GE::Err(_), _))));
                        match polls[f] {
                            None => {
                                if polled_facets.contains(&f) {
                                    rep.tally(&format!("builtin/{}/not-following", name));
                                }
                                if real != olds[f] {
                                    rep.violation(&format!("C15/builtin/last_request/{}", name), sub, case,
                                        format!("{}: not following (or not the updated facet) but last request went {:?} -> {:?}; {}", opname, olds[f], real, ctx(&ops)));
                                }
                            }
                            Some((first, once)) => {
                                rep.tally(&format!("builtin/{}/{}", name, first.cat()));
                                if once {
                                    rep.tally(&format!("builtin/{}/read-once", name));
                                }
                                if is_pid && whole {
                                    rep.tally(&format!("builtin/command-pid/{}-while-input-{}", first.cat(), auxs));
                                }
                                match first {
                                    GE::Some(v) if !other_err => {
                                        m[f].last = Some(v);
                                        if real != Some(v) {
                                            rep.violation(&format!("C15/builtin/forwarded/{}", name), sub, case,
                                                format!("{}: the followed getter's present value {} was not forwarded: last request {:?} -> {:?} (process input {:?}); {}", opname, v, olds[f], real, aux, ctx(&ops)));
                                        }
                                    }
                                    GE::Some(v) => {
                                        rep.tally("builtin/terminal/other-facet-erred");
                                        if real != Some(v) && real != olds[f] {
                                            rep.violation(&format!("C15/builtin/last_request/{}", name), sub, case,
                                                format!("{}: last request {:?} -> {:?}, expected {:?} or unchanged; {}", opname, olds[f], real, Some(v), ctx(&ops)));
                                        }
                                        m[f].last = real;
                                    }
                                    _ => {
                                        if real != olds[f] {
                                            rep.violation(&format!("C15/builtin/last_request/{}", name), sub, case,
                                                format!("{}: followed getter gave {:?} but last request went {:?} -> {:?}; {}", opname, first, olds[f], real, ctx(&ops)));
                                        }
                                    }
                                }
                                // it is unknown whether a read-once getter was polled at all in that case: put it
                                // (real and model) into its later state
                                if other_err && once {
                                    let gi = m[f].fol.unwrap();
                                    subject.script(f, gi, m[f].g[gi].0, None);
                                }
                            }
                        }
                    }
                }
            }
            let folkey: Vec<(Option<usize>, Option<GE>)> = m.iter().map(|x| (x.fol, x.fol.map(|g| x.g[g].0))).collect();
            rep.distinct(("builtin", kind, prev, op.code(), folkey.iter().map(|(f, g)| (f.is_some(), g.map(|g| g.cat()))).collect::<Vec<_>>(), aux));
            prev = op.code();
            rep.tally(&format!("builtin_op/{}", opname));
        }
        // ---- observations after every operation
        for f in 0..nf {
            let name = subject.name(f);
            rep.eval();
            let real = subject.last(f);
            if real != m[f].last {
                rep.violation(&format!("C15/builtin/last_request/{}", name), sub, case,
                    format!("after op #{} ({}): get_last_request() = {:?}, model {:?}; subject-kind={} ops={:?}", step, opname, real, m[f].last, kind, ops));
            }
            if let Some((got, exp)) = subject.exposed(f, m[f].last) {
                rep.eval();
                if got != exp {
                    rep.violation(&format!("C15/builtin/exposed-get/{}", name), sub, case,
                        format!("after op #{} ({}): the object's own getter shows {:?}, expected {:?}; subject-kind={} ops={:?}", step, opname, got, exp, kind, ops));
                }
            }
        }
    }
    if rep.want_sample(sub) || (kind >= 3 && rep.want_sample("builtin-pid-or-terminal")) {
        let key = if kind >= 3 { "builtin-pid-or-terminal" } else { sub };
        rep.sample(key, format!("subject-kind={} ({}) ops={:?} => last requests {:?}", kind, subject.name(0), ops, m.iter().map(|x| x.last).collect::<Vec<_>>()));
    }
}

fn main() {
    let args = Args::parse();
    let mut rep = Report::new("C15", &args);
    for case in args.cases("seq", 10_000, 600_000) {
        if let Err(msg) = catch(|| seq_case(&mut rep, args.seed, case)) {
            rep.violation("C15/panic/seq", "seq", case, format!("panicked: {}", msg));
        }
    }
    for case in args.cases("hist", 10_000, 600_000) {
        if let Err(msg) = catch(|| hist_dispatch(&mut rep, args.seed, case)) {
            rep.violation("C15/panic/hist", "hist", case, format!("panicked: {}", msg));
        }
    }
    for case in args.cases("adapters", 4_000, 200_000) {
        if let Err(msg) = catch(|| adapters_case(&mut rep, args.seed, case)) {
            rep.violation("C15/panic/adapters", "adapters", case, format!("panicked: {}", msg));
        }
    }
    for case in args.cases("builtin", 12_000, 600_000) {
        if let Err(msg) = catch(|| builtin_case(&mut rep, args.seed, case)) {
            rep.violation("C15/panic/builtin", "builtin", case, format!("panicked: {}", msg));
        }
    }
    for name in ["constant-getter", "terminal-command", "terminal-state", "command-pid"] {
        for c in ["set", "some", "none", "err", "err-FromNone", "read-once", "not-following"] {
            rep.floor(&format!("builtin/{}/{}", name, c), 100);
        }
    }
    for f in ["some", "none", "err"] {
        for a in ["present", "absent", "err"] {
            rep.floor(&format!("builtin/command-pid/{}-while-input-{}", f, a), 100);
        }
    }
    rep.floor("builtin/terminal/other-facet-erred", 30);
    // coverage the oracle depends on (merged over shards)
    for k in [
        "seq_failed_sets",
        "seq_inside_impl_set/observations",
        "seq_inside_impl_set/incoming-differs-from-last-success",
        "seq_inside_update/observations",
        "seq_refollow_while_following",
        "seq_update/forwarded",
        "seq_update/absent",
        "seq_update/getter-error",
        "seq_update/getter-error-FromNone",
        "seq_read_once_polled/some-then-some",
        "seq_read_once_polled/some-then-none",
        "seq_read_once_polled/some-then-err",
        "seq_read_once_polled/none-then-some",
        "seq_read_once_polled/err-then-some",
        "hist_get/read-once-clock",
        "seq_cg_update/getter-error-FromNone",
        "hist_get/outer-half-clock",
        "hist_get/outer-half-clock-with-same-sign-offset",
        "hist_get/sum-exactly-at-i64-end",
        "hist_set_time/t-equals-now-with-nonzero-offset",
        "hist_set_delta/current-delta",
        "seq_update/rejected",
        "seq_update/not-following",
        "seq_update/settable-without-update_following_data",
        "seq_update_following_constant_getter/forwarded",
        "seq_update_following_constant_getter/getter-error",
        "seq_update_following_data/forwarded",
        "seq_cg_update/forwarded",
        "seq_cg_update/absent",
        "seq_cg_update/getter-error",
        "seq_constant_get/err",
        "hist_ctor_clock_error",
        "hist_set_time_ok",
        "hist_set_time_clock_error",
        "hist_get/some",
        "hist_get/none",
        "hist_get/clock-error",
        "hist_get/nonzero-offset",
        "hist_update/ok",
        "hist_update/history-error",
        "hist_update/time-getter-error",
        "adapters_tgfg/present",
        "adapters_tgfg/absent",
        "adapters_tgfg/error",
    ] {
        rep.floor(k, 100);
    }
    for c in CTORS {
        rep.floor(&format!("hist_ctor/{}", c), 100);
    }
    rep.finish(&args);
}
