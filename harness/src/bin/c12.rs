//! C12 — EWMA and moving average are time-weighted convex averages and never panic.
use rrtk::streams::control::*;
use rrtk::streams::math::ExponentStream;
use rrtk::*;
use rrtk_mon::*;
type DF = dyn Getter<f32, E>;
type DQ = dyn Getter<Quantity, E>;
#[derive(Clone, Debug)]
struct Case {
    window: i64,
    smoothing: f32,
    h: Vec<Ev<f32>>,
}
fn gen(rng: &mut Rng, case: u64) -> Case {
    let len = 1 + rng.usize(64);
    let mut t = rng.range_i64(-1_000_000_000_000_000, 1_000_000_000_000_000);
    let const_dt = if rng.chance(0.3) { Some(rng.step_ns(1, 3_600_000_000_000)) } else { None };
    let constant_input = if case % 7 == 0 { Some(rng.moderate(1e4)) } else { None };
    let mut h = Vec::with_capacity(len);
    for _ in 0..len {
        let dt = if rng.chance(0.15) { 0 } else { const_dt.unwrap_or_else(|| rng.step_ns(1, 3_600_000_000_000)) };
        t += dt;
        h.push(match rng.below(12) {
            0 => Ev::None,
            1 => Ev::Err(rng.err_code()),
            _ => Ev::Some(t, constant_input.unwrap_or_else(|| rng.moderate(1e4))),
        });
    }
    if case % 16 == 7 {
        // long silence: 1..3 present samples, 32..44 absent events in a row, then present samples again, everything well
        // inside the window (housekeeping keyed on "nothing arrived for N updates" only shows here)
        let window = rng.step_ns(1_000_000, 36_000_000_000_000);
        let step = (window / 100).max(1);
        let mut t = rng.range_i64(-1_000_000_000_000, 1_000_000_000_000);
        let mut h = Vec::new();
        for _ in 0..1 + rng.usize(3) { t += step; h.push(Ev::Some(t, rng.moderate(1e4))); }
        for _ in 0..32 + rng.usize(13) { t += step; h.push(Ev::None); }
        while h.len() < 60 { t += step; h.push(if rng.chance(0.85) { Ev::Some(t, rng.moderate(1e4)) } else { Ev::None }); }
        return Case { window, smoothing: rng.unit() as f32, h };
    }
    if case % 11 == 3 {
        // 40..64 present samples at a tiny constant step, all inside the window (a cap on the stored history only
        // shows at the maximum length), optionally followed by a gap longer than the window
        let n = if rng.chance(0.5) { 64 } else { 40 + rng.usize(24) };
        let step = rng.range_i64(1, 2_000_000);
        let mut h = Vec::with_capacity(n + 1);
        let mut t = rng.range_i64(-1_000_000_000_000, 1_000_000_000_000);
        for _ in 0..n { t += step; h.push(Ev::Some(t, rng.moderate(1e4))); }
        let window = step * 70 + rng.range_i64(0, 1_000_000_000);
        if h.len() < 64 && rng.chance(0.5) { t += window + rng.range_i64(1, 10_000_000_000); h.push(Ev::Some(t, rng.moderate(1e4))); }
        return Case { window, smoothing: rng.unit() as f32, h };
    }
    let window = match rng.below(5) { 0 => rng.range_i64(1, 10), 1 => rng.step_ns(1, 1_000_000), _ => rng.step_ns(1_000, 36_000_000_000_000) };
    let smoothing = match rng.below(6) { 0 => 0.0, 1 => 1.0, 2 => (2.0f32).powi(-(1 + rng.below(12) as i32)),
        3 => *rng.pick(&[1.0f32 - f32::EPSILON / 2.0, 1.0 - f32::EPSILON, 1.0 - 2.0 * f32::EPSILON, f32::EPSILON, f32::MIN_POSITIVE, 0.5]), // the f32 neighbours of 1 and 0
        _ => rng.unit() as f32 };
    Case { window, smoothing, h }
}
fn secs(ns: i64) -> f32 {
    f32::from(Quantity::from(Time(ns)))
}
fn kk(n: usize) -> f64 {
    48.0 + 8.0 * n as f64
}
fn main() {
    let args = Args::parse();
    let mut rep = Report::new("C12", &args);
    // the crate's own powf, reached through the public ExponentStream
    let pb = Src::<f32>::new();
    let pe = Src::<f32>::new();
    let pow = ExponentStream::new(pb.dynref(), pe.dynref());
    let crate_powf = |b: f32, e: f32| -> f32 {
        pb.some(0, b);
        pe.some(0, e);
        pow.get().unwrap().unwrap().value
    };
    for case in args.cases("filters", 20_000, 1_500_000) {
        let mut rng = Rng::new(args.seed, 1201, case);
        let c = gen(&mut rng, case);
        let sf = Src::<f32>::new();
        let sq = Src::<Quantity>::new();
        let mut ma_f: MovingAverageStream<f32, DF, E> = MovingAverageStream::new(sf.dynref(), Time(c.window));
        let mut ma_q: MovingAverageStream<Quantity, DQ, E> = MovingAverageStream::new(sq.dynref(), Time(c.window));
        let mut ew_f: EWMAStream<f32, DF, E> = EWMAStream::new(sf.dynref(), c.smoothing);
        let mut ew_q: EWMAStream<Quantity, DQ, E> = EWMAStream::new(sq.dynref(), c.smoothing);
        if rep.want_sample("filters") { rep.sample("filters", format!("window={}ns smoothing={} history[..8]={:?}", c.window, c.smoothing, &c.h[..c.h.len().min(8)])); }
        // in half of the cases a second, differently parameterised pair of filters lives alongside and is updated with the
        // same timestamps (other values) just before the filters under test: instances must not influence each other
        let disturb = case % 2 == 1;
        let dsrc = Src::<f32>::new();
        let mut d_ew: EWMAStream<f32, DF, E> = EWMAStream::new(dsrc.dynref(), if c.smoothing == 0.25 { 0.75 } else { 0.25 });
        let mut d_ma: MovingAverageStream<f32, DF, E> = MovingAverageStream::new(dsrc.dynref(), Time(c.window / 3 + 1));
        let mut win: Vec<(i64, f32)> = Vec::new(); // samples since last error (moving average model)
        let mut ew_prev: Option<(i64, f32)> = None; // EWMA: previous output (observed) and its time
        let mut ew_minmax: Option<(f32, f32)> = None;
        let mut ma_last: Option<(i64, f32)> = None;
        let mut occupancy_class = 0u32;
        for (i, e) in c.h.iter().enumerate() {
            match e {
                Ev::Some(t, v) => { sf.some(*t, *v); sq.some(*t, Quantity::new(*v, MILLIMETER)); }
                Ev::None => { sf.none(); sq.none(); }
                Ev::Err(x) => { sf.err(*x); sq.err(*x); }
            }
            if disturb {
                match e { Ev::Some(t, v) => dsrc.some(*t, -0.5 * *v + 1.0), Ev::None => dsrc.none(), Ev::Err(x) => dsrc.err(*x) }
                let _ = catch(|| { let _ = d_ew.update(); let _ = d_ma.update(); let _ = d_ew.get(); let _ = d_ma.get(); });
                rep.tally("updates_with_a_second_instance_alongside");
            }
            let r = catch(|| { let _ = ma_f.update(); let _ = ma_q.update(); let _ = ew_f.update(); let _ = ew_q.update(); });
            rep.eval();
            rep.tally("updates");
            if let Err(m) = r {
                rep.violation("C12/panic", "filters", case, format!("update panicked at event {}: {}; case={:?}", i, m, c));
                break;
            }
            let (gmf, gmq, gef, geq) = (ma_f.get(), ma_q.get(), ew_f.get(), ew_q.get());
            // ---- variant agreement (bit-exact on value, same category/time)
            rep.eval();
            let agree = |a: &Out<f32>, b: &Out<Quantity>| match (a, b) {
                (Ok(Some(x)), Ok(Some(y))) => x.time == y.time && same(x.value, y.value.value) && ueq(y.value.unit, MILLIMETER),
                (Ok(None), Ok(None)) => true,
                (Err(x), Err(y)) => x == y,
                _ => false,
            };
            if !agree(&gmf, &gmq) {
                rep.violation("C12/variants-differ/MovingAverage", "filters", case, format!("event {}: f32 {:?} vs Quantity {:?}; case={:?}", i, gmf, gmq, c));
                break;
            }
            if !agree(&gef, &geq) {
                rep.violation("C12/variants-differ/EWMA", "filters", case, format!("event {}: f32 {:?} vs Quantity {:?}; case={:?}", i, gef, geq, c));
                break;
            }
            match e {
                Ev::Some(t, x) => {
                    rep.tally("present");
                    // ---------------- moving average
                    win.push((*t, *x));
                    let lo = *t - c.window;
                    let inside: Vec<(i64, f32)> = win.iter().cloned().filter(|s| s.0 > lo).collect();
                    let mut prev_t = lo;
                    let mut wsum: i64 = 0;
                    let (mut acc, mut mag) = (0.0f64, 0.0f64);
                    let (mut mn, mut mx) = (f32::INFINITY, f32::NEG_INFINITY);
                    for (ti, xi) in &inside {
                        let w = *ti - prev_t;
                        if w < 0 { rep.violation("C12/model-negative-weight", "filters", case, format!("harness model bug {:?}", c)); }
                        wsum += w;
                        acc += w as f64 * *xi as f64;
                        mag += w as f64 * (*xi as f64).abs();
                        prev_t = *ti;
                        mn = mn.min(*xi);
                        mx = mx.max(*xi);
                    }
                    if wsum != c.window { rep.violation("C12/model-weights-sum", "filters", case, format!("harness model: weights sum {} != window {}", wsum, c.window)); }
                    let expect = acc / c.window as f64;
                    let mag = mag / c.window as f64;
                    occupancy_class |= 1 << inside.len().min(20);
                    if inside.len() == 1 && win.len() > 1 { rep.tally("ma_window_shorter_than_step"); }
                    if inside.len() == win.len() && win.len() > 3 { rep.tally("ma_window_longer_than_history"); }
                    if inside.len() > 1 && inside.len() < win.len() { rep.tally("ma_window_partial"); }
                    rep.eval();
                    match &gmf {
                        Ok(Some(d)) => {
                            let bound = kk(inside.len()) * U * mag;
                            let (ok, ratio) = within(d.value, expect, bound);
                            rep.max("ma_err_over_bound", ratio);
                            if d.time.0 != *t {
                                rep.violation("C12/ma-timestamp", "filters", case, format!("event {}: stamped {} expected {}; case={:?}", i, d.time.0, t, c));
                                break;
                            }
                            if !ok {
                                rep.violation("C12/ma-value", "filters", case, format!("event {}: moving average {} but weighted average of {} samples in window is {:e} (bound {:e}); case={:?}", i, f(d.value), inside.len(), expect, bound, c));
                                break;
                            }
                            // convexity
                            if (d.value as f64) < mn as f64 - bound || (d.value as f64) > mx as f64 + bound {
                                rep.violation("C12/ma-not-convex", "filters", case, format!("event {}: {} outside [{}, {}]; case={:?}", i, d.value, mn, mx, c));
                                break;
                            }
                            if win.len() == 1 {
                                rep.tally("ma_first_sample");
                                if ulp_dist(d.value, *x) > 4 {
                                    rep.violation("C12/ma-first-sample", "filters", case, format!("first sample {} returned as {}; case={:?}", f(*x), f(d.value), c));
                                    break;
                                }
                            }
                            ma_last = Some((d.time.0, d.value));
                        }
                        other => {
                            rep.violation("C12/ma-presence", "filters", case, format!("event {} present but moving average gives {:?}; case={:?}", i, other, c));
                            break;
                        }
                    }
                    // ---------------- EWMA
                    rep.eval();
                    match &gef {
                        Ok(Some(d)) => {
                            if d.time.0 != *t {
                                rep.violation("C12/ewma-timestamp", "filters", case, format!("event {}: stamped {} expected {}; case={:?}", i, d.time.0, t, c));
                                break;
                            }
                            match ew_prev {
                                None => {
                                    rep.tally("ewma_first_sample");
                                    if !same(d.value, *x) {
                                        rep.violation("C12/ewma-first-sample", "filters", case, format!("first sample {} returned as {}; case={:?}", f(*x), f(d.value), c));
                                        break;
                                    }
                                    ew_minmax = Some((*x, *x));
                                }
                                Some((pt, pv)) => {
                                    let dt = secs(*t - pt);
                                    let p = crate_powf(1.0 - c.smoothing, dt);
                                    let lambda = 1.0f32 - p;
                                    if !(0.0..=1.0).contains(&lambda) {
                                        rep.violation("C12/ewma-lambda-range", "filters", case, format!("lambda {} outside [0,1] for smoothing {} dt {}", lambda, c.smoothing, dt));
                                        break;
                                    }
                                    let l = lambda as f64;
                                    let expect = pv as f64 * (1.0 - l) + *x as f64 * l;
                                    let bound = 24.0 * U * ((pv as f64).abs() + (*x as f64).abs());
                                    let (ok, ratio) = within(d.value, expect, bound);
                                    rep.max("ewma_err_over_bound", ratio);
                                    if !ok {
                                        rep.violation("C12/ewma-value", "filters", case, format!("event {}: EWMA {} but prev*(1-L)+new*L = {:e} with prev={} new={} L={} dt={}s (bound {:e}); case={:?}", i, f(d.value), expect, pv, x, lambda, dt, bound, c));
                                        break;
                                    }
                                    let (mn, mx) = ew_minmax.unwrap();
                                    let (mn, mx) = (mn.min(*x), mx.max(*x));
                                    ew_minmax = Some((mn, mx));
                                    let slack = 16.0 * U * (mn.abs().max(mx.abs()) as f64) * (i + 1) as f64;
                                    if (d.value as f64) < mn as f64 - slack || (d.value as f64) > mx as f64 + slack {
                                        rep.violation("C12/ewma-not-convex", "filters", case, format!("event {}: {} outside [{}, {}]; case={:?}", i, d.value, mn, mx, c));
                                        break;
                                    }
                                    if lambda > 0.0 && lambda < 1.0 { rep.tally("ewma_strict_mix"); }
                                }
                            }
                            ew_prev = Some((*t, d.value));
                        }
                        other => {
                            rep.violation("C12/ewma-presence", "filters", case, format!("event {} present but EWMA gives {:?}; case={:?}", i, other, c));
                            break;
                        }
                    }
                }
                Ev::None => {
                    rep.tally("absent");
                    // ignored: outputs unchanged (an error output is cleared to absent)
                    rep.eval();
                    let ok_ma = match (&gmf, ma_last) { (Ok(Some(d)), Some((t, v))) => d.time.0 == t && same(d.value, v), (Ok(None), None) => true, _ => false };
                    let ok_ew = match (&gef, ew_prev) { (Ok(Some(d)), Some((t, v))) => d.time.0 == t && same(d.value, v), (Ok(None), None) => true, _ => false };
                    if !ok_ma { rep.violation("C12/ma-absent-not-ignored", "filters", case, format!("event {} absent: moving average {:?}, last {:?}; case={:?}", i, gmf, ma_last, c)); break; }
                    if !ok_ew { rep.violation("C12/ewma-absent-not-ignored", "filters", case, format!("event {} absent: EWMA {:?}, last {:?}; case={:?}", i, gef, ew_prev, c)); break; }
                }
                Ev::Err(_) => {
                    rep.tally("error");
                    win.clear();
                    ew_prev = None;
                    ew_minmax = None;
                    ma_last = None;
                }
            }
        }
        rep.distinct((occupancy_class, c.window.ilog10(), (c.smoothing * 4.0) as u32, c.h.iter().any(|e| matches!(e, Ev::Err(_))), c.h.iter().any(|e| matches!(e, Ev::None))));
    }
    rep.floor("updates_with_a_second_instance_alongside", 1000);
    rep.floor("ma_window_shorter_than_step", 50);
    rep.floor("ma_window_longer_than_history", 50);
    rep.floor("ma_window_partial", 50);
    rep.floor("ewma_strict_mix", 500);
    rep.floor("ewma_first_sample", 500);
    rep.finish(&args);
}
