//! C16, native lane with the scratch arrays POISONED (--cfg rrtk_verif): the n-ary streams, the
//! terminal state read and the axle constructor must only ever use slots they initialised.
//! (The Miri lane, c16_miri.rs, and the lifetime probes are the other two lanes of this property.)
use rrtk::devices::Axle;
use rrtk::*;
use rrtk_mon::nary::{check, digits};
use rrtk_mon::*;
use std::cell::RefCell;
type T<'a> = RefCell<Terminal<'a, E>>;
fn set_state(t: &T, time: i64, s: State) { let _ = Settable::<Datum<State>, E>::set(&mut *t.borrow_mut(), Datum::new(Time(time), s)); }
fn get_state(t: &T) -> Out<State> { <Terminal<E> as Getter<State, E>>::get(&t.borrow()) }
fn get_cmd(t: &T) -> Out<Command> { <Terminal<E> as Getter<Command, E>>::get(&t.borrow()) }
fn axle_fresh<const N: usize>() -> Result<(), String> {
    let ext: Vec<T> = (0..N).map(|_| Terminal::new()).collect();
    let mut ax = Axle::<N, E>::new();
    for i in 0..N {
        let t = ax.get_terminal(i);
        // an unwritten RefCell would carry a poisoned borrow flag / link
        if t.try_borrow_mut().is_err() { return Err(format!("Axle<{}> terminal {}: fresh terminal is already borrowed (slot not initialised?)", N, i)); }
        if !matches!(get_state(t), Ok(None)) || !matches!(get_cmd(t), Ok(None)) { return Err(format!("Axle<{}> terminal {}: fresh terminal is not empty", N, i)); }
        if Settable::<Datum<State>, E>::get_last_request(&*t.borrow()).is_some() { return Err(format!("Axle<{}> terminal {}: fresh terminal has a last request", N, i)); }
    }
    // an index at or beyond N must not hand out a reference outside the axle: either the call panics
    // (bounds check) or, if an implementation chose to wrap/clamp, the reference is one of the N terminals
    for idx in [N, N + 1, N + 7, usize::MAX] {
        let valid: Vec<*const T> = (0..N).map(|i| ax.get_terminal(i) as *const T).collect();
        match catch(|| ax.get_terminal(idx) as *const T) {
            Err(_) => {}
            Ok(p) => if !valid.contains(&p) { return Err(format!("Axle<{}>::get_terminal({}) returned a reference that is not one of the axle's {} terminals (out of bounds)", N, idx, N)); }
        }
    }
    for i in 0..N { connect(&ext[i], ax.get_terminal(i)); }
    if N > 0 {
        set_state(&ext[0], 7, State::new_raw(3.0, 2.0, 1.0));
        ax.update().map_err(|e| format!("update failed {:?}", e))?;
        for i in 0..N {
            match Settable::<Datum<State>, E>::get_last_request(&*ax.get_terminal(i).borrow()) {
                Some(d) if d.time.0 == 7 && d.value.position == 3.0 => {}
                other => return Err(format!("Axle<{}> terminal {} after update: {:?}", N, i, other)),
            }
        }
    } else {
        ax.update().map_err(|e| format!("update failed {:?}", e))?;
    }
    Ok(())
}

// ---- to_dyn! on a Reference that is the ONLY handle to its target: if the conversion succeeds the result
// must keep the target alive (a conversion through a raw pointer of an Rc/Arc would drop it)
pub trait Tr { fn v(&self) -> u64; }
struct Tgt { v: u64, dropped: std::sync::Arc<std::sync::atomic::AtomicBool> }
impl Tr for Tgt { fn v(&self) -> u64 { self.v } }
impl Drop for Tgt { fn drop(&mut self) { self.dropped.store(true, std::sync::atomic::Ordering::SeqCst); } }
/// returns (variant name, Ok(None) = macro panicked (not supported), Ok(Some(value read)), Err(description))
fn to_dyn_sole_handle(variant: usize) -> (&'static str, Result<Option<u64>, String>) {
    use std::sync::atomic::Ordering;
    let flag = std::sync::Arc::new(std::sync::atomic::AtomicBool::new(false));
    let t = Tgt { v: 41 + variant as u64, dropped: flag.clone() };
    let (name, r): (&'static str, Reference<Tgt>) = match variant {
        0 => ("RcRefCell", rc_ref_cell_reference(t)),
        1 => ("ArcRwLock", arc_rw_lock_reference(t)),
        _ => ("ArcMutex", arc_mutex_reference(t)),
    };
    let conv = catch(move || to_dyn!(Tr, r));
    match conv {
        Err(_) => (name, Ok(None)),
        Ok(d) => {
            if flag.load(Ordering::SeqCst) { return (name, Err(format!("to_dyn! on the only {} handle succeeded but the target was dropped while the trait-object Reference is alive", name))); }
            let got = d.borrow().v();
            let c = d.clone();
            drop(d);
            if flag.load(Ordering::SeqCst) { return (name, Err(format!("target of a {} Reference dropped while a clone of the trait-object Reference is alive", name))); }
            let got2 = c.borrow().v();
            drop(c);
            if got != 41 + variant as u64 || got2 != got { return (name, Err(format!("trait-object Reference reads {} / {}", got, got2))); }
            if !flag.load(Ordering::SeqCst) { return (name, Err(format!("target of a {} Reference never dropped after the last handle", name))); }
            (name, Ok(Some(got)))
        }
    }
}
fn main() {
    let args = Args::parse();
    let mut rep = Report::new("C16", &args);
    // ---- n-ary streams: every assignment of {absent, present, Err(1), Err(2)}... (base 3: absent/present/Err) for N<=8
    let draws = args.pick(12, 200);
    let mut idx = 0u64;
    for n in 1..=8usize {
        let total = 3u64.pow(n as u32);
        for code in 0..total {
            for variant in 0..4u64 {
                let case = idx;
                idx += 1;
                if !args.mine("nary", case) { continue; }
                let base_pat = digits(code, n, 3);
                let pat = base_pat.clone();
                let (product, quantity) = (variant & 1 == 1, variant & 2 == 2);
                let name = format!("{}<{}>", if product { "ProductStream" } else { "SumStream" }, if quantity { "Quantity" } else { "f32" });
                rep.distinct((n, code, variant));
                if pat.iter().all(|&p| p == 1) { rep.tally("patterns_all_present"); } else if pat.iter().any(|&p| p == 0) && pat.iter().any(|&p| p == 1) { rep.tally("patterns_with_gaps"); }
                for d in 0..draws {
                    let mut rng = Rng::new(args.seed, 1600 + d, case);
                    let mut pat = base_pat.clone();
                    // alternate the error codes (Other(1), Other(2), FromNone) and turn some present inputs into read-once inputs
                    if d % 3 == 1 { for p in pat.iter_mut() { if *p == 2 { *p = 3; } } }
                    if d % 3 == 2 { for p in pat.iter_mut() { if *p == 2 { *p = 5; } } }
                    if d % 2 == 1 { for p in pat.iter_mut() { if *p == 1 && rng.chance(0.5) { *p = 4; } } }
                    rep.eval();
                    match catch(|| check(n, &pat, &mut rng, product, quantity)) {
                        Ok(Ok(())) => {}
                        Ok(Err(m)) => { rep.violation(&format!("C16/poison-differential/{}", name), "nary", case, format!("arity {}: {}", n, m)); break; }
                        Err(m) => { rep.violation(&format!("C16/panic/{}", name), "nary", case, format!("arity {} pattern {:?}: panic {}", n, pat, m)); break; }
                    }
                }
                if rep.want_sample("nary") && code % 7 == 3 { rep.sample("nary", format!("{} arity {} pattern {:?} (0 absent, 1 present, 2 error) x {} value draws", name, n, pat, draws)); }
            }
        }
    }
    rep.exhaustive("SumStream/ProductStream x f32/Quantity x arity 1..8 x every assignment of {absent, present, error} to the inputs");
    // ---- terminal state read: four own/partner presence combinations
    for case in args.cases("terminal", 4_000, 200_000) {
        let mut rng = Rng::new(args.seed, 1650, case);
        let (a, b): (T, T) = (Terminal::new(), Terminal::new());
        let combo = case % 8;
        let connected = combo & 4 != 0;
        if connected { connect(&a, &b); }
        let (sa, sb) = (State::new_raw(rng.moderate(1e4), rng.moderate(1e3), rng.moderate(1e2)), State::new_raw(rng.moderate(1e4), rng.moderate(1e3), rng.moderate(1e2)));
        let (ta, tb) = (rng.range_i64(-1000, 1000), rng.range_i64(-1000, 1000));
        if combo & 1 != 0 { set_state(&a, ta, sa); }
        if combo & 2 != 0 { set_state(&b, tb, sb); }
        rep.eval();
        rep.distinct(("terminal", combo));
        rep.tally(&format!("terminal_combo/{}", combo));
        let got = catch(|| get_state(&a));
        let exp: Option<(i64, State)> = match (combo & 1 != 0, connected && combo & 2 != 0) {
            (false, false) => None,
            (true, false) => Some((ta, sa)),
            (false, true) => Some((tb, sb)),
            (true, true) => Some((ta.max(tb), (sa + sb) / 2.0)),
        };
        let ok = match (&got, &exp) {
            (Ok(Ok(None)), None) => true,
            (Ok(Ok(Some(d))), Some((t, s))) => d.time.0 == *t && ssame(&d.value, s),
            _ => false,
        };
        if !ok { rep.violation("C16/poison-differential/Terminal-state-read", "terminal", case, format!("combo own={} partner={} connected={}: got {:?} expected {:?}", combo & 1 != 0, combo & 2 != 0, connected, got, exp)); }
        if rep.want_sample("terminal") { rep.sample("terminal", format!("own={} partner={} connected={} -> {:?}", combo & 1 != 0, combo & 2 != 0, connected, got)); }
    }
    // ---- axle constructor, sizes 0..8
    if args.mine("axle", 0) {
        macro_rules! ax { ($($n:literal),*) => { $( { rep.eval(); rep.distinct(("axle", $n)); rep.tally("axle_sizes");
            match catch(|| axle_fresh::<$n>()) { Ok(Ok(())) => {}, Ok(Err(m)) => rep.violation(if m.contains("out of bounds") { "C16/out-of-bounds/Axle::get_terminal" } else { "C16/poison-differential/Axle::new" }, "axle", $n, m), Err(m) => rep.violation("C16/panic/Axle::new", "axle", $n, format!("Axle<{}>: {}", $n, m)) } } )* } }
        ax!(0, 1, 2, 3, 4, 5, 6, 7, 8);
        rep.sample("axle", "Axle::<N>::new() for N=0..8: every terminal borrowable, empty, connectable; one update broadcast".to_string());
    }
    // ---- to_dyn! on a sole handle
    if args.mine("to_dyn", 0) {
        for variant in 0..3 {
            rep.eval();
            let (name, r) = to_dyn_sole_handle(variant);
            rep.distinct(("to_dyn", variant));
            match r {
                Ok(None) => rep.tally(&format!("to_dyn_sole_handle/{}/not-supported", name)),
                Ok(Some(_)) => rep.tally(&format!("to_dyn_sole_handle/{}/ok", name)),
                Err(m) => rep.violation(&format!("C16/dangling/to_dyn/{}", name), "to_dyn", variant as u64, m),
            }
        }
        rep.sample("to_dyn", "to_dyn!(Tr, <only handle>) for RcRefCell / ArcRwLock / ArcMutex: if it succeeds the target must stay alive until the last trait-object handle is dropped".into());
    }
    // ---- an Rc<RefCell>-backed Reference must keep RefCell's exclusivity: a mutable borrow through a clone while a
    // shared borrow is alive (or the reverse) must be refused (panic), otherwise safe code can invalidate a live &T
    if args.mine("exclusive", 0) {
        let r = rc_ref_cell_reference(vec![1u32, 2, 3]);
        let r2 = r.clone();
        rep.eval();
        rep.distinct(("exclusive", 0));
        {
            let g = r.borrow();
            let granted = catch(|| { let mut m = r2.borrow_mut(); m.push(4); }).is_ok();
            let still = g.len();
            if granted { rep.violation("C16/aliasing/RcRefCell/borrow_mut-while-borrowed", "exclusive", 0, format!("borrow_mut() through a clone was granted while a shared borrow is alive (shared view sees len {})", still)); }
        }
        rep.eval();
        rep.distinct(("exclusive", 1));
        {
            let m = r.borrow_mut();
            let granted = catch(|| r2.borrow().len()).is_ok();
            drop(m);
            if granted { rep.violation("C16/aliasing/RcRefCell/borrow-while-mutably-borrowed", "exclusive", 1, "borrow() through a clone was granted while a mutable borrow is alive".into()); }
        }
        rep.tally("exclusivity_checks");
    }
    rep.floor("patterns_with_gaps", 1000);
    for c in 0..8 { rep.floor(&format!("terminal_combo/{}", c), 50); }
    rep.finish(&args);
}
