//! C18 — Time and integer quantities: exact integer arithmetic, faithful float conversion.
//!
//! Sub-checks (all on the public operators / conversions of `rrtk::dimensions`):
//!   int        integer operators of Time / DimensionlessInteger == i64 arithmetic (oracle in i128,
//!              operands generated so that the i64 result exists), From/Into/new identities
//!   t2q        Quantity::from(Time): unit == SECOND, value within 2 f32 ulps of ns/1e9
//!   mono       t <= t'  =>  value(t) <= value(t') on non-decreasing chains
//!   q2t        Time::try_from(Quantity seconds): |result - x*1e9| <= |x*1e9|*2^-23 + 1
//!   roundtrip  Time -> Quantity -> Time within |t|*2^-22 + 1 ns
//!   units      Time::try_from / DimensionlessInteger::try_from on the 49 grid units: Ok iff s / 1
//!   di-conv    DimensionlessInteger <-> Quantity (one rounding / at most 1 of truncation)
//!   mixed      every Quantity-valued cell of the three implementation tables == the pure Quantity
//!              operator after Quantity::from on the non-Quantity operands (value, unit, panic outcome)
use rrtk::*;
use rrtk_mon::*;

const P62: i64 = 1 << 62;
type DI = DimensionlessInteger;

/// number of bits of |v| (0 for 0, k+1 for 2^k <= |v| < 2^(k+1)); the magnitude stratum.
fn bitlen(v: i64) -> u32 {
    64 - v.unsigned_abs().leading_zeros()
}
fn sgn(v: i64) -> i8 {
    v.signum() as i8
}
/// Stratified i64 with |v| <= 2^max_bits (max_bits <= 62): small ints, 2^k +- few, uniform in a
/// random binade; random sign.
fn gen_i64(rng: &mut Rng, max_bits: u32) -> i64 {
    let max_bits = max_bits.min(62);
    let lim = 1i64 << max_bits;
    let v = match rng.below(8) {
        0 => rng.range_i64(0, 3),
        1 => {
            let k = rng.below(max_bits as u64 + 1) as u32;
            (1i64 << k) + rng.range_i64(-2, 2)
        }
        _ => {
            let k = rng.below(max_bits as u64 + 1) as u32;
            let hi = 1i64 << k;
            rng.range_i64(hi / 2, hi)
        }
    };
    let v = v.clamp(-lim, lim);
    if rng.chance(0.5) {
        v
    } else {
        -v
    }
}
/// Nanosecond counts where the i64 -> f32 rounding is delicate: next to k*2^24, next to the midpoint
/// of two adjacent f32 values, next to powers of two, next to whole seconds. |v| <= 2^62.
fn gen_boundary(rng: &mut Rng) -> i64 {
    let v = match rng.below(4) {
        0 => {
            let kb = rng.below(39) as u32; // k < 2^38  => k*2^24 <= 2^62
            let k = rng.range_i64(1, 1i64 << kb);
            k * (1i64 << 24) + rng.range_i64(-3, 3)
        }
        1 => {
            let e = rng.range_i64(24, 61) as u32;
            let m = rng.range_i64(1 << 23, (1 << 24) - 1);
            let sp = 1i64 << (e - 23); // spacing of f32 in [2^e, 2^(e+1))
            m * sp + sp / 2 + rng.range_i64(-2, 2)
        }
        2 => {
            let e = rng.range_i64(20, 62) as u32;
            (1i64 << e) + rng.range_i64(-300, 300)
        }
        _ => {
            let kb = rng.below(33) as u32; // up to 2^32 s ~ 4.29e18 ns < 2^62
            let k = rng.range_i64(0, 1i64 << kb);
            k * 1_000_000_000 + rng.range_i64(-3, 3)
        }
    };
    let v = v.clamp(-P62, P62);
    if rng.chance(0.5) {
        v
    } else {
        -v
    }
}
const NS: i64 = 1_000_000_000;
/// "Round" nanosecond counts, the ones a special-cased conversion would single out: whole seconds
/// (1..=300 s, up to 4e6 s, up to the 2^62 ns limit ~ 4.6e9 s), whole milliseconds / microseconds,
/// multiples of 2^32 ns, powers of two. 8 <= |v| + 8 <= 2^62 so that +-4 ns neighbours stay in range.
fn gen_round_time(rng: &mut Rng) -> i64 {
    let v = match rng.below(8) {
        0 | 1 => rng.range_i64(1, 300) * NS,
        2 => rng.range_i64(1, 4_000_000) * NS,
        3 => {
            let kb = rng.below(33) as u32;
            rng.range_i64(1, (1i64 << kb).min(4_611_686_017)) * NS
        }
        4 => {
            let kb = rng.below(43) as u32;
            rng.range_i64(1, (1i64 << kb).min(4_611_686_018_426)) * 1_000_000
        }
        5 => {
            let kb = rng.below(53) as u32;
            rng.range_i64(1, (1i64 << kb).min(4_611_686_018_427_386)) * 1_000
        }
        6 => {
            let kb = rng.below(30) as u32;
            rng.range_i64(1, 1i64 << kb) << 32
        }
        _ => 1i64 << rng.range_i64(0, 61),
    };
    let v = v.min(P62 - 8);
    if rng.chance(0.5) {
        v
    } else {
        -v
    }
}
/// a round time or its +-1 ns neighbour
fn gen_round_neighbour(rng: &mut Rng) -> i64 {
    gen_round_time(rng) + *rng.pick(&[0i64, 0, 1, -1])
}
/// The i64 edge stratum, 2^62 < |v| <= 2^63: i64::MAX, i64::MIN, MAX-1, MIN+1, MAX-k / MIN+k for small
/// k, +-2^63 -+ 2^j, random in the top binade. Only for values that are CONVERTED (casts never overflow);
/// never an operand of integer arithmetic.
fn gen_edge(rng: &mut Rng) -> i64 {
    let top = rng.chance(0.5);
    let off: i64 = match rng.below(6) {
        0 => 0,
        1 => 1,
        2 => rng.range_i64(0, 1000),
        3 => rng.range_i64(0, 1 << 41), // about two f32 spacings below 2^63
        4 => {
            let j = rng.range_i64(0, 62);
            // 2^63 - 2^j = MAX - (2^j - 1);  -2^63 + 2^j = MIN + 2^j
            if top {
                (1i64 << j) - 1
            } else {
                1i64 << j
            }
        }
        _ => rng.range_i64(0, P62 - 1),
    };
    if top {
        i64::MAX - off
    } else {
        i64::MIN + off
    }
}
fn is_edge(t: i64) -> bool {
    t.unsigned_abs() > (1u64 << 62)
}
fn gen_time(rng: &mut Rng) -> i64 {
    match rng.below(10) {
        0..=2 => gen_boundary(rng),
        3..=5 => gen_round_neighbour(rng),
        6 => gen_edge(rng),
        _ => gen_i64(rng, 62),
    }
}
/// DimensionlessInteger operands: additionally the integers around the limits of f32 / i32
/// representability and powers of ten (a detour through f64 or i32 differs from `as f32` only there).
fn gen_di(rng: &mut Rng) -> i64 {
    match rng.below(10) {
        0..=2 => {
            let v = match rng.below(6) {
                0 => 1i64 << 24,
                1 => (1i64 << 24) + 1,
                2 => (1i64 << 24) + 3,
                3 => (1i64 << 31) + 1,
                4 => 10i64.pow(rng.below(19) as u32),
                _ => 10i64.pow(rng.below(19) as u32) + 1,
            };
            if rng.chance(0.5) {
                v
            } else {
                -v
            }
        }
        3 => rng.range_i64(-3, 3),
        _ => gen_time(rng),
    }
}
/// largest f32 strictly below `limit`
fn max_below(limit: f64) -> f32 {
    let mut b = (limit as f32).to_bits();
    while f32::from_bits(b) as f64 >= limit {
        b -= 1;
    }
    f32::from_bits(b)
}
/// Finite f32 with |x| < limit (limit = 9e9 for seconds, 9e18 for dimensionless), stratified by
/// exponent, built inside the range by construction (magnitude clamped to the largest f32 below it).
fn gen_f32_below(rng: &mut Rng, limit: f64, scale: f64) -> f32 {
    let top = max_below(limit);
    let max_e = (limit.log2().floor()) as i64;
    let mag: f32 = match rng.below(10) {
        0 => 0.0,
        1 => rng.range_i64(0, 20) as f32,
        2 => (2.0f64).powi(rng.range_i64(-40, max_e) as i32) as f32,
        // values whose scaled image is (nearly) an integer: k / scale
        3 => (gen_i64(rng, 62).unsigned_abs() as f64 / scale) as f32,
        4 => f32::from_bits(rng.below(0x0100_0000) as u32), // subnormal and tiniest normals
        5 => f32::from_bits(top.to_bits() - rng.below(1000) as u32), // just below the limit
        _ => {
            let e = rng.range_i64(-45, max_e);
            let mant = rng.below(1 << 23) as u32;
            f32::from_bits((((e + 127) as u32) << 23) | mant)
        }
    };
    let mag = if (mag as f64) >= limit { top } else { mag };
    if rng.chance(0.5) {
        mag
    } else {
        -mag
    }
}
/// spacing of f32 at the magnitude of `x` (x given in f64)
fn ulp32_of(x: f64) -> f64 {
    let ax = x.abs();
    if ax < f32::MIN_POSITIVE as f64 {
        return (2.0f64).powi(-149);
    }
    let e = ((ax.to_bits() >> 52) & 0x7ff) as i32 - 1023;
    (2.0f64).powi(e - 23)
}
/// |r - exact| where `exact` is an f64 that is known exactly (an integer when >= 2^53)
fn diff_i64_f64(r: i64, exact: f64) -> f64 {
    if exact.abs() >= 9007199254740992.0 {
        if exact.abs() >= 1.0e38 {
            return f64::INFINITY;
        }
        (r as i128 - exact as i128).unsigned_abs() as f64
    } else if r.unsigned_abs() < (1u64 << 53) {
        (r as f64 - exact).abs()
    } else {
        // r huge, exact small: difference is dominated by r; f64 rounding of r is irrelevant
        (r as f64 - exact).abs()
    }
}
fn fits(x: i128) -> i64 {
    i64::try_from(x).expect("C18 monitor bug: generator produced an i64 overflow")
}

// ------------------------------------------------------------------------------------------- int
fn expect_int(rep: &mut Report, op: &str, sub: &'static str, case: u64, a: i64, b: i64, got: i64, exp: i64) {
    rep.eval();
    if got != exp {
        rep.violation(&format!("C18/int/{}", op), sub, case, format!("{} with a={} b={}: got {}, i64 arithmetic gives {}", op, a, b, got, exp));
    }
}
fn int_group<const N: usize>(rep: &mut Report, group: &str, names: [&str; N], sub: &'static str, case: u64, a: i64, b: i64, exp: i64, got: Result<[i64; N], String>) {
    // magnitude strata of 4 bits each for operand pairs
    rep.distinct(("int", group.to_string(), (bitlen(a) + 3) / 4, sgn(a), (bitlen(b) + 3) / 4, sgn(b)));
    match got {
        Ok(v) => {
            for i in 0..N {
                expect_int(rep, names[i], sub, case, a, b, v[i], exp);
            }
        }
        Err(msg) => {
            rep.eval();
            rep.violation(&format!("C18/int/unexpected-panic/{}", group), sub, case, format!("group {} ({:?}) with a={} b={} panicked ({}) although the i64 result {} exists", group, names, a, b, msg, exp));
        }
    }
}
fn int_case(rep: &mut Report, rng: &mut Rng, sub: &'static str, case: u64) {
    // ---- add: a + b representable by construction (b clamped into [MIN-a, MAX-a] ∩ [-2^62, 2^62])
    {
        let a = gen_i64(rng, 62);
        let b0 = gen_i64(rng, 62);
        let lo = (i64::MIN as i128 - a as i128).max(-(P62 as i128));
        let hi = (i64::MAX as i128 - a as i128).min(P62 as i128);
        let b = fits((b0 as i128).clamp(lo, hi));
        let exp = fits(a as i128 + b as i128);
        let got = catch(|| {
            let mut ta = Time(a);
            ta += Time(b);
            let mut da = DimensionlessInteger(a);
            da += DimensionlessInteger(b);
            [(Time(a) + Time(b)).0, ta.0, (DimensionlessInteger(a) + DimensionlessInteger(b)).0, da.0]
        });
        int_group(rep, "add", ["Time+Time", "Time+=Time", "DI+DI", "DI+=DI"], sub, case, a, b, exp, got);
        if rep.want_sample("int") {
            rep.sample("int", format!("a={} b={}: Time/DI + and += == {}", a, b, exp));
        }
    }
    // ---- sub
    {
        let a = gen_i64(rng, 62);
        let b0 = gen_i64(rng, 62);
        // a - b in range  <=>  b in [a - MAX, a - MIN]
        let lo = (a as i128 - i64::MAX as i128).max(-(P62 as i128));
        let hi = (a as i128 - i64::MIN as i128).min(P62 as i128);
        let b = fits((b0 as i128).clamp(lo, hi));
        let exp = fits(a as i128 - b as i128);
        let got = catch(|| {
            let mut ta = Time(a);
            ta -= Time(b);
            let mut da = DimensionlessInteger(a);
            da -= DimensionlessInteger(b);
            [(Time(a) - Time(b)).0, ta.0, (DimensionlessInteger(a) - DimensionlessInteger(b)).0, da.0]
        });
        int_group(rep, "sub", ["Time-Time", "Time-=Time", "DI-DI", "DI-=DI"], sub, case, a, b, exp, got);
        if a != 0 && b != 0 && exp != a as i64 {
            rep.tally("int_sub_nontrivial");
        }
    }
    // ---- mul: |a| < 2^ka, |b| <= 2^(62-ka)  =>  |a*b| <= 2^62
    {
        let x = gen_i64(rng, 62);
        let ka = bitlen(x).min(62);
        let y = gen_i64(rng, 62 - ka);
        let (a, b) = if rng.chance(0.5) { (x, y) } else { (y, x) };
        let exp = fits(a as i128 * b as i128);
        let got = catch(|| {
            let mut ta = Time(a);
            ta *= DimensionlessInteger(b);
            let mut da = DimensionlessInteger(a);
            da *= DimensionlessInteger(b);
            [
                (Time(a) * DimensionlessInteger(b)).0,
                ta.0,
                (DimensionlessInteger(a) * Time(b)).0,
                (DimensionlessInteger(a) * DimensionlessInteger(b)).0,
                da.0,
            ]
        });
        int_group(rep, "mul", ["Time*DI", "Time*=DI", "DI*Time", "DI*DI", "DI*=DI"], sub, case, a, b, exp, got);
        if a.unsigned_abs() > 1 && b.unsigned_abs() > 1 {
            rep.tally("int_mul_nontrivial");
        }
    }
    // ---- div: b != 0 by construction, |a| <= 2^62 so MIN / -1 cannot occur
    {
        let a = gen_i64(rng, 62);
        let kb = if rng.chance(0.7) { rng.below(bitlen(a) as u64 + 1) as u32 } else { 62 };
        let mut b = gen_i64(rng, kb);
        if b == 0 {
            b = if rng.chance(0.5) { 1 } else { -1 };
        }
        let exp = fits(a as i128 / b as i128); // truncating, like i64 `/`
        let got = catch(|| {
            let mut ta = Time(a);
            ta /= DimensionlessInteger(b);
            let mut da = DimensionlessInteger(a);
            da /= DimensionlessInteger(b);
            [(Time(a) / DimensionlessInteger(b)).0, ta.0, (DimensionlessInteger(a) / DimensionlessInteger(b)).0, da.0]
        });
        int_group(rep, "div", ["Time/DI", "Time/=DI", "DI/DI", "DI/=DI"], sub, case, a, b, exp, got);
        if a % b != 0 {
            rep.tally("int_div_inexact");
            if (a < 0) != (b < 0) {
                rep.tally("int_div_inexact_negative_quotient");
            }
        }
        if rep.want_sample("int-div") {
            rep.sample("int-div", format!("a={} b={}: Time/DI, /=, DI/DI, /= == {}", a, b, exp));
        }
    }
    // ---- neg and identities
    {
        let a = gen_i64(rng, 62);
        let exp = fits(-(a as i128));
        let got = catch(|| [(-Time(a)).0, (-DimensionlessInteger(a)).0]);
        int_group(rep, "neg", ["-Time", "-DI"], sub, case, a, 0, exp, got);
        let got = catch(|| {
            let t: Time = a.into();
            let d: DI = a.into();
            let it: i64 = Time(a).into();
            let id: i64 = DimensionlessInteger(a).into();
            [Time::from(a).0, t.0, Time::new(a).0, i64::from(Time(a)), it, DI::from(a).0, d.0, DI::new(a).0, i64::from(DimensionlessInteger(a)), id]
        });
        int_group(
            rep,
            "identity",
            ["Time::from(i64)", "i64.into()->Time", "Time::new", "i64::from(Time)", "Time.into()->i64", "DI::from(i64)", "i64.into()->DI", "DI::new", "i64::from(DI)", "DI.into()->i64"],
            sub,
            case,
            a,
            0,
            a,
            got,
        );
    }
}

// ------------------------------------------------------------------------------------------- t2q
/// value of Quantity::from(Time(t)) (None + violation when it panics)
fn t2q(rep: &mut Report, sub: &'static str, case: u64, t: i64) -> Option<Quantity> {
    match catch(|| Quantity::from(Time(t))) {
        Ok(q) => Some(q),
        Err(msg) => {
            rep.violation("C18/t2q/unexpected-panic", sub, case, format!("Quantity::from(Time({})) panicked: {}", t, msg));
            None
        }
    }
}
fn t2q_case(rep: &mut Report, sub: &'static str, case: u64, t: i64) {
    rep.distinct(("t2q", bitlen(t), sgn(t)));
    rep.eval();
    let q = match t2q(rep, sub, case, t) {
        Some(q) => q,
        None => return,
    };
    if !ueq(q.unit, SECOND) {
        rep.violation("C18/t2q/unit", sub, case, format!("Quantity::from(Time({})) has unit {:?}, expected SECOND", t, q.unit));
    }
    if is_edge(t) {
        rep.tally("t2q_i64_edge_converted");
        if t == i64::MAX || t == i64::MIN {
            rep.tally("t2q_i64_extreme_converted");
        }
    }
    // every i64 is below 9.3e9 s in magnitude: the seconds must be finite (implied by the 2-ulp clause)
    if !q.value.is_finite() {
        rep.violation("C18/t2q/non-finite", sub, case, format!("Quantity::from(Time({})).value = {} but ns/1e9 = {:e} is finite", t, f(q.value), t as f64 / 1e9));
    }
    rep.eval();
    // reference: exact quotient to ~2^-52 relative (2^-29 of an f32 ulp)
    let r64 = t as f64 / 1e9;
    let r32 = r64 as f32;
    let d = ulp_dist(q.value, r32);
    let err_ulps = (q.value as f64 - r64).abs() / ulp32_of(r64);
    // "correctly rounded to within two f32 ulps": accept both readings (distance to the correctly
    // rounded value <= 2 ulps, or real error <= 2 ulps)
    if d > 2 && !(err_ulps <= 2.0) {
        rep.violation("C18/t2q/value", sub, case, format!("Quantity::from(Time({})).value = {} but ns/1e9 = {:e} (f32 {}): {} ulps apart, real error {:.3} ulps", t, f(q.value), r64, f(r32), d, err_ulps));
    }
    rep.max("t2q_ulp_dist_to_correctly_rounded", d as f64);
    rep.max("t2q_real_error_in_ulps", err_ulps);
    if t.unsigned_abs() > (1 << 24) && (t as f32) as f64 != t as f64 {
        rep.tally("t2q_ns_not_representable_in_f32");
    }
    if d > 0 {
        rep.tally("t2q_not_correctly_rounded");
    }
    if rep.want_sample(sub) {
        rep.sample(sub, format!("Time({}) -> {} s (exact {:e}), {} ulps from correctly rounded", t, f(q.value), r64, d));
    }
}

// ------------------------------------------------------------------------------------------ mono
fn mono_case(rep: &mut Report, rng: &mut Rng, sub: &'static str, case: u64) {
    let kind = rng.below(7);
    let kind_name = ["adjacent", "small-step", "ulp-step", "sorted-random", "equal-and-adjacent", "round-time-neighbours", "i64-edge"][kind as usize];
    let mut ts: Vec<i64> = Vec::with_capacity(9);
    if kind == 3 {
        for _ in 0..9 {
            ts.push(gen_time(rng));
        }
        ts.sort();
    } else if kind == 6 {
        // chain ending at i64::MAX (or starting at i64::MIN), built from the extreme inwards so that
        // nothing overflows; steps 1, tiny, or of the order of the f32 spacing there (2^39)
        let top = rng.chance(0.5);
        let sk = rng.below(3);
        let mut v = if top { i64::MAX } else { i64::MIN };
        if rng.chance(0.3) {
            let o = rng.range_i64(0, 1 << 42);
            v = if top { v - o } else { v + o };
        }
        for _ in 0..9 {
            ts.push(v);
            let step = match sk {
                0 => 1,
                1 => rng.range_i64(0, 3),
                _ => rng.range_i64(0, 1 << 40),
            };
            v = if top { v - step } else { v + step };
        }
        if top {
            ts.reverse();
        }
        rep.tally("mono_i64_edge_chains");
    } else if kind == 5 {
        // c-4 ..= c+4 around a whole second / millisecond / microsecond / multiple of 2^32 / power of two
        let c = gen_round_time(rng);
        for dlt in -4..=4 {
            ts.push(c + dlt);
        }
    } else {
        let t0 = gen_time(rng).min(P62 - (1 << 45)); // room for 8 steps below 2^62
        ts.push(t0);
        let sp = 1i64 << bitlen(t0).saturating_sub(24).min(40); // ~ spacing of f32 at |t0|
        for i in 0..8 {
            let last = *ts.last().unwrap();
            let step = match kind {
                0 => 1,
                1 => rng.range_i64(0, 300),
                2 => rng.range_i64(0, 2 * sp),
                _ => (i % 2) as i64,
            };
            ts.push((last + step).min(P62));
        }
    }
    rep.distinct(("mono", kind, bitlen(ts[0]), sgn(ts[0])));
    let mut vals = Vec::with_capacity(9);
    for &t in &ts {
        match t2q(rep, sub, case, t) {
            Some(q) => vals.push(q.value),
            None => {
                rep.eval();
                return;
            }
        }
    }
    for i in 0..8 {
        rep.eval();
        // ts[i] <= ts[i+1] by construction
        if !(vals[i] <= vals[i + 1]) {
            rep.violation("C18/t2q/monotone", sub, case, format!("{}: Time({}) <= Time({}) but seconds {} > {}", kind_name, ts[i], ts[i + 1], f(vals[i]), f(vals[i + 1])));
        }
        if ts[i] < ts[i + 1] {
            if vals[i] < vals[i + 1] {
                rep.tally("mono_value_strictly_increased");
            } else {
                rep.tally("mono_distinct_times_same_value");
            }
        }
    }
    if rep.want_sample(sub) {
        rep.sample(sub, format!("{}: times {:?} -> seconds {:?}", kind_name, ts, vals));
    }
}

// ------------------------------------------------------------------------------------------- q2t
fn q2t(rep: &mut Report, sub: &'static str, case: u64, q: Quantity, what: &str) -> Option<i64> {
    match catch(|| Time::try_from(q)) {
        Ok(Ok(t)) => Some(t.0),
        Ok(Err(())) => {
            rep.violation("C18/q2t/err-on-seconds", sub, case, format!("Time::try_from({}) = Err although the unit is SECOND", what));
            None
        }
        Err(msg) => {
            rep.violation("C18/q2t/unexpected-panic", sub, case, format!("Time::try_from({}) panicked: {}", what, msg));
            None
        }
    }
}
fn q2t_case(rep: &mut Report, rng: &mut Rng, sub: &'static str, case: u64) {
    let x = gen_f32_below(rng, 9e9, 1e9);
    let cls = if x == 0.0 { -200 } else { ((x.abs() as f64).log2().floor() as i32).max(-150) };
    rep.distinct(("q2t", cls, x.is_sign_negative()));
    rep.eval();
    let what = format!("Quantity::new({}, SECOND)", f(x));
    let ns = match q2t(rep, sub, case, Quantity::new(x, SECOND), &what) {
        Some(n) => n,
        None => return,
    };
    // x*1e9 is exact in f64: 24-bit significand times 1953125*2^9 (21-bit significand)
    let exact = x as f64 * 1e9;
    let err = diff_i64_f64(ns, exact);
    let bound = exact.abs() * (2.0f64).powi(-23) + 1.0;
    if !(err <= bound) {
        rep.violation("C18/q2t/value", sub, case, format!("Time::try_from({}) = {} ns but x*1e9 = {:e}: error {:e} > |x*1e9|*2^-23 + 1 = {:e}", what, ns, exact, err, bound));
    }
    rep.max("q2t_err_over_bound", err / bound);
    if exact.abs() >= (1u64 << 30) as f64 {
        rep.tally("q2t_large_value");
        rep.max("q2t_large_relerr_over_2^-23", err / (exact.abs() * (2.0f64).powi(-23)));
    } else if exact.fract() != 0.0 {
        rep.tally("q2t_fractional_ns");
    }
    if rep.want_sample(sub) {
        rep.sample(sub, format!("{} -> Time({}), exact {:e}, err/bound {:.3}", what, ns, exact, err / bound));
    }
}
fn roundtrip_case(rep: &mut Report, rng: &mut Rng, sub: &'static str, case: u64) {
    let t = gen_time(rng);
    rep.distinct(("roundtrip", bitlen(t), sgn(t)));
    rep.eval();
    let q = match t2q(rep, sub, case, t) {
        Some(q) => q,
        None => return,
    };
    let what = format!("Quantity::from(Time({})) = {}", t, f(q.value));
    // The way back is quantified over "all finite f32 second values below 9e9" only: a Time beyond that (|t| > 9e18 ns,
    // the i64 edge stratum of the forward conversion) converts to seconds the statement does not cover - an implementation
    // may refuse them (a benign refactor that returns Err where the cast would saturate raised a false alarm here).
    if q.value.abs() >= 9.0e9 {
        rep.tally("roundtrip_beyond_9e9_seconds_not_judged");
        return;
    }
    let back = match q2t(rep, sub, case, q, &what) {
        Some(b) => b,
        None => return,
    };
    let err = (back as i128 - t as i128).unsigned_abs();
    let mag = (t as i128).unsigned_abs();
    // err <= |t|*2^-22 + 1, exactly, scaled by 2^22
    if (err << 22) > mag + (1u128 << 22) {
        rep.violation("C18/roundtrip", sub, case, format!("Time({}) -> {} s -> Time({}): error {} ns > |t|*2^-22 + 1 = {:.1}", t, f(q.value), back, err, mag as f64 / 4194304.0 + 1.0));
    }
    rep.max("roundtrip_err_over_bound", err as f64 / (mag as f64 / 4194304.0 + 1.0));
    if err > 1 {
        rep.tally("roundtrip_inexact");
    }
    if is_edge(t) {
        rep.tally("roundtrip_i64_edge");
    }
    if mag >= 1 << 30 {
        rep.max("roundtrip_large_relerr_over_2^-22", err as f64 / (mag as f64 / 4194304.0));
    }
    if rep.want_sample(sub) {
        rep.sample(sub, format!("Time({}) -> {} s -> Time({}), error {} ns", t, f(q.value), back, err));
    }
}

// --------------------------------------------------------------------------------------- di-conv
fn di_conv_case(rep: &mut Report, rng: &mut Rng, sub: &'static str, case: u64) {
    // DimensionlessInteger -> Quantity: the statement only says "faithful": accept either
    // neighbouring f32 (<= 1 ulp from the nearest), unit dimensionless.
    let n = gen_di(rng);
    rep.distinct(("di2q", bitlen(n), sgn(n)));
    rep.eval();
    match catch(|| Quantity::from(DimensionlessInteger(n))) {
        Ok(q) => {
            if !ueq(q.unit, DIMENSIONLESS) {
                rep.violation("C18/di2q/unit", sub, case, format!("Quantity::from(DimensionlessInteger({})) has unit {:?}", n, q.unit));
            }
            let d = ulp_dist(q.value, n as f32);
            if d > 1 {
                rep.violation("C18/di2q/value", sub, case, format!("Quantity::from(DimensionlessInteger({})).value = {}, nearest f32 is {}", n, f(q.value), f(n as f32)));
            }
            rep.max("di2q_ulp_dist", d as f64);
        }
        Err(msg) => rep.violation("C18/di2q/unexpected-panic", sub, case, format!("Quantity::from(DimensionlessInteger({})) panicked: {}", n, msg)),
    }
    // Quantity(dimensionless) -> DimensionlessInteger: within 1 (truncation or rounding), |x| < 9e18
    let x = gen_f32_below(rng, 9e18, 1.0);
    let cls = if x == 0.0 { -200 } else { ((x.abs() as f64).log2().floor() as i32).max(-150) };
    rep.distinct(("q2di", cls, x.is_sign_negative()));
    rep.eval();
    match catch(|| DI::try_from(Quantity::new(x, DIMENSIONLESS))) {
        Ok(Ok(d)) => {
            let err = diff_i64_f64(d.0, x as f64);
            if !(err <= 1.0) {
                rep.violation("C18/q2di/value", sub, case, format!("DimensionlessInteger::try_from(Quantity::new({}, DIMENSIONLESS)) = {}: off by {:e}", f(x), d.0, err));
            }
            rep.max("q2di_abs_err", err);
            if (x as f64).fract() != 0.0 {
                rep.tally("q2di_fractional");
            }
            if rep.want_sample(sub) {
                rep.sample(sub, format!("DI({}) -> Quantity ok; Quantity::new({}, 1) -> DI({})", n, f(x), d.0));
            }
        }
        Ok(Err(())) => rep.violation("C18/q2di/err-on-dimensionless", sub, case, format!("DimensionlessInteger::try_from(Quantity::new({}, DIMENSIONLESS)) = Err", f(x))),
        Err(msg) => rep.violation("C18/q2di/unexpected-panic", sub, case, format!("DimensionlessInteger::try_from(Quantity::new({}, DIMENSIONLESS)) panicked: {}", f(x), msg)),
    }
}

// ----------------------------------------------------------------------------------------- units
fn units_case(rep: &mut Report, rng: &mut Rng, sub: &'static str, case: u64, m: i8, s: i8) {
    let x = gen_f32_below(rng, 9e9, 1e9);
    let q = Quantity::new(x, Unit::new(m, s));
    rep.distinct(("units", m, s));
    rep.eval();
    let want_t = (m, s) == (0, 1);
    match catch(|| Time::try_from(q).is_ok()) {
        Ok(ok) => {
            if ok != want_t {
                let sig = if want_t { "C18/q2t/err-on-seconds" } else { "C18/q2t/other-unit-accepted" };
                rep.violation(sig, sub, case, format!("Time::try_from(Quantity::new({}, mm^{} s^{})).is_ok() = {}", f(x), m, s, ok));
            }
            if !ok {
                rep.tally("units_time_rejected");
            }
        }
        Err(msg) => rep.violation("C18/q2t/unexpected-panic", sub, case, format!("Time::try_from(Quantity::new({}, mm^{} s^{})) panicked: {}", f(x), m, s, msg)),
    }
    rep.eval();
    let want_d = (m, s) == (0, 0);
    match catch(|| DI::try_from(q).is_ok()) {
        Ok(ok) => {
            if ok != want_d {
                let sig = if want_d { "C18/q2di/err-on-dimensionless" } else { "C18/q2di/other-unit-accepted" };
                rep.violation(sig, sub, case, format!("DimensionlessInteger::try_from(Quantity::new({}, mm^{} s^{})).is_ok() = {}", f(x), m, s, ok));
            }
            if !ok {
                rep.tally("units_di_rejected");
            }
        }
        Err(msg) => rep.violation("C18/q2di/unexpected-panic", sub, case, format!("DimensionlessInteger::try_from(Quantity::new({}, mm^{} s^{})) panicked: {}", f(x), m, s, msg)),
    }
    if rep.want_sample(sub) {
        rep.sample(sub, format!("Quantity::new({}, mm^{} s^{}): Time::try_from ok={} DI::try_from ok={}", f(x), m, s, want_t, want_d));
    }
}

// ----------------------------------------------------------------------------------------- mixed
fn check_cell(rep: &mut Report, name: &str, sub: &'static str, case: u64, det: &str, real: Result<Quantity, String>, orac: Result<Quantity, String>) {
    rep.eval();
    match (real, orac) {
        (Ok(r), Ok(o)) => {
            rep.tally("mixed_ok_both");
            if !ueq(r.unit, o.unit) {
                rep.violation(&format!("C18/mixed/unit/{}", name), sub, case, format!("{} [{}]: unit {:?}, converted Quantity operator gives {:?}", name, det, r.unit, o.unit));
            }
            if !same(r.value, o.value) {
                rep.violation(&format!("C18/mixed/value/{}", name), sub, case, format!("{} [{}]: value {}, converted Quantity operator gives {}", name, det, f(r.value), f(o.value)));
            }
        }
        (Err(_), Err(_)) => rep.tally("mixed_panic_both"),
        (Ok(r), Err(msg)) => rep.violation(&format!("C18/mixed/missing-panic/{}", name), sub, case, format!("{} [{}]: returned {:?} but the converted Quantity operator panics ({})", name, det, r, msg)),
        (Err(msg), Ok(o)) => rep.violation(&format!("C18/mixed/unexpected-panic/{}", name), sub, case, format!("{} [{}]: panicked ({}) but the converted Quantity operator returns {:?}", name, det, msg, o)),
    }
}
fn gen_val(rng: &mut Rng) -> f32 {
    match rng.below(24) {
        0 => f32::INFINITY,
        1 => f32::NEG_INFINITY,
        2 => f32::NAN,
        _ => rng.any_finite(),
    }
}
const MIXED_CELLS: u64 = 27;
/// Quantity operand values related to the Time / integer operand: equal or opposite to the converted
/// operand (as the crate converts it, and as the exactly rounded seconds / integer), zero, one, and
/// values far below / around one ulp of it. Cancellation makes a 1-ulp difference in the converted
/// operand visible in the result.
fn related_vals(n: i64, nd: i64) -> Vec<f32> {
    let tv = catch(|| Quantity::from(Time(n)).value).unwrap_or(0.0);
    let dv = catch(|| Quantity::from(DimensionlessInteger(nd)).value).unwrap_or(0.0);
    let te = (n as f64 / 1e9) as f32;
    let de = nd as f64 as f32;
    let mut v = vec![0.0, 1.0, -1.0];
    for x in [tv, te, dv, de] {
        v.push(x);
        v.push(-x);
        v.push(x * 5.9604645e-8); // 2^-24 * x: about half an ulp of x
        v.push(-x * 1.1920929e-7);
    }
    v
}
fn gen_mixed_operands(rng: &mut Rng) -> (f32, i64, i64, i64) {
    let n = if rng.chance(0.1) { rng.range_i64(-3, 3) } else { gen_time(rng) };
    let nd = if rng.chance(0.5) { gen_di(rng) } else { n };
    let n2 = if rng.chance(0.1) { rng.range_i64(-3, 3) } else { gen_time(rng) };
    let a = if rng.chance(0.4) {
        let pool = related_vals(n, nd);
        *rng.pick(&pool)
    } else {
        gen_val(rng)
    };
    (a, n, nd, n2)
}
fn mixed_case(rep: &mut Report, rng: &mut Rng, sub: &'static str, case: u64, m: i8, s: i8) {
    let (a, n, nd, n2) = gen_mixed_operands(rng);
    mixed_cells(rep, sub, case, m, s, a, n, nd, n2);
}
fn mixed_cells(rep: &mut Report, sub: &'static str, case: u64, m: i8, s: i8, a: f32, n: i64, nd: i64, n2: i64) {
    let qa = Quantity::new(a, Unit::new(m, s));
    let t = Time(n);
    let d = DimensionlessInteger(nd);
    let t2 = Time(n2);
    let det = format!("Quantity::new({}, mm^{} s^{}), Time({}), DimensionlessInteger({}), second Time({})", f(a), m, s, n, nd, n2);
    let vcls = if a.is_nan() { 3 } else if a.is_infinite() { 2 } else if a == 0.0 { 1 } else { 0 };
    rep.distinct(("mixed", m, s, bitlen(n), sgn(n), n % NS == 0, vcls));
    if is_edge(n) || is_edge(n2) {
        rep.tally("mixed_i64_edge_time");
    }
    if n != 0 && n % NS == 0 {
        rep.tally("mixed_whole_second_time");
        if (m, s) == (0, 1) {
            rep.tally("mixed_whole_second_time_on_second");
        }
    }
    if (nd as f32) as f64 != nd as f64 && (m, s) == (0, 0) {
        rep.tally("mixed_f32_inexact_integer_on_dimensionless");
    }
    macro_rules! cell {
        ($name:expr, $real:expr, $orac:expr) => {
            check_cell(rep, $name, sub, case, &det, catch(|| -> Quantity { $real }), catch(|| -> Quantity { $orac }))
        };
    }
    // ---- multiplication / division table
    cell!("Quantity*Time", qa * t, qa * Quantity::from(t));
    cell!("Quantity/Time", qa / t, qa / Quantity::from(t));
    cell!("Quantity*=Time", { let mut x = qa; x *= t; x }, { let mut x = qa; x *= Quantity::from(t); x });
    cell!("Quantity/=Time", { let mut x = qa; x /= t; x }, { let mut x = qa; x /= Quantity::from(t); x });
    cell!("Quantity*DI", qa * d, qa * Quantity::from(d));
    cell!("Quantity/DI", qa / d, qa / Quantity::from(d));
    cell!("Quantity*=DI", { let mut x = qa; x *= d; x }, { let mut x = qa; x *= Quantity::from(d); x });
    cell!("Quantity/=DI", { let mut x = qa; x /= d; x }, { let mut x = qa; x /= Quantity::from(d); x });
    cell!("Time*Quantity", t * qa, Quantity::from(t) * qa);
    cell!("Time/Quantity", t / qa, Quantity::from(t) / qa);
    cell!("DI*Quantity", d * qa, Quantity::from(d) * qa);
    cell!("DI/Quantity", d / qa, Quantity::from(d) / qa);
    cell!("Time*Time", t * t2, Quantity::from(t) * Quantity::from(t2));
    cell!("Time/Time", t / t2, Quantity::from(t) / Quantity::from(t2));
    cell!("DI/Time", d / t2, Quantity::from(d) / Quantity::from(t2));
    // ---- addition / subtraction table (P cells: panic outcome must agree too)
    cell!("Quantity+Time", qa + t, qa + Quantity::from(t));
    cell!("Quantity-Time", qa - t, qa - Quantity::from(t));
    cell!("Quantity+=Time", { let mut x = qa; x += t; x }, { let mut x = qa; x += Quantity::from(t); x });
    cell!("Quantity-=Time", { let mut x = qa; x -= t; x }, { let mut x = qa; x -= Quantity::from(t); x });
    cell!("Quantity+DI", qa + d, qa + Quantity::from(d));
    cell!("Quantity-DI", qa - d, qa - Quantity::from(d));
    cell!("Quantity+=DI", { let mut x = qa; x += d; x }, { let mut x = qa; x += Quantity::from(d); x });
    cell!("Quantity-=DI", { let mut x = qa; x -= d; x }, { let mut x = qa; x -= Quantity::from(d); x });
    cell!("Time+Quantity", t + qa, Quantity::from(t) + qa);
    cell!("Time-Quantity", t - qa, Quantity::from(t) - qa);
    cell!("DI+Quantity", d + qa, Quantity::from(d) + qa);
    cell!("DI-Quantity", d - qa, Quantity::from(d) - qa);
    rep.tally_n("mixed_cells", MIXED_CELLS);
    if (m, s) == (0, 1) {
        rep.tally("mixed_cases_on_second");
    }
    if (m, s) == (0, 0) {
        rep.tally("mixed_cases_on_dimensionless");
    }
    if rep.want_sample(sub) {
        rep.sample(sub, format!("{}: 27 Quantity-valued cells vs converted Quantity operators", det));
    }
}

fn main() {
    let args = Args::parse();
    let mut rep = Report::new("C18", &args);
    if core::mem::size_of::<Unit>() == 0 {
        // dimension checking compiled out: unit comparisons would be meaningless
        rep.floor("dimension_checking_enabled", 1);
        rep.finish(&args);
    }
    rep.tally("dimension_checking_enabled");
    rep.floor("dimension_checking_enabled", 1);

    // ---- 1. integer operators
    for case in args.cases("int", 100_000, 10_000_000) {
        let mut rng = Rng::new(args.seed, 1801, case);
        int_case(&mut rep, &mut rng, "int", case);
    }
    // ---- 2a. Time -> Quantity value and unit
    for case in args.cases("t2q", 150_000, 15_000_000) {
        let mut rng = Rng::new(args.seed, 1802, case);
        let t = gen_time(&mut rng);
        t2q_case(&mut rep, "t2q", case, t);
    }
    // every |t| <= 2^16 and every 2^k, 2^k +- 1 (finite enumerations)
    {
        let mut idx = 0u64;
        for t in -(1i64 << 16)..=(1i64 << 16) {
            if args.mine("t2q-small", idx) {
                t2q_case(&mut rep, "t2q-small", idx, t);
            }
            idx += 1;
        }
        rep.exhaustive("Time -> Quantity for every |ns| <= 2^16");
        let mut idx = 0u64;
        for k in 0..=62u32 {
            for dlt in [-1i64, 0, 1] {
                for sg in [1i64, -1] {
                    let t = (sg * ((1i64 << k) + dlt)).clamp(-P62, P62);
                    if args.mine("t2q-pow2", idx) {
                        t2q_case(&mut rep, "t2q-pow2", idx, t);
                    }
                    idx += 1;
                }
            }
        }
        rep.exhaustive("Time -> Quantity for +-(2^k + {-1,0,1}), k = 0..62");
    }
    // the i64 extremes: MAX-k, MIN+k for k <= 256 and +-2^63 -+ 2^j (conversion is a cast: in-domain for
    // every i64), plus monotonicity of each adjacent pair
    {
        let mut edge: Vec<i64> = Vec::new();
        for k in 0..=256i64 {
            edge.push(i64::MAX - k);
            edge.push(i64::MIN + k);
        }
        for j in 0..=62u32 {
            edge.push(i64::MAX - ((1i64 << j) - 1));
            edge.push(i64::MIN + (1i64 << j));
        }
        edge.sort();
        edge.dedup();
        for (i, &t) in edge.iter().enumerate() {
            let idx = i as u64;
            if args.mine("t2q-edge", idx) {
                t2q_case(&mut rep, "t2q-edge", idx, t);
                if i + 1 < edge.len() {
                    rep.eval();
                    if let (Some(a), Some(b)) = (t2q(&mut rep, "t2q-edge", idx, t), t2q(&mut rep, "t2q-edge", idx, edge[i + 1])) {
                        if !(a.value <= b.value) {
                            rep.violation("C18/t2q/monotone", "t2q-edge", idx, format!("i64 edge: Time({}) <= Time({}) but seconds {} > {}", t, edge[i + 1], f(a.value), f(b.value)));
                        }
                    }
                }
            }
        }
        rep.exhaustive("Time -> Quantity for i64::MAX-k, i64::MIN+k (k <= 256) and +-2^63 -+ 2^j (j = 0..62), value and adjacent-pair monotonicity");
    }
    // every whole second up to K (both signs): conversion accuracy, and neighbour probes t-1, t, t+1
    {
        let kmax = args.pick(10_000, 200_000) as i64;
        let mut idx = 0u64;
        for k in 1..=kmax {
            for sg in [1i64, -1] {
                if args.mine("seconds", idx) {
                    let t = sg * k * NS;
                    t2q_case(&mut rep, "seconds", idx, t);
                    let vs: Vec<Option<f32>> = [t - 1, t, t + 1].iter().map(|&x| t2q(&mut rep, "seconds", idx, x).map(|q| q.value)).collect();
                    for i in 0..2 {
                        rep.eval();
                        if let (Some(lo), Some(hi)) = (vs[i], vs[i + 1]) {
                            if !(lo <= hi) {
                                rep.violation("C18/t2q/monotone", "seconds", idx, format!("whole-second neighbours: Time({}) <= Time({}) but seconds {} > {}", t - 1 + i as i64, t + i as i64, f(lo), f(hi)));
                            }
                        }
                    }
                    rep.tally("seconds_neighbour_probes");
                }
                idx += 1;
            }
        }
        rep.exhaustive("Time -> Quantity value and t-1,t,t+1 monotonicity around every whole second |k| <= 10^4 (quick) / 2*10^5 (thorough)");
    }
    // ---- 2b. monotonicity
    for case in args.cases("mono", 60_000, 6_000_000) {
        let mut rng = Rng::new(args.seed, 1803, case);
        mono_case(&mut rep, &mut rng, "mono", case);
    }
    // ---- 3. Quantity(seconds) -> Time, round trip, other units, dimensionless integer conversions
    for case in args.cases("q2t", 150_000, 15_000_000) {
        let mut rng = Rng::new(args.seed, 1804, case);
        q2t_case(&mut rep, &mut rng, "q2t", case);
    }
    for case in args.cases("roundtrip", 100_000, 10_000_000) {
        let mut rng = Rng::new(args.seed, 1805, case);
        roundtrip_case(&mut rep, &mut rng, "roundtrip", case);
    }
    for case in args.cases("di-conv", 60_000, 6_000_000) {
        let mut rng = Rng::new(args.seed, 1806, case);
        di_conv_case(&mut rep, &mut rng, "di-conv", case);
    }
    {
        let reps = args.pick(20, 2_000);
        let mut idx = 0u64;
        for _ in 0..reps {
            for m in -3..=3i8 {
                for s in -3..=3i8 {
                    if args.mine("units", idx) {
                        let mut rng = Rng::new(args.seed, 1807, idx);
                        units_case(&mut rep, &mut rng, "units", idx, m, s);
                    }
                    idx += 1;
                }
            }
        }
        rep.exhaustive("Time::try_from / DimensionlessInteger::try_from on all 49 grid units");
    }
    // ---- 4. mixed operators x 49 units
    {
        let reps = args.pick(200, 20_000);
        let mut idx = 0u64;
        for _ in 0..reps {
            for m in -3..=3i8 {
                for s in -3..=3i8 {
                    if args.mine("mixed", idx) {
                        let mut rng = Rng::new(args.seed, 1808, idx);
                        mixed_case(&mut rep, &mut rng, "mixed", idx, m, s);
                    }
                    idx += 1;
                }
            }
        }
        rep.exhaustive("27 Quantity-valued mixed operator cells (three implementation tables) x 49 grid units");
    }
    // the two units on which the addition / subtraction cells do not panic, at full case rate
    for case in args.cases("mixed-live", 30_000, 3_000_000) {
        let mut rng = Rng::new(args.seed, 1809, case);
        let (m, s) = if case % 2 == 0 { (0, 1) } else { (0, 0) };
        mixed_case(&mut rep, &mut rng, "mixed-live", case, m, s);
    }
    // every whole second 1..=300 s (and its +-1 ns neighbours), both signs, used as Time and as integer,
    // against Quantity operands equal / opposite / negligible relative to it
    {
        let mut idx = 0u64;
        for k in 1..=300i64 {
            for sg in [1i64, -1] {
                for dlt in [0i64, 1, -1] {
                    let n = sg * k * NS + dlt;
                    let pool = related_vals(n, sg * k + dlt);
                    for (pi, &a) in pool.iter().enumerate() {
                        // Time cells live on SECOND, integer cells on DIMENSIONLESS: alternate
                        let (m, s) = if pi % 2 == 0 { (0, 1) } else { (0, 0) };
                        for (m, s) in [(m, s), (0, 1 - s)] {
                            if args.mine("mixed-seconds", idx) {
                                mixed_cells(&mut rep, "mixed-seconds", idx, m, s, a, n, sg * k + dlt, sg * NS);
                            }
                            idx += 1;
                        }
                    }
                }
            }
        }
        rep.exhaustive("27 mixed cells for Time = +-k*1e9 + {0,1,-1} ns, k = 1..=300, x related Quantity operands x {SECOND, DIMENSIONLESS}");
    }
    // coverage the checks depend on (merged tallies; all are met by quota for every seed)
    rep.floor("int_div_inexact_negative_quotient", 1_000);
    rep.floor("int_mul_nontrivial", 1_000);
    rep.floor("int_sub_nontrivial", 1_000);
    rep.floor("t2q_ns_not_representable_in_f32", 5_000);
    rep.floor("mono_value_strictly_increased", 5_000);
    rep.floor("mono_distinct_times_same_value", 5_000);
    rep.floor("q2t_large_value", 5_000);
    rep.floor("q2t_fractional_ns", 1_000);
    rep.floor("roundtrip_inexact", 5_000);
    rep.floor("q2di_fractional", 1_000);
    rep.floor("units_time_rejected", 48 * 20);
    rep.floor("units_di_rejected", 48 * 20);
    rep.floor("mixed_panic_both", 5_000);
    rep.floor("mixed_ok_both", 20_000);
    rep.floor("mixed_cases_on_second", 200);
    rep.floor("mixed_whole_second_time_on_second", 5_000);
    rep.floor("mixed_f32_inexact_integer_on_dimensionless", 5_000);
    rep.floor("seconds_neighbour_probes", 20_000);
    rep.floor("t2q_i64_edge_converted", 5_000);
    rep.floor("t2q_i64_extreme_converted", 100);
    rep.floor("mono_i64_edge_chains", 2_000);
    rep.floor("roundtrip_i64_edge", 2_000);
    rep.floor("mixed_i64_edge_time", 2_000);
    rep.floor("mixed_cases_on_dimensionless", 200);
    rep.finish(&args);
}
