//! C08 — device update projects the states read at its terminals onto the mechanical constraint.
//! Oracle: f64 closed forms from the property statement applied to the states *read through the API*
//! at the device's terminals just before update(); own slots read back with get_last_request.
use rrtk::devices::*;
use rrtk::*;
use rrtk_mon::*;
use std::cell::RefCell;
type T<'a> = RefCell<Terminal<'a, E>>;
#[derive(Clone, Copy, Debug)]
struct Rd {
    t: i64,
    s: [f64; 3],
}
/// expected new content of one own slot: value, magnitude of terms, timestamp
#[derive(Clone, Copy, Debug)]
struct Ex {
    t: i64,
    v: [f64; 3],
    m: [f64; 3],
}
fn read_state(t: &T) -> Option<Rd> {
    match <Terminal<E> as Getter<State, E>>::get(&t.borrow()) {
        Ok(Some(d)) => Some(Rd { t: d.time.0, s: [d.value.position as f64, d.value.velocity as f64, d.value.acceleration as f64] }),
        _ => None,
    }
}
fn own_state(t: &T) -> Option<Datum<State>> {
    Settable::<Datum<State>, E>::get_last_request(&*t.borrow())
}
fn set_state(t: &T, time: i64, s: State) {
    let _ = Settable::<Datum<State>, E>::set(&mut *t.borrow_mut(), Datum::new(Time(time), s));
}
/// what a terminal whose own slot holds `own` reads when its partner's own slot holds `partner` (None = not connected):
/// asked of a scratch pair of the crate's own terminals (the read semantics themselves are C09's business)
fn read_as_if(own: Option<Datum<State>>, partner: Option<Option<Datum<State>>>) -> Option<Rd> {
    let a: T = Terminal::new();
    let b: T = Terminal::new();
    if let Some(d) = own { let _ = Settable::<Datum<State>, E>::set(&mut *a.borrow_mut(), d); }
    if let Some(p) = partner {
        if let Some(d) = p { let _ = Settable::<Datum<State>, E>::set(&mut *b.borrow_mut(), d); }
        connect(&a, &b);
    }
    read_state(&a)
}
fn set_cmd(t: &T, time: i64, c: Command) {
    let _ = Settable::<Datum<Command>, E>::set(&mut *t.borrow_mut(), Datum::new(Time(time), c));
}
fn lin(terms: &[(f64, &Rd)], div: f64) -> Ex {
    let mut v = [0.0; 3];
    let mut m = [0.0; 3];
    let mut t = i64::MIN;
    for (c, r) in terms {
        for k in 0..3 {
            v[k] += c * r.s[k];
            m[k] += (c * r.s[k]).abs();
        }
        t = t.max(r.t);
    }
    for k in 0..3 {
        v[k] /= div;
        m[k] /= div.abs();
    }
    Ex { t, v, m }
}
#[derive(Clone, Copy, Debug, PartialEq)]
enum Kind {
    Invert,
    Gear(f32),
    Axle(usize),
    Diff(u8), // 0 side1, 1 side2, 2 sum, 3 equal
}
/// the projection the statement prescribes; None = slot must stay untouched
fn expect(kind: Kind, r: &[Option<Rd>]) -> Vec<Option<Ex>> {
    match kind {
        Kind::Invert => match (&r[0], &r[1]) {
            (Some(x), Some(y)) => vec![Some(lin(&[(1.0, x), (-1.0, y)], 2.0)), Some(lin(&[(-1.0, x), (1.0, y)], 2.0))],
            (Some(x), None) => vec![None, Some(lin(&[(-1.0, x)], 1.0))],
            (None, Some(y)) => vec![Some(lin(&[(-1.0, y)], 1.0)), None],
            _ => vec![None, None],
        },
        Kind::Gear(ratio) => {
            let g = ratio as f64;
            match (&r[0], &r[1]) {
                (Some(x), Some(y)) => vec![Some(lin(&[(1.0, x), (g, y)], 1.0 + g * g)), Some(lin(&[(g, x), (g * g, y)], 1.0 + g * g))],
                (Some(x), None) => vec![None, Some(lin(&[(g, x)], 1.0))],
                (None, Some(y)) => vec![Some(lin(&[(1.0, y)], g)), None],
                _ => vec![None, None],
            }
        }
        Kind::Axle(n) => {
            let inf: Vec<(f64, &Rd)> = r.iter().filter_map(|x| x.as_ref()).map(|x| (1.0, x)).collect();
            if inf.is_empty() { vec![None; n] } else { let e = lin(&inf, inf.len() as f64); vec![Some(e); n] }
        }
        Kind::Diff(mode) => {
            let (x, y, z) = (&r[0], &r[1], &r[2]);
            match mode {
                0 => match (y, z) { (Some(y), Some(z)) => vec![Some(lin(&[(1.0, z), (-1.0, y)], 1.0)), None, None], _ => vec![None; 3] },
                1 => match (x, z) { (Some(x), Some(z)) => vec![None, Some(lin(&[(1.0, z), (-1.0, x)], 1.0)), None], _ => vec![None; 3] },
                2 => match (x, y) { (Some(x), Some(y)) => vec![None, None, Some(lin(&[(1.0, x), (1.0, y)], 1.0))], _ => vec![None; 3] },
                _ => match (x, y, z) {
                    (Some(x), Some(y), Some(z)) => vec![
                        Some(lin(&[(2.0, x), (-1.0, y), (1.0, z)], 3.0)),
                        Some(lin(&[(-1.0, x), (2.0, y), (1.0, z)], 3.0)),
                        Some(lin(&[(1.0, x), (1.0, y), (2.0, z)], 3.0)),
                    ],
                    _ => vec![None; 3],
                },
            }
        }
    }
}
/// For a terminal the update is not required to write (the informed side of a one-sided inverter / gear
/// train, the trusted branches of a differential that recomputes its distrusted branch): the statement's
/// projection leaves the value READ there as it is, so an implementation may either leave the own slot
/// alone (what the crate does) or store that read in it. Returns that permitted alternative content.
fn permitted_alternative(kind: Kind, r: &[Option<Rd>], exp: &[Option<Ex>], i: usize) -> Option<Ex> {
    let acted = exp.iter().any(|e| e.is_some());
    match kind {
        Kind::Invert | Kind::Gear(_) | Kind::Diff(0) | Kind::Diff(1) | Kind::Diff(2) if acted && exp[i].is_none() => r[i].as_ref().map(|x| lin(&[(1.0, x)], 1.0)),
        _ => None,
    }
}
const K: f64 = 48.0;
fn kind_name(k: Kind) -> String {
    match k { Kind::Invert => "Invert".into(), Kind::Gear(_) => "GearTrain".into(), Kind::Axle(n) => format!("Axle<{}>", n), Kind::Diff(m) => format!("Differential/{}", ["Side1", "Side2", "Sum", "Equal"][m as usize]) }
}
fn rand_state(rng: &mut Rng) -> State {
    State::new_raw(rng.moderate(1e4), rng.moderate(1e3), rng.moderate(1e2))
}
/// drive up to 8 rounds on one device; `terms` are the device's own terminals, `ext[i]` is connected to terms[i] when conn[i]
fn rounds<'a>(rep: &mut Report, sub: &'static str, case: u64, kind: Kind, terms: &[&'a T<'a>], ext: &'a [T<'a>], update: &mut dyn FnMut() -> NothingOrError<E>, rng: &mut Rng) {
    let n = terms.len();
    let name = kind_name(kind);
    let mut conn: Vec<bool> = (0..n).map(|_| rng.chance(0.6)).collect();
    // occasionally two terminals of the SAME device are connected to each other (a locked differential, an axle end
    // looped back): each then reads the mean of the two own slots
    let mut partner_own: Vec<Option<usize>> = vec![None; n];
    if n >= 2 && rng.chance(0.08) {
        let i = rng.usize(n);
        let j = (i + 1 + rng.usize(n - 1)) % n;
        conn[i] = false;
        conn[j] = false;
        partner_own[i] = Some(j);
        partner_own[j] = Some(i);
        rep.tally(&format!("own_terminals_connected_to_each_other/{}", name));
    }
    for i in 0..n { if conn[i] { connect(&ext[i], terms[i]); } }
    if let Some((i, Some(j))) = partner_own.iter().enumerate().find(|x| x.1.is_some()).map(|x| (x.0, *x.1)) { connect(terms[i], terms[j]); }
    // delivery by following: some own terminals receive their measurement from a getter they follow (it is pulled in by
    // the device's update, which updates its terminals first) instead of by set()
    let fsrc: Vec<Option<Src<Datum<State>>>> = (0..n).map(|i| if partner_own[i].is_none() && rng.chance(0.2) { Some(Src::<Datum<State>>::new()) } else { None }).collect();
    for i in 0..n { if let Some(src) = &fsrc[i] { Settable::<Datum<State>, E>::follow(&mut *terms[i].borrow_mut(), src.dynref()); } }
    let mut clock = rng.range_i64(-(1 << 40), 1 << 40);
    let consistent_round = rng.chance(0.15);
    // whole-case magnitude: ordinary, or tiny (an absolute epsilon in the code would only show there)
    let scale: f32 = if rng.chance(0.12) { *rng.pick(&[1e-6f32, 1e-8, 3e-5]) } else { 1.0 };
    let nrounds = 1 + rng.usize(8);
    let mut log = String::new();
    let mut prev_writes: Vec<(usize, usize, i64, State)> = Vec::new();
    for round in 0..nrounds {
        // ---- write new data into a random subset of own / external terminals
        let base = rand_state(rng) * scale;
        let replay = round > 0 && !prev_writes.is_empty() && rng.chance(0.12);
        let mut writes: Vec<(usize, usize, i64, State)> = Vec::new();
        if replay {
            // exactly the same sets as in the previous round (same values, same stamps)
            writes = prev_writes.clone();
            rep.tally("rounds_replaying_previous_writes");
        } else {
            for i in 0..n {
                for (which, p) in [(0usize, 0.35), (1, 0.35)] {
                    if which == 1 && !conn[i] { continue; }
                    if rng.chance(p) {
                        clock += rng.range_i64(1, 1_000_000_000);
                        let tgt: &T = if which == 0 { terms[i] } else { &ext[i] };
                        let mut s = if consistent_round { consistent_value(kind, i, base) } else { rand_state(rng) * scale };
                        if consistent_round && rng.chance(0.15) { s.acceleration = rng.moderate(1e2) * scale; } // consistent in position and velocity only
                        if rng.chance(0.1) { if let Some(d) = own_state(tgt) { s = d.value; rep.tally("rewrites_of_current_value_with_newer_stamp"); } }
                        writes.push((which, i, clock, s));
                    }
                }
            }
        }
        let mut pending: Vec<Option<Datum<State>>> = vec![None; n];
        for src in fsrc.iter().flatten() { src.none(); }
        for (which, i, t, s) in &writes {
            if *which == 0 {
                if let Some(src) = &fsrc[*i] {
                    // (a later write to the same terminal in this round replaces an earlier one, as a getter would)
                    src.some(*t, Datum::new(Time(*t), *s));
                    pending[*i] = Some(Datum::new(Time(*t), *s));
                    log.push_str(&format!("r{} followed-getter of own[{}] t={} {:?}; ", round, i, t, s));
                    continue;
                }
            }
            let tgt: &T = if *which == 0 { terms[*i] } else { &ext[*i] };
            set_state(tgt, *t, *s);
            log.push_str(&format!("r{} set {}[{}] t={} {:?}; ", round, if *which == 0 { "own" } else { "ext" }, i, t, s));
        }
        prev_writes = writes;
        for i in 0..n {
            if rng.chance(0.2) {
                clock += rng.range_i64(1, 1000);
                set_cmd(if conn[i] && rng.chance(0.5) { &ext[i] } else { terms[i] }, clock, Command::new(PositionDerivative::Velocity, rng.moderate(1e2)));
            }
        }
        // ---- read -> update -> read back
        // (a terminal with a pending followed measurement reads as if that measurement were already in its own slot: the
        // device pulls it in before it looks)
        let reads: Vec<Option<Rd>> = (0..n).map(|i| match pending[i] {
            Some(d) => { rep.tally(&format!("reads_with_followed_measurement/{}", name)); read_as_if(Some(d), if conn[i] { Some(own_state(&ext[i])) } else { None }) }
            None => read_state(terms[i]),
        }).collect();
        let before: Vec<Option<Datum<State>>> = (0..n).map(|i| pending[i].or_else(|| own_state(terms[i]))).collect();
        // the reads themselves (the property's last mechanism: terminal read = mean of own and connected terminal's state,
        // stamped with the newer of the two): checked here against the slots this monitor wrote, so that a wrong read
        // cannot hide behind "the projection of whatever was read"
        for i in 0..n {
            if pending[i].is_some() { continue; }
            if let Some(j) = partner_own[i] { if pending[j].is_some() { continue; } }
            let (o, e) = (own_state(terms[i]), if conn[i] { own_state(&ext[i]) } else if let Some(j) = partner_own[i] { own_state(terms[j]) } else { None });
            let want: Option<(i64, [f64; 3])> = match (o, e) {
                (None, None) => None,
                (Some(x), None) | (None, Some(x)) => Some((x.time.0, [x.value.position as f64, x.value.velocity as f64, x.value.acceleration as f64])),
                (Some(x), Some(y)) => Some((x.time.0.max(y.time.0), [(x.value.position as f64 + y.value.position as f64) / 2.0, (x.value.velocity as f64 + y.value.velocity as f64) / 2.0, (x.value.acceleration as f64 + y.value.acceleration as f64) / 2.0])),
            };
            rep.eval();
            rep.tally("terminal_reads_checked_against_written_slots");
            let ok = match (&reads[i], &want) {
                (None, None) => true,
                (Some(r), Some((t, v))) => r.t == *t && (0..3).all(|k| ulp_dist(r.s[k] as f32, v[k] as f32) <= 2),
                _ => false,
            };
            if !ok {
                rep.violation(&format!("C08/terminal-read/{}", name), sub, case, format!("round {} terminal {}: own slot {:?}, connected terminal's slot {:?}, read {:?}, expected (newest stamp, mean) {:?}; log={}", round, i, o, e, reads[i], want, log));
                return;
            }
        }
        let mask: u32 = reads.iter().enumerate().map(|(i, r)| (r.is_some() as u32) << i).sum();
        rep.tally(&format!("presence/{}/{:b}", name, mask));
        rep.distinct((name.clone(), mask, round.min(2), consistent_round));
        let res = catch(|| update());
        rep.eval();
        match res {
            Ok(Ok(())) => {}
            other => {
                rep.violation(&format!("C08/update-failed/{}", name), sub, case, format!("update() -> {:?}; kind={:?} log={}", other.map(|r| r.is_ok()), kind, log));
                return;
            }
        }
        let exp = expect(kind, &reads);
        for i in 0..n {
            let after = own_state(terms[i]);
            rep.eval();
            match (&exp[i], &after) {
                (None, a) => {
                    let same_slot = match (a, &before[i]) { (None, None) => true, (Some(x), Some(y)) => x.time == y.time && ssame(&x.value, &y.value), _ => false };
                    let alt_ok = match (permitted_alternative(kind, &reads, &exp, i), a) {
                        (Some(e), Some(x)) => x.time.0 == e.t && (0..3).all(|k| within([x.value.position, x.value.velocity, x.value.acceleration][k], e.v[k], K * U * e.m[k]).0),
                        _ => false,
                    };
                    if alt_ok { rep.tally(&format!("slots_holding_their_read/{}", name)); }
                    if !same_slot && !alt_ok {
                        rep.violation(&format!("C08/untouched-slot-changed/{}", name), sub, case, format!("round {} terminal {}: own slot {:?} -> {:?} but the statement leaves it alone (reads {:?}); kind={:?} log={}", round, i, before[i], a, reads, kind, log));
                        return;
                    }
                    rep.tally(&format!("slots_untouched/{}", name));
                }
                (Some(e), Some(a)) => {
                    rep.tally(&format!("slots_projected/{}", name));
                    if a.time.0 != e.t {
                        rep.violation(&format!("C08/timestamp/{}", name), sub, case, format!("round {} terminal {}: stamped {} expected {} (newest contributing read); reads {:?}; kind={:?} log={}", round, i, a.time.0, e.t, reads, kind, log));
                        return;
                    }
                    let got = [a.value.position, a.value.velocity, a.value.acceleration];
                    for k in 0..3 {
                        let (ok, ratio) = within(got[k], e.v[k], K * U * e.m[k]);
                        rep.max(&format!("err_over_bound/{}", name), ratio);
                        if !ok {
                            rep.violation(&format!("C08/projection/{}", name), sub, case, format!("round {} terminal {} component {}: own slot {} but projection of the reads gives {:e} (bound {:e}); reads {:?}; kind={:?} log={}", round, i, k, f(got[k]), e.v[k], K * U * e.m[k], reads, kind, log));
                            return;
                        }
                    }
                }
                (Some(e), None) => {
                    rep.violation(&format!("C08/slot-not-filled/{}", name), sub, case, format!("round {} terminal {}: own slot empty but expected {:?}; reads {:?}; kind={:?} log={}", round, i, e, reads, kind, log));
                    return;
                }
            }
        }
        // ---- constraint between own slots that were written together
        if n > 0 && exp.iter().all(|e| e.is_some()) {
            let s: Vec<[f64; 3]> = terms.iter().map(|t| { let d = own_state(t).unwrap().value; [d.position as f64, d.velocity as f64, d.acceleration as f64] }).collect();
            let m: Vec<[f64; 3]> = exp.iter().map(|e| e.unwrap().m).collect();
            for k in 0..3 {
                let (resid, mag) = match kind {
                    Kind::Invert => (s[0][k] + s[1][k], m[0][k] + m[1][k]),
                    Kind::Gear(g) => (s[1][k] - g as f64 * s[0][k], m[1][k] + (g as f64).abs() * m[0][k]),
                    Kind::Axle(_) => (s.iter().map(|x| (x[k] - s[0][k]).abs()).fold(0.0, f64::max), m[0][k]),
                    Kind::Diff(_) => (s[0][k] + s[1][k] - s[2][k], m[0][k] + m[1][k] + m[2][k]),
                };
                rep.eval();
                rep.tally(&format!("constraint_checks/{}", name));
                if resid.abs() > 2.0 * K * U * mag + 1e-37 {
                    rep.violation(&format!("C08/constraint/{}", name), sub, case, format!("round {} component {}: constraint residual {:e} (bound {:e}); kind={:?} log={}", round, k, resid, 2.0 * K * U * mag, kind, log));
                    return;
                }
            }
            if consistent_round { rep.tally(&format!("consistent_inputs/{}", name)); }
        }
    }
    if rep.want_sample(sub) { rep.sample(sub, format!("{:?} connected={:?} {}", kind, conn, log)); }
}
/// a value for terminal i that satisfies the constraint together with the others (all derived from `base`)
fn consistent_value(kind: Kind, i: usize, b: State) -> State {
    match kind {
        Kind::Invert => if i == 0 { b } else { -b },
        Kind::Gear(g) => if i == 0 { b } else { b * g },
        Kind::Axle(_) => b,
        Kind::Diff(_) => match i { 0 => b, 1 => b * 0.5, _ => b + b * 0.5 },
    }
}
macro_rules! axle_case {
    ($n:literal, $rep:expr, $case:expr, $rng:expr) => {{
        let ext: Vec<T> = (0..$n).map(|_| Terminal::new()).collect();
        let mut dev = { let mut d = Axle::<$n, E>::new(); if $case % 2 == 1 { let _ = d.update(); } Box::new(d) };
        let terms: Vec<&T> = (0..$n).map(|i| dev.get_terminal(i)).collect();
        rounds($rep, "axle", $case, Kind::Axle($n), &terms, &ext, &mut || dev.update(), $rng);
    }};
}
fn main() {
    let args = Args::parse();
    let mut rep = Report::new("C08", &args);
    for case in args.cases("invert", 20_000, 600_000) {
        let mut rng = Rng::new(args.seed, 801, case);
        let ext: Vec<T> = (0..2).map(|_| Terminal::new()).collect();
        let mut dev = Invert::<E>::new();
        // in half of the cases the device is updated once and then MOVED (boxed) before its terminals are handed out
        let mut dev = { let mut d = dev; if case % 2 == 1 { let _ = d.update(); } Box::new(d) };
        let terms = vec![dev.get_terminal_1(), dev.get_terminal_2()];
        rounds(&mut rep, "invert", case, Kind::Invert, &terms, &ext, &mut || dev.update(), &mut rng);
    }
    for case in args.cases("gear", 20_000, 600_000) {
        let mut rng = Rng::new(args.seed, 802, case);
        let ratio = if rng.chance(0.2) { *rng.pick(&[1.0f32, -1.0, 2.0, -0.5, 100.0, -0.01]) } else { (rng.sign() * rng.log_uniform(1e-2, 1e2)) as f32 };
        let ext: Vec<T> = (0..2).map(|_| Terminal::new()).collect();
        let mut dev = match catch(|| if case % 2 == 0 { GearTrain::<E>::with_ratio_raw(ratio) } else { GearTrain::<E>::with_ratio(Quantity::dimensionless(ratio)) }) {
            Ok(d) => d,
            Err(m) => { rep.violation("C08/constructor-panic/GearTrain", "gear", case, format!("ratio {} ({}): {}", ratio, if case % 2 == 0 { "with_ratio_raw" } else { "with_ratio" }, m)); continue; }
        };
        let mut dev = { let mut d = dev; if case % 4 >= 2 { let _ = d.update(); } Box::new(d) };
        let terms = vec![dev.get_terminal_1(), dev.get_terminal_2()];
        rounds(&mut rep, "gear", case, Kind::Gear(ratio), &terms, &ext, &mut || dev.update(), &mut rng);
    }
    for case in args.cases("axle", 30_000, 800_000) {
        let mut rng = Rng::new(args.seed, 803, case);
        match case % 7 { 0 => axle_case!(0, &mut rep, case, &mut rng), 1 => axle_case!(1, &mut rep, case, &mut rng), 2 => axle_case!(2, &mut rep, case, &mut rng), 3 => axle_case!(3, &mut rep, case, &mut rng), 4 => axle_case!(4, &mut rep, case, &mut rng), 5 => axle_case!(5, &mut rep, case, &mut rng), _ => axle_case!(6, &mut rep, case, &mut rng) }
    }
    for case in args.cases("differential", 30_000, 800_000) {
        let mut rng = Rng::new(args.seed, 804, case);
        let mode = (case % 5) as u8;
        let ext: Vec<T> = (0..3).map(|_| Terminal::new()).collect();
        let mut dev = match mode { 0 => Differential::<E>::with_distrust(DifferentialDistrust::Side1), 1 => Differential::with_distrust(DifferentialDistrust::Side2), 2 => Differential::with_distrust(DifferentialDistrust::Sum), 3 => Differential::with_distrust(DifferentialDistrust::Equal), _ => Differential::new() };
        let mut dev = { let mut d = dev; if case % 2 == 1 { let _ = d.update(); } Box::new(d) };
        let terms = vec![dev.get_side_1(), dev.get_side_2(), dev.get_sum()];
        rounds(&mut rep, "differential", case, Kind::Diff(mode.min(3)), &terms, &ext, &mut || dev.update(), &mut rng);
    }
    // ---- ratio from tooth counts: first/last with sign (-1)^(gears-1), observed behaviourally
    for case in args.cases("teeth", 2_000, 100_000) {
        let mut rng = Rng::new(args.seed, 805, case);
        let n = 2 + rng.usize(5);
        let teeth: Vec<f32> = (0..n).map(|_| rng.range_i64(5, 200) as f32).collect();
        macro_rules! mk { ($n:literal) => {{ let mut a = [0.0f32; $n]; a.copy_from_slice(&teeth); GearTrain::<E>::new(a) }}; }
        let mut dev = match n { 2 => mk!(2), 3 => mk!(3), 4 => mk!(4), 5 => mk!(5), _ => mk!(6) };
        let x = rand_state(&mut rng);
        set_state(dev.get_terminal_1(), 5, x);
        let _ = dev.update();
        let expect_ratio = teeth[0] as f64 / teeth[n - 1] as f64 * if (n - 1) % 2 == 0 { 1.0 } else { -1.0 };
        rep.eval();
        rep.tally(&format!("teeth/{}", n));
        rep.distinct(("teeth", n, teeth[0] > teeth[n - 1]));
        match own_state(dev.get_terminal_2()) {
            Some(d) => {
                let got = [d.value.position, d.value.velocity, d.value.acceleration];
                let xs = [x.position, x.velocity, x.acceleration];
                for k in 0..3 {
                    let (ok, _) = within(got[k], expect_ratio * xs[k] as f64, 8.0 * U * (expect_ratio * xs[k] as f64).abs());
                    if !ok {
                        rep.violation("C08/tooth-ratio", "teeth", case, format!("teeth {:?}: side1 {} -> side2 {} but ratio first/last*(-1)^(n-1) = {}", teeth, xs[k], got[k], expect_ratio));
                        break;
                    }
                }
            }
            None => rep.violation("C08/tooth-ratio", "teeth", case, format!("teeth {:?}: side 2 not filled", teeth)),
        }
        if rep.want_sample("teeth") { rep.sample("teeth", format!("teeth {:?} expected ratio {}", teeth, expect_ratio)); }
    }
    // coverage floors: every presence subset of the 2- and 3-terminal devices
    for name in ["Invert", "GearTrain", "Differential/Equal", "Differential/Sum"] { rep.floor(&format!("reads_with_followed_measurement/{}", name), 100); }
    for name in ["Invert", "GearTrain"] { for m in 0..4u32 { rep.floor(&format!("presence/{}/{:b}", name, m), 20); } }
    for mode in ["Side1", "Side2", "Sum", "Equal"] { for m in 0..8u32 { rep.floor(&format!("presence/Differential/{}/{:b}", mode, m), 10); } }
    for n in 1..=6 { rep.floor(&format!("slots_projected/Axle<{}>", n), 50); }
    for name in ["Invert", "GearTrain", "Differential/Equal"] { rep.floor(&format!("consistent_inputs/{}", name), 10); }
    for n in 2..=6 { rep.floor(&format!("teeth/{}", n), 20); }
    rep.finish(&args);
}
